#!/venv/bin/python
"""Static-analysis checks for bambinos/formulae.

usage: check.py <property id> [--tier quick|thorough] [--explain <violations.json>]

Exit codes: 0 all obligations discharged (known findings printed as KNOWN-FINDING),
1 violation (a `VIOLATION property=<id> replay=<path>` line is printed),
2 ANALYSIS-ERROR (the analysis is broken; nothing is said about the property).
"""
import argparse
import importlib
import json
import os
import sys
import time
import traceback

HERE = os.path.dirname(os.path.abspath(__file__))
sys.path.insert(0, HERE)

from sa.core import AnalysisError, Program, Report, finish, unlisted_violations  # noqa: E402

CLAIMED = ["C01", "C02", "C04", "C05", "C06", "C07", "C08", "C09", "C10", "C11", "C12", "C15", "C16", "C17"]


def run_one(prop, tier):
    t0 = time.time()
    try:
        prog = Program()
        mod = importlib.import_module(f"sa.rules.{prop}")
        rep = Report(prop)
        mod.run(prog, rep, tier)
        if tier == "thorough" and not os.environ.get("VERIF_NO_SELFTEST"):
            if unlisted_violations(rep):
                # the tree itself violates the property: report that; variants of a broken tree say nothing
                rep.extra["self_validation"] = {"skipped": "the analysed tree has violations; seeded variants are only run on a clean tree"}
            else:
                self_validate(prop, rep)
        return finish(rep, tier, t0, mod.EXPLANATION, mod.ASSUMPTIONS, prog)
    except AnalysisError as e:
        print(f"ANALYSIS-ERROR property={prop} {e}")
        return 2
    except Exception as e:  # noqa: BLE001
        traceback.print_exc()
        print(f"ANALYSIS-ERROR property={prop} internal error: {type(e).__name__}: {e}")
        return 2


def self_validate(prop, rep):
    """Thorough tier: the checker is validated on seeded variants of the CURRENT tree (scratch copies in a
    temporary directory).  An undetected breaking variant or an alarm on a benign variant means the checker is
    not to be trusted: ANALYSIS-ERROR, never a VIOLATION."""
    from selftest.run import run_all

    results = run_all(prop=prop, jobs=min(16, os.cpu_count() or 1), quiet=True)
    bad = [r for r in results if r["status"] == "FAILED"]
    skipped = [r for r in results if r["status"] == "skipped"]
    rep.extra["self_validation"] = {
        "variants_run": len(results),
        "as_expected": len(results) - len(bad) - len(skipped),
        "skipped_edit_no_longer_applies": [r["id"] for r in skipped],
        "failed": [{"id": r["id"], "detail": r["detail"][:300]} for r in bad],
        "rule": "breaking variants (one instance broken, still compiles) must make the named rule report a VIOLATION; "
        "benign variants (behaviour-preserving edits) must leave the check at exit 0",
    }
    if bad and not _tree_is_reference():
        # the variants were confirmed against the reference tree; on a tree that differs from it an edit may hit other
        # code than intended, so the outcome is reported, not enforced
        rep.extra["self_validation"]["enforced"] = False
        print(f"NOTE property={prop} self-validation: {len(bad)} variant(s) behaved differently on this modified tree (not enforced)")
        return
    if bad:
        raise AnalysisError(
            f"self-validation failed for {len(bad)} seeded variant(s): " + "; ".join(f"{r['id']}: {r['detail'][:160]}" for r in bad[:4])
        )
    if results and len(skipped) > len(results) // 2:
        raise AnalysisError(f"self-validation: {len(skipped)} of {len(results)} seeded variants no longer apply to the current tree")


def _tree_is_reference():
    """the analysed tree is byte-identical to the snapshot the variants were confirmed on (sa/reference_src)"""
    root = os.environ.get("FORMULAE_SRC", "/repo")
    ref = os.path.join(HERE, "sa", "reference_src", "formulae")
    cur = os.path.join(root, "formulae")
    try:
        for dp, _, fs in os.walk(ref):
            for fn in fs:
                if not fn.endswith(".py"):
                    continue
                a = os.path.join(dp, fn)
                b = os.path.join(cur, os.path.relpath(a, ref))
                if not os.path.exists(b) or open(a, "rb").read() != open(b, "rb").read():
                    return False
        for dp, _, fs in os.walk(cur):
            for fn in fs:
                if fn.endswith(".py") and not os.path.exists(os.path.join(ref, os.path.relpath(os.path.join(dp, fn), cur))):
                    return False
        return True
    except OSError:
        return False


def explain(prop, path):
    with open(path) as fh:
        items = json.load(fh)
    code = run_one(prop, "quick")
    print(f"--- recorded in {path} ({len(items)} item(s)); re-analysed current tree: exit {code}")
    root = os.environ.get("FORMULAE_SRC", "/repo")
    for it in items:
        print(f"\n{it['where']}  {it['rule']}  {it['function']}\n  construct: {it['construct']}\n  why: {it['why']}")
        try:
            f, ln = it["where"].rsplit(":", 1)
            lines = open(os.path.join(root, f)).read().splitlines()
            ln = int(ln)
            for i in range(max(0, ln - 2), min(len(lines), ln + 4)):
                print(f"    {i + 1:5d} {lines[i]}")
        except Exception:  # noqa: BLE001
            pass
    return code


def main():
    ap = argparse.ArgumentParser()
    ap.add_argument("prop")
    ap.add_argument("--tier", default=os.environ.get("VERIF_TIER", "quick"), choices=["quick", "thorough"])
    ap.add_argument("--explain")
    a = ap.parse_args()
    if a.prop == "all":
        worst = 0
        for p in CLAIMED:
            worst = max(worst, run_one(p, a.tier))
        sys.exit(worst)
    if a.explain:
        sys.exit(explain(a.prop, a.explain))
    sys.exit(run_one(a.prop, a.tier))


if __name__ == "__main__":
    main()

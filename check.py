#!/venv/bin/python
"""Static-analysis checks for bambinos/formulae.

usage: check.py <property id> [--tier quick|thorough] [--explain <violations.json>]

Exit codes: 0 all obligations discharged (known findings printed as KNOWN-FINDING),
1 violation (a `VIOLATION property=<id> replay=<path>` line is printed),
2 ANALYSIS-ERROR (the analysis is broken; nothing is said about the property).
"""
import argparse
import importlib
import json
import os
import sys
import time
import traceback

sys.path.insert(0, os.path.dirname(os.path.abspath(__file__)))

from sa.core import AnalysisError, Program, Report, finish  # noqa: E402

CLAIMED = ["C01", "C02", "C04", "C05", "C06", "C07", "C08", "C09", "C10", "C11", "C12", "C15", "C16", "C17"]


def run_one(prop, tier):
    t0 = time.time()
    try:
        prog = Program()
        mod = importlib.import_module(f"sa.rules.{prop}")
        rep = Report(prop)
        mod.run(prog, rep, tier)
        return finish(rep, tier, t0, mod.EXPLANATION, mod.ASSUMPTIONS, prog)
    except AnalysisError as e:
        print(f"ANALYSIS-ERROR property={prop} {e}")
        return 2
    except Exception as e:  # noqa: BLE001
        traceback.print_exc()
        print(f"ANALYSIS-ERROR property={prop} internal error: {type(e).__name__}: {e}")
        return 2


def explain(prop, path):
    with open(path) as fh:
        items = json.load(fh)
    code = run_one(prop, "quick")
    print(f"--- recorded in {path} ({len(items)} item(s)); re-analysed current tree: exit {code}")
    root = os.environ.get("FORMULAE_SRC", "/repo")
    for it in items:
        print(f"\n{it['where']}  {it['rule']}  {it['function']}\n  construct: {it['construct']}\n  why: {it['why']}")
        try:
            f, ln = it["where"].rsplit(":", 1)
            lines = open(os.path.join(root, f)).read().splitlines()
            ln = int(ln)
            for i in range(max(0, ln - 2), min(len(lines), ln + 4)):
                print(f"    {i + 1:5d} {lines[i]}")
        except Exception:  # noqa: BLE001
            pass
    return code


def main():
    ap = argparse.ArgumentParser()
    ap.add_argument("prop")
    ap.add_argument("--tier", default=os.environ.get("VERIF_TIER", "quick"), choices=["quick", "thorough"])
    ap.add_argument("--explain")
    a = ap.parse_args()
    if a.prop == "all":
        worst = 0
        for p in CLAIMED:
            worst = max(worst, run_one(p, a.tier))
        sys.exit(worst)
    if a.explain:
        sys.exit(explain(a.prop, a.explain))
    sys.exit(run_one(a.prop, a.tier))


if __name__ == "__main__":
    main()

#!/venv/bin/python
"""Checker self-validation on seeded variants of the CURRENT tree.

For each variant in selftest/variants.py a scratch copy of /repo/formulae is made in a
temporary directory (outside /repo and /verif, removed afterwards), one textual edit is
applied (the edit must match exactly once, otherwise the variant is *skipped* and counted),
the variant must still compile, and the property's check is run on it with
FORMULAE_SRC=<scratch>.  Breaking variants (expect='fire') must make the named rule report a
VIOLATION; benign variants (expect='silent') must leave the check at exit 0.

usage: run.py [--prop C01] [--jobs 16] [--only <variant id substring>]
exit 0: every applicable variant behaved as expected; 1: some did not.
"""
import argparse
import concurrent.futures as cf
import json
import os
import shutil
import subprocess
import sys
import tempfile

HERE = os.path.dirname(os.path.abspath(__file__))
VERIF = os.path.dirname(HERE)
sys.path.insert(0, VERIF)

from selftest.variants import VARIANTS  # noqa: E402


def apply_edits(root, edits):
    for rel, old, new in edits:
        p = os.path.join(root, rel)
        if not os.path.exists(p):
            return f"file {rel} missing"
        s = open(p).read()
        n = s.count(old)
        if n != 1:
            return f"pattern occurs {n}x in {rel}"
        s = s.replace(old, new)
        open(p, "w").write(s)
        try:
            compile(s, p, "exec")
        except SyntaxError as e:
            return f"variant does not compile: {e}"
    return None


def seeded_variants():
    """independently produced breaking changes stored under /verif/seeded/<id>/ (patch.diff + meta.json)"""
    out = []
    root = os.path.join(VERIF, "seeded")
    if not os.path.isdir(root):
        return out
    for d in sorted(os.listdir(root)):
        mp = os.path.join(root, d, "meta.json")
        pp = os.path.join(root, d, "patch.diff")
        if os.path.exists(mp) and os.path.exists(pp):
            m = json.load(open(mp))
            out.append(dict(id="seeded-" + d, props=m.get("replay_props") or [m["property"]], rule=None, expect="fire", edits=[], patch=pp,
                            note="independent sub-agent change"))
    return out


ALL_PROPS = ["C01", "C02", "C04", "C05", "C06", "C07", "C08", "C09", "C10", "C11", "C12", "C15", "C16", "C17"]


def benign_variants():
    """independently produced behaviour-preserving refactorings stored under /verif/benign/<id>/: every check must stay
    silent on them (entries marked expect='limit' in meta.json are documented limits and are not replayed)"""
    out = []
    root = os.path.join(VERIF, "benign")
    if not os.path.isdir(root):
        return out
    for d in sorted(os.listdir(root)):
        mp = os.path.join(root, d, "meta.json")
        pp = os.path.join(root, d, "patch.diff")
        if os.path.exists(mp) and os.path.exists(pp):
            m = json.load(open(mp))
            if m.get("expect") == "silent":
                out.append(dict(id="benign-" + d, props=list(ALL_PROPS), rule=None, expect="silent", edits=[], patch=pp,
                                note="independent behaviour-preserving refactoring"))
    return out


def run_variant(v):
    src = os.environ.get("FORMULAE_SRC", "/repo")
    tmp = tempfile.mkdtemp(prefix="formulae_variant_")
    try:
        shutil.copytree(os.path.join(src, "formulae"), os.path.join(tmp, "formulae"),
                        ignore=shutil.ignore_patterns("__pycache__"))
        if v.get("patch"):
            r = subprocess.run(["patch", "-p1", "-s", "-d", tmp, "-i", v["patch"]], capture_output=True, text=True)
            err = None if r.returncode == 0 else f"patch does not apply: {(r.stdout + r.stderr)[:200]}"
        else:
            err = apply_edits(tmp, v["edits"])
        if err:
            return dict(id=v["id"], status="skipped", detail=err)
        env = dict(os.environ, FORMULAE_SRC=tmp, VERIF_EVIDENCE_DIR=os.path.join(tmp, "ev"))
        res = []
        for prop in (v["props"] if v.get("only_prop") is None else [v["only_prop"]]):
            p = subprocess.run(["/venv/bin/python", os.path.join(VERIF, "check.py"), prop, "--tier", "quick"],
                               capture_output=True, text=True, env=env, timeout=300)
            res.append((prop, p.returncode, p.stdout))
        ok = True
        detail = []
        for prop, code, out in res:
            if v["expect"] == "fire":
                fired = code == 1 and (v["rule"] is None or any(
                    (("  " + v["rule"] + "  ") in line) for line in out.splitlines()
                ))
                if not fired:
                    ok = False
                    detail.append(f"{prop}: exit {code}, rule {v['rule']} not reported; tail: {out.strip().splitlines()[-3:]}")
            else:
                if code != 0:
                    ok = False
                    detail.append(f"{prop}: exit {code} on a benign variant; tail: {out.strip().splitlines()[-4:]}")
        return dict(id=v["id"], status="ok" if ok else "FAILED", detail="; ".join(detail))
    except Exception as e:  # noqa: BLE001
        return dict(id=v["id"], status="FAILED", detail=f"{type(e).__name__}: {e}")
    finally:
        shutil.rmtree(tmp, ignore_errors=True)


def run_all(prop=None, jobs=16, only=None, quiet=False):
    vs = [v for v in VARIANTS + seeded_variants() if (prop is None or prop in v["props"]) and (only is None or only in v["id"])]
    # benign refactorings are replayed against the property being validated (against all 14 when no property is given)
    vs += [dict(v, only_prop=prop) for v in benign_variants() if only is None or only in v["id"]]
    with cf.ThreadPoolExecutor(max_workers=jobs) as ex:
        results = list(ex.map(run_variant, vs))
    bad = [r for r in results if r["status"] == "FAILED"]
    skipped = [r for r in results if r["status"] == "skipped"]
    if not quiet:
        for r in results:
            if r["status"] != "ok":
                print(f"  {r['status']:8s} {r['id']}: {r['detail']}")
        print(f"variants: {len(results)} run, {len(results) - len(bad) - len(skipped)} as expected, "
              f"{len(skipped)} skipped, {len(bad)} FAILED")
    return results


if __name__ == "__main__":
    ap = argparse.ArgumentParser()
    ap.add_argument("--prop")
    ap.add_argument("--jobs", type=int, default=16)
    ap.add_argument("--only")
    a = ap.parse_args()
    rs = run_all(a.prop, a.jobs, a.only)
    sys.exit(1 if any(r["status"] == "FAILED" for r in rs) else 0)

"""Seeded variants used to validate the checker itself (see selftest/run.py).

B(...) = breaking variant: the named rule must fire.  S(...) = benign variant: the check must
stay silent (exit 0).  Each edit is (relative path, exact old text, new text) and must match
exactly once in the current tree, otherwise the variant is skipped (and counted).
"""
VARIANTS = []

P = "formulae/parser.py"
SC = "formulae/scanner.py"
RS = "formulae/resolver.py"
CR = "formulae/terms/call_resolver.py"
TT = "formulae/terms/terms.py"
EV = "formulae/environment.py"
MX = "formulae/matrices.py"
CL = "formulae/terms/call.py"
VR = "formulae/terms/variable.py"
TR = "formulae/transforms.py"
CT = "formulae/categorical.py"
UT = "formulae/utils.py"
CU = "formulae/terms/call_utils.py"
CF = "formulae/config.py"
MD = "formulae/model_description.py"


def B(id_, props, rule, *edits, note=""):
    VARIANTS.append(dict(id=id_, props=props if isinstance(props, list) else [props], rule=rule, expect="fire",
                         edits=list(edits), note=note))


def S(id_, props, *edits, note=""):
    VARIANTS.append(dict(id=id_, props=props if isinstance(props, list) else [props], rule=None, expect="silent",
                         edits=list(edits), note=note))


# ------------------------------------------------------------------ C01
B("c01-eof-check-removed", "C01", "R1.4",
  (P, "        if not self.at_end():\n            raise ParseError(f\"Unexpected token '{self.peek().lexeme}' after the end of the formula.\")\n", ""))
B("c01-eof-check-inverted", "C01", "R1.4", (P, "        if not self.at_end():\n            raise ParseError(f\"Unexpected", "        if self.at_end():\n            raise ParseError(f\"Unexpected"))
B("c01-sentinel-renamed-one-side", "C01", "R1.4", (P, 'return self.peek().kind == "EOF"', 'return self.peek().kind == "END"'))
B("c01-levels-swapped", "C01", "R1.1",
  (P, "    def multiplication(self):\n        expr = self.interaction()", "    def multiplication(self):\n        expr = self.addition_()"),
  note="placeholder; replaced below")
VARIANTS.pop()
B("c01-mult-also-matches-colon", "C01", "R1.1", (P, 'while self.match(["STAR", "SLASH"]):', 'while self.match(["STAR", "SLASH", "COLON"]):'))
B("c01-addition-right-recursive", "C01", "R1.1",
  (P, '            operator = self.previous()\n            right = self.multiplication()\n            expr = Binary(expr, operator, right)',
   '            operator = self.previous()\n            right = self.addition()\n            expr = Binary(expr, operator, right)'))
B("c01-interaction-operand-lower-level", "C01", "R1.1",
  (P, "    def interaction(self):\n        expr = self.multiple_interaction()", "    def interaction(self):\n        expr = self.multiplication()"))
B("c01-unary-operand-binary", "C01", "R1.1",
  (P, "            right = self.unary()\n            return Unary(operator, right)", "            right = self.multiple_interaction()\n            return Unary(operator, right)"),
  note="-a**2 would parse as -(a**2)")
B("c01-tilde-chained", "C01", "R1.1", (P, '        if self.match("TILDE"):', '        while self.match("TILDE"):'))
B("c01-rparen-match-instead-of-consume", "C01", "R1.2", (P, '            self.consume("RIGHT_PAREN", "Expect \')\' after expression.")', '            self.match("RIGHT_PAREN")'))
B("c01-rbrace-consume-deleted", "C01", "R1.2", (P, '            self.consume("RIGHT_BRACE", "Expect \'}\' after expression.")\n', ""))
B("c01-binary-dup-left", "C01", "R1.3",
  (P, "            right = self.interaction()\n            expr = Binary(expr, operator, right)", "            right = self.interaction()\n            expr = Binary(expr, operator, expr)"))
B("c01-binary-swapped", "C01", "R1.3",
  (P, "            right = self.unary()\n            expr = Binary(expr, operator, right)", "            right = self.unary()\n            expr = Binary(right, operator, expr)"))
B("c01-args-dropped", "C01", "R1.3", (P, "        expr = Call(expr, args)", "        expr = Call(expr, args[:1] and [])"), note="unmodelled expr -> analysis error")
VARIANTS.pop()
B("c01-call-arg-discarded", "C01", "R1.3", (P, "                args.append(self.expression())", "                self.expression()"))
B("c01-consume-does-not-raise", "C01", "R1.5", (P, "            raise ParseError(message)", "            return None"))
B("c01-match-without-advance", "C01", "R1.5", (P, "        if self.check(types):\n            self.advance()\n            return True", "        if self.check(types):\n            return True"))
B("c01-cursor-written-elsewhere", "C01", "R1.5", (P, "    def previous(self):\n        \"\"\"Returns the last Token we consumed\"\"\"\n", "    def previous(self):\n        \"\"\"Returns the last Token we consumed\"\"\"\n        self.current = self.current\n"))
B("c01-hash-skipped", "C01", "R1.7", (SC, 'elif char in [" ", "\\n", "\\t", "\\r"]:', 'elif char in [" ", "\\n", "\\t", "\\r", "#"]:'))
B("c01-default-pass", "C01", "R1.6", (SC, '            raise ScanError("Unexpected character: " + str(char))', "            pass"))
B("c01-ident-swallows-minus", "C01", "R1.8", (SC, 'self.peek() in [".", "_"]', 'self.peek() in [".", "_", "-"]'))
B("c01-starstar-mapped-to-star", "C01", "R1.6", (SC, '                self.add_token("STAR_STAR")', '                self.add_token("STAR")'))
B("c01-start-reset-outside-loop", "C01", "R1.7",
  (SC, "        while not self.at_end():\n            self.start = self.current\n            self.scan_token()", "        self.start = self.current\n        while not self.at_end():\n            self.scan_token()"))
B("c01-tilde-guard-gt2", "C01", "R1.9", (SC, "        if len(tilde_idx) > 1:", "        if len(tilde_idx) > 2:"))
B("c01-tilde-guard-removed", "C01", "R1.9", (SC, "        if len(tilde_idx) > 1:\n            raise ScanError(\"There is more than one '~' in model formula\")\n", ""))
B("c01-implicit-intercept-positions", "C01", "R1.9", (SC, 'self.tokens.insert(tilde_idx[0] + 1, Token("NUMBER", "1", 1))', 'self.tokens.insert(tilde_idx[0] + 2, Token("NUMBER", "1", 1))'))
B("c01-unterminated-string-accepted", "C01", "R1.8", (SC, '        if self.at_end():\n            raise ScanError("Unterminated string.")\n', ""))
B("c01-grouping-rewraps", "C01", "R1.10", (RS, "    def visitGroupingExpr(self, expr):\n        return expr.expression.accept(self)", "    def visitGroupingExpr(self, expr):\n        return expr.expression.accept(self) + Intercept()"))
B("c01-resolver-final-raise-deleted", "C01", "R1.11",
  (RS, '        else:  # pragma: no cover\n            raise ResolverError("Couldn\'t resolve BinaryExpr with otype \'" + otype + "\'")\n', ""))
S("c01-benign-ge2", "C01", (SC, "        if len(tilde_idx) > 1:", "        if len(tilde_idx) >= 2:"))
S("c01-benign-tilde-rhs-raised", "C01", (P, '            operator = self.previous()\n            right = self.addition()\n            expr = Binary(expr, operator, right)\n        return expr\n\n    def random_effect',
                                         '            operator = self.previous()\n            right = self.random_effect()\n            expr = Binary(expr, operator, right)\n        return expr\n\n    def random_effect'),
  note="right side of ~ raised to random_effect: accepts more, every tree still canonical")
S("c01-benign-while-true", "C01",
  (P, '        while self.match(["COLON"]):\n            operator = self.previous()\n            right = self.multiple_interaction()\n            expr = Binary(expr, operator, right)\n        return expr',
   '        while True:\n            if not self.match(["COLON"]):\n                break\n            operator = self.previous()\n            right = self.multiple_interaction()\n            expr = Binary(expr, operator, right)\n        return expr'))
S("c01-benign-renamed-locals", "C01",
  (P, '        expr = self.unary()\n        while self.match(["STAR_STAR"]):\n            operator = self.previous()\n            right = self.unary()\n            expr = Binary(expr, operator, right)\n        return expr',
   '        acc = self.unary()\n        while self.match(["STAR_STAR"]):\n            tok = self.previous()\n            rhs = self.unary()\n            acc = Binary(acc, tok, rhs)\n        return acc'))
S("c01-benign-consume-eof", "C01",
  (P, "        if not self.at_end():\n            raise ParseError(f\"Unexpected token '{self.peek().lexeme}' after the end of the formula.\")\n        return expr",
   "        if self.at_end():\n            return expr\n        raise ParseError('Unexpected token after the end of the formula.')"))
S("c01-benign-message", "C01", (P, '"Expect \')\' after arguments."', '"Expected a closing parenthesis."'))
S("c01-benign-colon-right-nested", "C01",
  (P, '        expr = self.multiple_interaction()\n        while self.match(["COLON"]):\n            operator = self.previous()\n            right = self.multiple_interaction()\n            expr = Binary(expr, operator, right)\n        return expr',
   '        expr = self.multiple_interaction()\n        if self.match(["COLON"]):\n            operator = self.previous()\n            right = self.interaction()\n            expr = Binary(expr, operator, right)\n        return expr'),
  note="right-nested ':' denotes the same term")

# ------------------------------------------------------------------ C02
B("c02-hash-two-args", "C02", "R2.1", (CR, "        return hash((self.value, self.lexeme))", "        return hash(self.value, self.lexeme)"))
B("c02-negintercept-hash-deleted", "C02", "R2.1", (TT, "    def __hash__(self):\n        return hash(self.name)\n\n", ""))
B("c02-hash-extra-field", "C02", "R2.1", (TT, "        return hash(tuple(self.components))", "        return hash((tuple(self.components), self.kind))"))
B("c02-lazycall-eq-unguarded", "C02", "R2.1", (CR, "        if not isinstance(other, type(self)):\n            return False\n        return (\n            self.callee == other.callee", "        return (\n            self.callee == other.callee"))
B("c02-term-eq-unguarded", "C02", "R2.1", (TT, "        if not isinstance(other, type(self)):\n            return False\n        else:\n            return self.components == other.components", "        return self.components == other.components"))
B("c02-term-add-model-branch-deleted", "C02", "R2.2", (TT, "            # \"x + 1\" and \"x + 0\" appear in the expr side of group-specific terms: (x + 0 | g)\n            return Model(self, other)\n        elif isinstance(other, Model):\n            return Model(self) + other\n", "            # \"x + 1\" and \"x + 0\" appear in the expr side of group-specific terms: (x + 0 | g)\n            return Model(self, other)\n"))
B("c02-term-plus-intercept-branch-removed", "C02", "R2.2", (TT, "        elif isinstance(other, (type(self), GroupSpecificTerm, Intercept, NegatedIntercept)):", "        elif isinstance(other, type(self)):"))
B("c02-term-minus-one-keeps-intercept", "C02", "R2.6", (TT, "            return Model(self, NegatedIntercept())", "            return Model(self)"))
B("c02-model-or-class-swapped", "C02", "R2.2", (TT, "        if isinstance(other, Term):\n            products = product(self.common_terms, [other])\n            terms = [GroupSpecificTerm", "        if isinstance(other, Intercept):\n            products = product(self.common_terms, [other])\n            terms = [GroupSpecificTerm"))
B("c02-attribute-typo", "C02", "R2.2", (TT, "            return Term(*self.components, *other.components)", "            return Term(*self.components, *other.component)"))
B("c02-intercept-or-term-dropped", "C02", "R2.2", (TT, "        if isinstance(other, Term):\n            return GroupSpecificTerm(self, other)\n        elif isinstance(other, Model):", "        if isinstance(other, Model):"))
B("c02-response-add-gst-dropped", "C02", "R2.2", (TT, "        if isinstance(other, (Term, GroupSpecificTerm, Intercept)):\n            return Model(other, response=self)", "        if isinstance(other, (Term, Intercept)):\n            return Model(other, response=self)"))
B("c02-star-resolved-as-colon", "C02", "R2.3", (RS, "            return expr.left.accept(self) * expr.right.accept(self)", "            return expr.left.accept(self) @ expr.right.accept(self)"))
B("c02-minus-operands-swapped", "C02", "R2.3", (RS, "            return expr.left.accept(self) - expr.right.accept(self)", "            return expr.right.accept(self) - expr.left.accept(self)"))
B("c02-zero-is-intercept", "C02", "R2.3", (RS, "        if expr.value == 0:\n            return NegatedIntercept()\n        elif expr.value == 1:\n            return Intercept()", "        if expr.value == 0:\n            return Intercept()\n        elif expr.value == 1:\n            return Intercept()"))
B("c02-unary-minus-no-swap", "C02", "R2.3", (RS, "            if isinstance(expr, Intercept):\n                return NegatedIntercept()", "            if isinstance(expr, Intercept):\n                return Intercept()"))
B("c02-left-used-twice", "C02", "R2.4", (RS, "            return expr.left.accept(self) + expr.right.accept(self)", "            return expr.left.accept(self) + expr.left.accept(self)"),
  note="also fires R2.3")
B("c02-components-not-deduplicated", "C02", "R2.5", (TT, "            if component not in self.components:\n                self.components.append(component)", "            self.components.append(component)"))
B("c02-add-term-no-membership-guard", "C02", "R2.5", (TT, "            if term not in self.common_terms:\n                self.common_terms.append(term)", "            self.common_terms.append(term)"))
B("c02-model-description-raw", "C02", "R2.5", (MD, "    return Model(description)", "    return description"))
S("c02-benign-hash-order", "C02", (TT, "        return hash((self.expr, self.factor))", "        return hash((self.factor, self.expr))"))
S("c02-benign-branch-order", "C02", (TT, "        if isinstance(other, NegatedIntercept):\n            return Model()\n        elif isinstance(other, type(self)):\n            return self\n        elif isinstance(other, (Term, GroupSpecificTerm)):",
                                      "        if isinstance(other, type(self)):\n            return self\n        elif isinstance(other, NegatedIntercept):\n            return Model()\n        elif isinstance(other, (Term, GroupSpecificTerm)):"))
S("c02-benign-eq-and-form", "C02", (TT, "        if not isinstance(other, type(self)):\n            return False\n        return self.expr == other.expr and self.factor == other.factor",
                                    "        return isinstance(other, type(self)) and self.expr == other.expr and self.factor == other.factor"))

# ------------------------------------------------------------------ C11
B("c11-outer-prepended", "C11", "R11.1", (EV, "return self.__class__(self._namespaces + [outer_namespace])", "return self.__class__([outer_namespace] + self._namespaces)"))
B("c11-globals-before-locals", "C11", "R11.1", (EV, "return cls([frame.f_locals, frame.f_globals])", "return cls([frame.f_globals, frame.f_locals])"))
B("c11-user-before-builtins", "C11", "R11.2",
  (CL, "        transforms_env = Environment([{**TRANSFORMS, **ENCODINGS}])\n        self.env = transforms_env.with_outer_namespace(env.namespace)",
   "        transforms_env = Environment([{**TRANSFORMS, **ENCODINGS}])\n        self.env = env.with_outer_namespace(transforms_env.namespace)"))
B("c11-reversed-dicts", "C11", "R11.3", (EV, "        for d in self._dicts:", "        for d in reversed(self._dicts):"))
B("c11-private-dict-last", "C11", "R11.3", (EV, "self._dicts = [{}] + list(dicts)", "self._dicts = list(dicts) + [{}]"))
B("c11-miss-returns-none", "C11", "R11.3", (EV, "                pass\n        raise KeyError(key)", "                pass\n        return None"))
B("c11-env-before-data", "C11", "R11.4",
  (CR, "        try:\n            result = data_mask[self.name]\n        except KeyError:\n            try:\n                result = env.namespace[self.name]\n            except KeyError as e:\n                raise e",
   "        try:\n            result = env.namespace[self.name]\n        except KeyError:\n            try:\n                result = data_mask[self.name]\n            except KeyError as e:\n                raise e"))
B("c11-inner-module-skipped", "C11", "R11.4", (CR, "            for inner_module_name in inner_modules_names[1:]:", "            for inner_module_name in inner_modules_names[2:]:"))
B("c11-getattr-default", "C11", "R11.5", (CR, "            fun = getattr(module, function_name)", "            fun = getattr(module, function_name, None)"), note="also changes symbolic result (R11.4)")
B("c11-namespace-get", "C11", "R11.5", (CR, "                result = env.namespace[self.name]", "                result = env.namespace.get(self.name)"), note="R11.4 fires too")
B("c11-reference-zero", "C11", "R11.6", (MX, "env = Environment.capture(env, reference=1)", "env = Environment.capture(env, reference=0)"))
B("c11-depth-plus-two", "C11", "R11.6", (EV, "            for _ in range(depth + 1):", "            for _ in range(depth + 2):"))
B("c11-capture-in-helper", "C11", "R11.6",
  (MX, "    env = Environment.capture(env, reference=1)\n", "    env = _capture(env)\n"),
  (MX, "# Utils\n", "def _capture(env):\n    return Environment.capture(env, reference=1)\n\n\n# Utils\n"))
B("c11-fresh-env-at-prediction", "C11", "R11.7", (CL, "        if self.kind in [\"numeric\", \"categoric\"]:\n            x = self.call.eval(data_mask, self.env)", "        if self.kind in [\"numeric\", \"categoric\"]:\n            x = self.call.eval(data_mask, Environment([{**TRANSFORMS, **ENCODINGS}]))"))
B("c11-env-not-passed-down", "C11", "R11.7", (TT, "        self.set_types(data, env)", "        self.set_types(data, Environment([]))"), note="needs import; still compiles (name resolved at run time)")
S("c11-benign-list-wrapper", "C11", (EV, "return VarLookupDict(self._namespaces)", "return VarLookupDict(self._namespaces)  # unchanged order"))
S("c11-benign-type-self", "C11", (EV, "return self.__class__(self._namespaces + [outer_namespace])", "return type(self)(self._namespaces + [outer_namespace])"))

# ------------------------------------------------------------------ C17
B("c17-start-plus-one", "C17", "R17.1", (MX, "            self.slices[term.name] = slice(start, start + delta)\n            start += delta\n        self.evaluated = True\n\n    def evaluate_new_data(self, data):\n        \"\"\"Evaluates common",
                                          "            self.slices[term.name] = slice(start, start + delta)\n            start += 1\n        self.evaluated = True\n\n    def evaluate_new_data(self, data):\n        \"\"\"Evaluates common"))
B("c17-delta-from-training-at-prediction", "C17", "R17.1", (MX, "            delta = term_matrix.shape[1] if term_matrix.ndim == 2 else 1", "            delta = term.data.shape[1] if term.data.ndim == 2 else 1"))
B("c17-slices-sorted-order", "C17", "R17.1", (MX, "        start = 0\n        for term in self.terms.values():\n            # NOTE", "        start = 0\n        for term in sorted(self.terms.values(), key=lambda t: t.name):\n            # NOTE"))
B("c17-start-not-zero", "C17", "R17.1", (MX, "        start = 0\n        matrices_to_stack = []", "        start = 1\n        matrices_to_stack = []"))
B("c17-continue-skips-update", "C17", "R17.1", (MX, "            new_instance.slices[term.name] = slice_new\n\n            start += delta", "            new_instance.slices[term.name] = slice_new\n            if delta == 0:\n                continue\n            start += delta"))
B("c17-group-aliases-training-slices", "C17", "R17.1", (MX, "        new_instance.factors_with_new_levels = tuple(factors_with_new_levels)", "        new_instance.factors_with_new_levels = tuple(factors_with_new_levels)\n        new_instance.slices = self.slices"))
B("c17-labels-reversed", "C17", "R17.2", (MX, "        colnames = [term.labels for term in self.terms.values()]", "        colnames = [term.labels for term in reversed(list(self.terms.values()))]"))
B("c17-labels-sorted", "C17", "R17.2", (MX, "columns=list(flatten_list(colnames))", "columns=sorted(flatten_list(colnames))"))
B("c17-array-returns-copy-transposed", "C17", "R17.3", (MX, "    def __array__(self):\n        return self.design_matrix\n\n    def __repr__(self):\n        return self.__str__()\n\n    def __str__(self):\n        entries = []\n        for name, term in self.terms.items():\n            content",
                                                          "    def __array__(self):\n        return self.design_matrix.T\n\n    def __repr__(self):\n        return self.__str__()\n\n    def __str__(self):\n        entries = []\n        for name, term in self.terms.items():\n            content"))
B("c17-getitem-guard-removed", "C17", "R17.3", (MX, "        if term not in self.slices:\n            raise ValueError(f\"'{term}' is not a valid term name\")\n        return self.design_matrix[:, self.slices[term]]\n\n    def __array__(self):\n        return self.design_matrix\n\n    def __repr__(self):\n        return self.__str__()\n\n    def __str__(self):\n        entries = []\n        for name, term in self.terms.items():\n            has_levels",
                                                 "        return self.design_matrix[:, self.slices.get(term, slice(0, 0))]\n\n    def __array__(self):\n        return self.design_matrix\n\n    def __repr__(self):\n        return self.__str__()\n\n    def __str__(self):\n        entries = []\n        for name, term in self.terms.items():\n            has_levels"))
B("c17-tuple-order", "C17", "R17.3", (MX, "return (self.response, self.common, self.group)[index]", "return (self.common, self.response, self.group)[index]"))
B("c17-common-prediction-order", "C17", "R17.4", (MX, "            [t.eval_new_data(data) for t in self.terms.values()]", "            [t.eval_new_data(data) for t in reversed(list(self.terms.values()))]"))
B("c17-assert-in-str", "C17", "R17.5", (MX, "            if term_slice_width != len(groups) * effect_n:  # Has extra groups\n", "            if term_slice_width != len(groups) * effect_n:  # Has extra groups\n                assert term_slice_width == (len(groups) + 1) * effect_n\n"))
B("c17-levels-based-width", "C17", "R17.5", (MX, "            effect_n = term.expr.data.shape[1] if term.expr.data.ndim == 2 else 1", "            effect_n = len(term.expr.levels) if has_levels else 1"))
B("c17-response-on-other-frame", "C17", "R17.6", (MX, "            self.response.evaluate(data, env)", "            self.response.evaluate(data.dropna(), env)"))
S("c17-benign-delta-if-else", "C17", (MX, "            delta = term.data.shape[1] if term.data.ndim == 2 else 1\n", "            if term.data.ndim == 2:\n                delta = term.data.shape[1]\n            else:\n                delta = 1\n"))
S("c17-benign-comment", "C17", (MX, "            # Always store the new slice.", "            # Always keep the new slice."))

# ------------------------------------------------------------------ C09
B("c09-validation-removed", "C09", "R9.1", (MX, "    if na_action not in [\"drop\", \"error\", \"pass\"]:\n        raise ValueError(\"'na_action' must be either 'drop', 'error' or 'pass'\")\n", ""))
B("c09-literal-typo", "C09", "R9.1", (MX, '        elif na_action == "drop":', '        elif na_action == "dropna":'))
B("c09-drop-no-rebind", "C09", "R9.1", (MX, "            data = data[~incomplete_rows]\n", "            data[~incomplete_rows]\n"))
B("c09-drop-keeps-incomplete", "C09", "R9.1", (MX, "            data = data[~incomplete_rows]\n", "            data = data[incomplete_rows]\n"))
B("c09-guard-gt1", "C09", "R9.1", (MX, "    if incomplete_rows_n > 0:", "    if incomplete_rows_n > 1:"))
B("c09-error-does-not-raise", "C09", "R9.1", (MX, "            raise ValueError(f\"'data' contains {incomplete_rows_n} incomplete rows.\")", "            _log.info(\"'data' contains %s incomplete rows.\", incomplete_rows_n)"))
B("c09-pass-drops", "C09", "R9.1", (MX, "                data.shape[0],\n            )\n        elif na_action == \"drop\":", "                data.shape[0],\n            )\n            data = data.dropna()\n        elif na_action == \"drop\":"))
B("c09-isna-on-full-frame", "C09", "R9.2",
  (MX, "    cols_to_select = description.var_names.intersection(set(data.columns))\n    data = data[list(cols_to_select)]\n\n    incomplete_rows = data.isna().any(axis=1)",
   "    incomplete_rows = data.isna().any(axis=1)\n    cols_to_select = description.var_names.intersection(set(data.columns))\n    data = data[list(cols_to_select)]\n"))
B("c09-any-axis0", "C09", "R9.2", (MX, "incomplete_rows = data.isna().any(axis=1)", "incomplete_rows = data.isna().all(axis=1)"))
B("c09-design-from-unfiltered", "C09", "R9.2", (MX, "    design = DesignMatrices(description, data, env)", "    design = DesignMatrices(description, data.reset_index(drop=True), env)"))
B("c09-response-on-other-frame", "C09", "R9.3", (MX, "            self.response.evaluate(data, env)", "            self.response.evaluate(self.data.copy(), env)"))
B("c09-kwargs-not-traversed", "C09", "R9.4", (CU, "        kwargs = list(flatten_list([arg.accept(self) for arg in expr.kwargs.values()]))\n        return args + kwargs", "        return args"))
B("c09-kwargs-computed-not-returned", "C09", "R9.4", (CU, "        return args + kwargs", "        return args"))
B("c09-response-not-used", "C09", "R9.4", (TT, "        if self.response is not None:\n            var_names.update(self.response.var_names)\n", ""))
B("c09-factor-not-used", "C09", "R9.4", (TT, "        return expr_names.union(factor_names)", "        return expr_names"))
B("c09-terms-without-group", "C09", "R9.4", (TT, "        return self.common_terms + self.group_terms", "        return self.common_terms"))
B("c09-first-component-only", "C09", "R9.4", (TT, "set().union(*[component.var_names for component in self.components])", "set().union(*[component.var_names for component in self.components[:1]])"))
B("c09-bq-strip-differs", "C09", "R9.4", (CU, "        # delete backquotes in 'variable'\n        return expr.expression.lexeme[1:-1]", "        # delete backquotes in 'variable'\n        return expr.expression.lexeme[1:]"), note="dead visitor in practice but sibling agreement")
B("c09-operator-args-not-traversed", "C09", "R9.4", (CU, "        return list(arg.accept(self) for arg in expr.args)", "        return list(arg.accept(self) for arg in expr.args[:1])"))
S("c09-benign-ne0", "C09", (MX, "    if incomplete_rows_n > 0:", "    if incomplete_rows_n != 0:"))
S("c09-benign-tuple-literals", "C09", (MX, '    if na_action not in ["drop", "error", "pass"]:', '    if na_action not in ("drop", "error", "pass"):'))

# ------------------------------------------------------------------ C10
B("c10-literal-warn", "C10", "R10.2", (VR, '        if config["EVAL_UNSEEN_CATEGORIES"] == "warning":', '        if config["EVAL_UNSEEN_CATEGORIES"] == "warn":'))
B("c10-setattr-no-validation", "C10", "R10.1", (CF, "            if value in Config.FIELDS[key]:\n                super().__setattr__(key, value)\n            else:\n                raise ValueError(f\"{value} is not a valid value for '{key}'\")", "            super().__setattr__(key, value)"))
B("c10-unknown-key-accepted", "C10", "R10.1", (CF, "            raise KeyError(f\"'{key}' is not a valid configuration option\")", "            super().__setattr__(key, value)"))
B("c10-default-silent", "C10", "R10.1", (CF, '("error", "warning", "silent")', '("silent", "warning", "error")'))
B("c10-package-sets-config", "C10", "R10.1", (CL, "        new_data_levels = set(x)\n        original_levels = set(self.levels)", "        config[\"EVAL_UNSEEN_CATEGORIES\"] = \"silent\"\n        new_data_levels = set(x)\n        original_levels = set(self.levels)"))
B("c10-zero-mask-differs", "C10", "R10.3", (VR, "        contribution[idxs_original == -1] = 0", "        contribution[idxs_modified == 0] = 0"))
B("c10-whole-array-zeroed", "C10", "R10.3", (CL, "        contribution[idxs_original == -1] = 0", "        contribution[:] = 0"))
B("c10-zero-through-matrix", "C10", "R10.3", (VR, "        contribution = self.contrast_matrix.matrix[idxs_modified]", "        contribution = self.contrast_matrix.matrix"))
B("c10-index-not-copied", "C10", "R10.3", (CL, "        idxs_modified = np.copy(idxs_original)", "        idxs_modified = idxs_original"))
B("c10-categorical-without-levels", "C10", "R10.3", (VR, "            idxs = pd.Categorical(x, categories=self.levels).codes\n            return self.contrast_matrix.matrix[idxs]", "            idxs = pd.Categorical(x).codes\n            return self.contrast_matrix.matrix[idxs]"))
B("c10-policy-one-sibling", "C10", "R10.2", (CL, '        if config["EVAL_UNSEEN_CATEGORIES"] == "error":\n            difference = [str(x) for x in difference]\n            raise ValueError(', '        if config["EVAL_UNSEEN_CATEGORIES"] == "error" and len(difference) > 1:\n            difference = [str(x) for x in difference]\n            raise ValueError('),
  note="compare no longer a plain literal test")
B("c10-warning-returns-early", "C10", "R10.2", (CL, "                \"Setting all the indicator variables to zero.\"\n            )\n        return contribution\n\n    def eval_new_data_categorical_box", "                \"Setting all the indicator variables to zero.\"\n            )\n            return self.contrast_matrix.matrix[idxs_modified]\n        return contribution\n\n    def eval_new_data_categorical_box"))
B("c10-sibling-error-only-in-one", "C10", "R10.4", (VR, "        if not difference:\n            idxs = pd.Categorical(x, categories=self.levels).codes\n            return self.contrast_matrix.matrix[idxs]\n", "        if not difference:\n            idxs = pd.Categorical(x, categories=self.levels).codes\n            return self.contrast_matrix.matrix[idxs]\n        self.levels = self.levels\n"),
  note="extra field write in one sibling: summaries differ (n_stores unchanged, fields same) -> may not fire")
VARIANTS.pop()
B("c10-new-column-first", "C10", "R10.5", (TT, "            Ji = np.column_stack([Ji, np.zeros((Ji.shape[0], 1), dtype=\"int\")])\n            Ji[all_zeros, -1] = 1", "            Ji = np.column_stack([np.zeros((Ji.shape[0], 1), dtype=\"int\"), Ji])\n            Ji[all_zeros, 0] = 1"))
B("c10-new-column-unconditional", "C10", "R10.5", (TT, "        if all_zeros.any():\n            Ji = np.column_stack", "        if True:\n            Ji = np.column_stack"))
B("c10-mask-axis0", "C10", "R10.5", (TT, "        all_zeros = ~Ji.any(axis=1)", "        all_zeros = ~Ji.any(axis=0)"))
B("c10-factor-name-not-dedup", "C10", "R10.5", (MX, "            if slice_w_original != slice_w_new and term.factor.name not in factors_with_new_levels:", "            if slice_w_original != slice_w_new:"))
B("c10-width-of-other-term", "C10", "R10.5", (MX, "            slice_original = self.slices[term.name]", "            slice_original = self.slices[next(iter(self.slices))]"))
B("c10-reports-term-name", "C10", "R10.5", (MX, "                factors_with_new_levels.append(term.factor.name)", "                factors_with_new_levels.append(term.name)"))
S("c10-benign-renamed-both", "C10",
  (VR, "        idxs_original = pd.Categorical(x, categories=self.levels).codes\n        idxs_modified = np.copy(idxs_original)\n        idxs_modified[idxs_original == -1] = 0\n        contribution = self.contrast_matrix.matrix[idxs_modified]\n        contribution[idxs_original == -1] = 0",
   "        codes = pd.Categorical(x, categories=self.levels).codes\n        patched = np.copy(codes)\n        patched[codes == -1] = 0\n        contribution = self.contrast_matrix.matrix[patched]\n        contribution[codes == -1] = 0"))
S("c10-benign-message", "C10", (CF, '"\'{key}\' is not a valid configuration option"', '"\'{key}\' is not a configuration option"'))

# ------------------------------------------------------------------ C12
B("c12-slash-floordiv", "C12", "R12.2", (CR, '"SLASH": operator.truediv,', '"SLASH": operator.floordiv,'))
B("c12-symbol-sub-plus", "C12", "R12.2", (CR, '        "sub": "-",', '        "sub": "+",'))
B("c12-le-lt-swapped", "C12", "R12.2", (CR, '"LESS_EQUAL": operator.le,\n        "LESS": operator.lt,', '"LESS_EQUAL": operator.lt,\n        "LESS": operator.le,'))
B("c12-operands-swapped", "C12", "R12.2", (CR, "return LazyOperator(op, expr.left.accept(self), expr.right.accept(self))", "return LazyOperator(op, expr.right.accept(self), expr.left.accept(self))"))
B("c12-unary-neg-pos", "C12", "R12.2", (CR, 'UNARY_OPERATORS = {"PLUS": operator.pos, "MINUS": operator.neg}', 'UNARY_OPERATORS = {"PLUS": operator.neg, "MINUS": operator.pos}'))
B("c12-mult-above-add-broken", "C12", "R12.1", (P, 'while self.match(["MINUS", "PLUS"]):', 'while self.match(["MINUS", "PLUS", "STAR"]):'), note="also C01")
B("c12-kwargs-wrong-key", "C12", "R12.3", (CR, "                kwargs[arg.name.name.lexeme] = arg.value.accept(self)", "                kwargs[arg.value.accept(self)] = arg.value.accept(self)"))
B("c12-kwargs-dropped-at-eval", "C12", "R12.3", (CR, "        return callee(*args, **kwargs)", "        return callee(*args)"))
B("c12-args-reversed", "C12", "R12.3", (CR, "        args = [arg.eval(data_mask, env) for arg in self.args]", "        args = [arg.eval(data_mask, env) for arg in reversed(self.args)]"))
B("c12-I-not-identity", "C12", "R12.4", (TR, "    >>> {(x + y) / z}\n    \"\"\"\n    return x", "    >>> {(x + y) / z}\n    \"\"\"\n    return x * 1"))
B("c12-brace-builds-other-call", "C12", "R12.4", (P, 'return Call(Variable(Token("IDENTIFIER", "I")), [expr])', 'return Call(Variable(Token("IDENTIFIER", "C")), [expr])'))
B("c12-string-keeps-quotes", "C12", "R12.5", (SC, "        value = self.code[self.start + 1 : self.current - 1]", "        value = self.code[self.start : self.current]"))
B("c12-int-as-float", "C12", "R12.5", (SC, "            token = int(self.code[self.start : self.current])", "            token = float(self.code[self.start : self.current])"))
B("c12-kwargs-not-printed", "C12", "R12.6", (CR, "        return f\"{self.callee}({', '.join(args + kwargs)})\"", "        return f\"{self.callee}({', '.join(args)})\""))
B("c12-lexeme-dropped", "C12", "R12.5", (CR, "        return LazyValue(expr.value, expr.lexeme)", "        return LazyValue(expr.value, None)"))
S("c12-benign-dict-reordered", "C12", (CR, '        "PLUS": operator.add,\n        "MINUS": operator.sub,', '        "MINUS": operator.sub,\n        "PLUS": operator.add,'))

# ------------------------------------------------------------------ C06
B("c06-center-flag-not-set", "C06", "R6.1", (TR, "            self.mean = np.mean(x)\n            self.params_set = True\n        return x - self.mean", "            self.mean = np.mean(x)\n        return x - self.mean"))
B("c06-scale-guard-deleted", "C06", "R6.1", (TR, "        if not self.params_set:\n            self.mean = np.mean(x)\n            self.std = np.std(x)\n            self.params_set = True\n", "        self.mean = np.mean(x)\n        self.std = np.std(x)\n"))
B("c06-bspline-recomputes-knots", "C06", "R6.1", (TR, "    def eval(self, x):\n        n_bases = len(self._knots) - (self._degree + 1)", "    def eval(self, x):\n        self._knots = np.sort(np.concatenate(([np.min(x), np.max(x)] * (self._degree + 1), self._knots[self._degree + 1:-(self._degree + 1)])))\n        n_bases = len(self._knots) - (self._degree + 1)"))
B("c06-bspline-flag-not-set", "C06", "R6.1", (TR, "        self._knots = all_knots\n        self.params_set = True", "        self._knots = all_knots"))
B("c06-poly-memo-test-removed", "C06", "R6.1", (TR, "            if k not in self.alpha:\n                self.alpha[k] = np.sum(x * P[:, k] ** 2) / np.sum(P[:, k] ** 2)", "            self.alpha[k] = np.sum(x * P[:, k] ** 2) / np.sum(P[:, k] ** 2)"))
B("c06-flag-reopened", "C06", "R6.1", (TR, "        return (x - self.mean) / self.std", "        self.params_set = False\n        return (x - self.mean) / self.std"))
B("c06-class-level-memo", "C06", "R6.1", (TR, '    __transform_name__ = "poly"\n', '    __transform_name__ = "poly"\n    alpha = {}\n'), note="also C07 R7.3")
B("c06-center-mean-outside-guard", "C06", "R6.2", (TR, "        return x - self.mean", "        return x - np.mean(x)"))
B("c06-numeric-new-data-unique", "C06", "R6.2", (VR, "    def eval_new_data_numeric(self, x):\n        return np.asarray(x)", "    def eval_new_data_numeric(self, x):\n        return np.asarray(x) - np.asarray(x).min()"))
B("c06-categorical-without-categories", "C06", "R6.2", (CL, "            idxs = pd.Categorical(x, categories=self.levels).codes\n            return self.contrast_matrix.matrix[idxs]", "            idxs = pd.Categorical(x).codes\n            return self.contrast_matrix.matrix[idxs]"))
B("c06-recode-at-prediction", "C06", "R6.3", (VR, "        if not difference:\n            idxs = pd.Categorical(x, categories=self.levels).codes", "        if not difference:\n            self.contrast_matrix = Treatment().code_with_intercept(self.levels) if self.spans_intercept else self.contrast_matrix\n            idxs = pd.Categorical(x, categories=self.levels).codes"))
B("c06-set-data-at-prediction", "C06", "R6.3", (TT, "        if self.kind == \"interaction\":\n            result = reduce(\n                get_interaction_matrix, [c.eval_new_data(data) for c in self.components]\n            )", "        if self.kind == \"interaction\":\n            self.set_data(self.spans_intercept)\n            result = reduce(\n                get_interaction_matrix, [c.eval_new_data(data) for c in self.components]\n            )"))
B("c06-deepcopy-dropped-truediv", "C06", "R6.4", (TT, "            return Model(self, Term(*deepcopy(self.components), *deepcopy(other.components)))", "            return Model(self, Term(*self.components, *deepcopy(other.components)))"))
B("c06-deepcopy-dropped-matmul-model", "C06", "R6.4", (TT, "        if isinstance(other, type(self)):\n            products = product(self.common_terms, other.common_terms)\n            iterms = [\n                Term(*deepcopy(p[0].components), *deepcopy(p[1].components)) for p in products\n            ]\n            return Model(*iterms)", "        if isinstance(other, type(self)):\n            products = product(self.common_terms, other.common_terms)\n            iterms = [\n                Term(*p[0].components, *deepcopy(p[1].components)) for p in products\n            ]\n            return Model(*iterms)"))
B("c06-deepcopy-dropped-pow", "C06", "R6.4", (TT, "Term(*[deepcopy(comp) for term in terms for comp in term.components])", "Term(*[comp for term in terms for comp in term.components])"))
B("c06-deepcopy-dropped-or", "C06", "R6.4", (TT, "            terms = [GroupSpecificTerm(deepcopy(p[0]), p[1]) for p in products]", "            terms = [GroupSpecificTerm(p[0], p[1]) for p in products]"))
B("c06-extra-term-not-copied", "C06", "R6.4", (TT, "    extra_term = Term(*deepcopy(components))", "    extra_term = Term(*components)"))
B("c06-prediction-reversed-components", "C06", "R6.5", (TT, "                get_interaction_matrix, [c.eval_new_data(data) for c in self.components]", "                get_interaction_matrix, [c.eval_new_data(data) for c in reversed(self.components)]"))
B("c06-khatri-rao-swapped-prediction", "C06", "R6.5", (TT, "        Zi = linalg.khatri_rao(Ji.T, Xi.T).T", "        Zi = linalg.khatri_rao(Xi.T, Ji.T).T"))
B("c06-transform-recreated", "C06", "R6.5", (CR, "            and self.stateful_transform is None\n        ):", "        ):"))
B("c06-offset-returns-training", "C06", "R6.6", (CL, "            offset = self.call.eval(data_mask, self.env)  # returns instance of Offset\n            values = offset.eval()", "            values = self._intermediate_data.eval()"))
B("c06-proportion-returns-training-trials", "C06", "R6.6", (CL, "            name = self.call.args[1].name\n            values = data_mask[name]", "            values = self._intermediate_data.trials"))
B("c06-term-returns-cached", "C06", "R6.6", (TT, "            result = self.components[0].eval_new_data(data)\n        return result", "            result = self.components[0].value\n        return result"))
S("c06-benign-flag-renamed", "C06", (TR, "    def __init__(self):\n        self.params_set = False\n        self.mean = None\n\n    def __call__(self, x):\n        if not self.params_set:\n            self.mean = np.mean(x)\n            self.params_set = True\n        return x - self.mean",
                                     "    def __init__(self):\n        self.fitted = False\n        self.mean = None\n\n    def __call__(self, x):\n        if not self.fitted:\n            self.mean = np.mean(x)\n            self.fitted = True\n        return x - self.mean"))
S("c06-benign-copy-deepcopy", "C06", (TT, "    extra_term = Term(*deepcopy(components))", "    extra_term = Term(*deepcopy(list(components)))"), note="copied source with list() wrapper")
VARIANTS.pop()
S("c06-benign-locals-renamed", "C06", (CL, "        new_data_levels = set(x)\n        original_levels = set(self.levels)\n        difference = new_data_levels - original_levels", "        seen_now = set(x)\n        seen_before = set(self.levels)\n        difference = seen_now - seen_before"))
S("c06-benign-none-guard", "C06", (TR, "    def __init__(self):\n        self.params_set = False\n        self.mean = None\n\n    def __call__(self, x):\n        if not self.params_set:\n            self.mean = np.mean(x)\n            self.params_set = True\n        return x - self.mean",
                                   "    def __init__(self):\n        self.mean = None\n\n    def __call__(self, x):\n        if self.mean is None:\n            self.mean = np.mean(x)\n        return x - self.mean"))

# ------------------------------------------------------------------ C07
B("c07-value-written-at-prediction", "C07", "R7.1", (VR, "    def eval_new_data_numeric(self, x):\n        return np.asarray(x)", "    def eval_new_data_numeric(self, x):\n        self.value = np.asarray(x)\n        return self.value"))
B("c07-term-data-overwritten", "C07", "R7.1", (TT, "            result = self.components[0].eval_new_data(data)\n        return result", "            result = self.components[0].eval_new_data(data)\n        self.data = result\n        return result"))
B("c07-levels-extended-at-prediction", "C07", "R7.1", (CL, "        if not difference:\n            idxs = pd.Categorical(x, categories=self.levels).codes", "        self.levels.extend(sorted(difference))\n        if not difference:\n            idxs = pd.Categorical(x, categories=self.levels).codes"))
B("c07-self-matrix-overwritten", "C07", "R7.1", (MX, "        new_instance.slices = self.slices\n        new_instance.evaluated = True", "        new_instance.slices = self.slices\n        self.design_matrix = new_instance.design_matrix\n        new_instance.evaluated = True"))
B("c07-component-kind-set-at-prediction", "C07", "R7.1", (TT, "        Xi = self.expr.eval_new_data(data)\n        Ji = self.factor.eval_new_data(data)", "        for component in self.factor.components:\n            component.kind = \"categoric\"\n        Xi = self.expr.eval_new_data(data)\n        Ji = self.factor.eval_new_data(data)"))
B("c07-transform-overwritten", "C07", "R7.1", (CR, "            and self.stateful_transform is None\n        ):", "        ):"))
B("c07-center-inplace", "C07", "R7.2", (TR, "        return x - self.mean", "        x -= self.mean\n        return x"))
B("c07-zero-through-remembered-matrix", "C07", "R7.2", (VR, "        contribution = self.contrast_matrix.matrix[idxs_modified]\n        contribution[idxs_original == -1] = 0", "        contribution = self.contrast_matrix.matrix[:, :]\n        contribution[idxs_original == -1] = 0"))
B("c07-new-group-col-on-returned-array", "C07", "R7.2", (TT, "            Ji = np.column_stack([Ji, np.zeros((Ji.shape[0], 1), dtype=\"int\")])\n            Ji[all_zeros, -1] = 1", "            Ji[all_zeros, -1] = 1"))
B("c07-binary-mutates-argument", "C07", "R7.2", (TR, "    booleans = x == success\n", "    x[x != success] = 0\n    booleans = x == success\n"))
B("c07-offset-values-inplace", "C07", "R7.2", (CL, "            if isinstance(values, pd.Series):\n                values = values.to_numpy()\n            result = values\n        return result\n\n    def eval_new_data_proportion", "            if isinstance(values, pd.Series):\n                values = values.to_numpy()\n            values *= 1.0\n            result = values\n        return result\n\n    def eval_new_data_proportion"))
B("c07-class-level-alpha", "C07", "R7.3", (TR, '    __transform_name__ = "poly"\n', '    __transform_name__ = "poly"\n    alpha = {}\n'))
B("c07-lru-cache-model-description", "C07", "R7.3", (MD, "def model_description(formula):", "import functools\n\n\n@functools.lru_cache(maxsize=None)\ndef model_description(formula):"))
B("c07-module-level-design-cache", "C07", "R7.3", (MX, "_log = logging.getLogger(\"formulae\")\n", "_log = logging.getLogger(\"formulae\")\n_DESIGNS = {}\n"))
B("c07-mutable-default", "C07", "R7.3", (MX, "def design_matrices(formula, data, na_action=\"drop\", env=0, extra_namespace=None):", "def design_matrices(formula, data, na_action=\"drop\", env=0, extra_namespace={}):"))
B("c07-transforms-written-at-eval", "C07", "R7.3", (CL, "        transforms_env = Environment([{**TRANSFORMS, **ENCODINGS}])", "        TRANSFORMS.update(env.namespace.get(\"__transforms__\", {}))\n        transforms_env = Environment([{**TRANSFORMS, **ENCODINGS}])"))
B("c07-symbols-table-mutated", "C07", "R7.3", (CR, "        self.symbol = self.SYMBOLS[op.__name__]", "        self.SYMBOLS.setdefault(op.__name__, op.__name__)\n        self.symbol = self.SYMBOLS[op.__name__]"))
B("c07-state-not-in-init", "C07", "R7.4", (TR, "        self.params_set = False\n        self.mean = None\n        self.std = None\n", "        self.params_set = False\n        self.mean = None\n"))
B("c07-dropna-inplace", "C07", "R7.5", (MX, "            data = data[~incomplete_rows]\n", "            data.dropna(inplace=True)\n"))
B("c07-data-column-added", "C07", "R7.5", (MX, "    incomplete_rows = data.isna().any(axis=1)\n", "    incomplete_rows = data.isna().any(axis=1)\n    data[\"__incomplete__\"] = incomplete_rows\n"), note="after rebinding: data is the subset frame (fresh): should NOT fire R7.5 - benign")
VARIANTS.pop()
B("c07-caller-frame-column-added", "C07", "R7.5", (MX, "    extra_namespace = extra_namespace or {}\n", "    extra_namespace = extra_namespace or {}\n    data[\"__row__\"] = range(data.shape[0])\n"))
B("c07-namespace-written", "C07", "R7.5", (CR, "                result = env.namespace[self.name]\n", "                result = env.namespace[self.name]\n                env.namespace[self.name] = result\n"))
B("c07-index-reset-on-caller-frame", "C07", "R7.5", (MX, "    extra_namespace = extra_namespace or {}\n", "    extra_namespace = extra_namespace or {}\n    data.index = range(data.shape[0])\n"))
B("c07-design-from-global-model", "C07", "R7.6", (MX, "    description = model_description(formula)\n", "    description = _DESCRIPTIONS.setdefault(formula, model_description(formula))\n"), (MX, "# Utils\n", "_DESCRIPTIONS = dict()\n\n\n# Utils\n"))
B("c07-random-jitter", "C07", "R7.7", (TR, "        return x - self.mean", "        return x - self.mean + np.random.normal(0, 1e-12, len(x))"))
B("c07-levels-from-set-order", "C07", "R7.7", (CL, "            categories = sorted(list(set(data)))", "            categories = list(set(data))"))
S("c07-benign-immutable-constant", "C07", (MX, "_log = logging.getLogger(\"formulae\")\n", "_log = logging.getLogger(\"formulae\")\nWRAP_WIDTH = 100\n"))
S("c07-benign-never-read-attr", "C07", (TT, "        Zi = linalg.khatri_rao(Ji.T, Xi.T).T\n        return Zi", "        Zi = linalg.khatri_rao(Ji.T, Xi.T).T\n        self._last_shape_for_debugging = Zi.shape\n        return Zi"))
S("c07-benign-copy-then-mutate", "C07", (TR, "        return x - self.mean", "        out = np.array(x, dtype=float)\n        out -= self.mean\n        return out"))

# ------------------------------------------------------------------ C16
B("c16-B-other-function", "C16", "R16.1", (TR, '        "B": binary,', '        "B": I,'))
B("c16-standardize-is-center", "C16", "R16.1", (TR, '        "standardize": Scale,', '        "standardize": Center,'))
B("c16-T-drops-ref", "C16", "R16.1", (TR, "    return CategoricalBox(data, Treatment(ref), levels)", "    return CategoricalBox(data, Treatment(), levels)"))
B("c16-S-uses-treatment", "C16", "R16.1", (TR, "    return CategoricalBox(data, Sum(omit), levels)", "    return CategoricalBox(data, Treatment(omit), levels)"))
B("c16-C-drops-levels", "C16", "R16.1", (TR, "    return CategoricalBox(data, contrast, levels)", "    return CategoricalBox(data, contrast, None)"))
B("c16-box-levels-ignored", "C16", "R16.1", (CL, "        if levels is None:\n            categories = sorted(list(set(data)))\n        else:\n            categories = levels", "        categories = sorted(list(set(data)))"))
B("c16-box-contrast-ignored", "C16", "R16.1", (CL, "        contrast = box.contrast\n\n        if contrast is None:\n            contrast = Treatment()", "        contrast = Treatment()"))
B("c16-offset-constant-training-size", "C16", "R16.3", (CL, "            result = np.ones(len(data_mask.index)) * self.call.args[0].value", "            result = self._intermediate_data.eval()"))
B("c16-prop-trials-training", "C16", "R16.3", (CL, "            name = self.call.args[1].name\n            values = data_mask[name]", "            values = self._intermediate_data.trials"))
B("c16-response-new-data-any-kind", "C16", "R16.3", (MX, "        if self.kind == \"proportion\":\n            return self.term.term.eval_new_data(data)\n        raise ValueError(\"Can't evaluate response term with kind different to 'proportion'\")", "        return self.term.term.eval_new_data(data)"))
B("c16-offset-guard-after-store", "C16", "R16.4", (TR, "        self.size = None\n        if not (is_numeric_dtype(x) or isinstance(x, (int, float))):\n            raise ValueError(\"offset() can only be used with numeric variables.\")\n", "        self.size = None\n"))
B("c16-offset-response-allowed", "C16", "R16.4", (CL, "        if self.is_response:\n            raise ValueError(\"offset() cannot be used as a response term.\")\n", ""))
B("c16-binary-no-refusal", "C16", "R16.4", (TR, "    if not sum(booleans):\n        raise ValueError(f\"No value in 'x' is equal to \\\"{success}\\\"\")\n", ""))
B("c16-prop-le-guard-removed", "C16", "R16.4", (TR, "        if not (np.less_equal(successes, trials)).all():\n            raise ValueError(\"'successes' cannot be greater than 'trials'\")\n", ""))
B("c16-binary-polarity", "C16", "R16.6", (TR, "    return np.where(booleans, 1, 0)", "    return np.where(booleans, 0, 1)"))
B("c16-binary-default-largest", "C16", "R16.6", (TR, "        success = categories[0]", "        success = categories[-1]"))
B("c16-prop-columns-swapped", "C16", "R16.6", (TR, "        return np.vstack([self.successes, self.trials]).T", "        return np.vstack([self.trials, self.successes]).T"))
S("c16-benign-docstring", "C16", (TR, "    It is a shorthand for C(x, Sum)", "    It is a shorthand for C(x, Sum(omit))"))

# ------------------------------------------------------------------ C15
B("c15-component-count-guard-removed", "C15", "R15.1", (TT, "            n = len(term.components)\n            if n == 1:\n                self.term = term\n                self.term.components[0].is_response = True\n            else:\n                raise ValueError(f\"The response term must contain only one component, not {n}.\")",
                                                      "            n = len(term.components)\n            self.term = term\n            self.term.components[0].is_response = True"))
B("c15-response-not-marked", "C15", "R15.1", (TT, "                self.term.components[0].is_response = True\n", ""))
B("c15-response-reduced-coding", "C15", "R15.2", (TT, "        self.term.set_data(spans_intercept=True)", "        self.term.set_data(spans_intercept=False)"))
B("c15-set-data-before-set-type", "C15", "R15.2", (MX, "        self.term.set_type(self.data, self.env)\n        self.term.set_data()", "        self.term.set_data()\n        self.term.set_type(self.data, self.env)"))
B("c15-level-not-passed", "C15", "R15.3", (RS, "        return Term(Variable(expr.name.lexeme, level))", "        return Term(Variable(expr.name.lexeme))"))
B("c15-reference-used-for-predictors", "C15", "R15.3", (VR, "        if self.is_response and self.reference is not None:", "        if self.reference is not None:"))
B("c15-nested-bracket-allowed", "C15", "R15.3", (P, "                    if level.level is not None:\n                        raise ParseError(\"Are you using nested brackets? Why?\")\n", ""))
B("c15-encoding-reads-response", "C15", "R15.4", (TT, "        groups = self._get_encoding_groups()\n", "        groups = self._get_encoding_groups()\n        if self.response is not None and self.response.term.kind == \"categoric\":\n            groups = groups[:1]\n"))
B("c15-is-response-read-in-numeric", "C15", "R15.4", (CL, "        if isinstance(x, np.ndarray):\n            self.value = x\n        elif isinstance(x, pd.Series):\n            self.value = x.values\n        else:\n            raise ValueError(f\"Call result is of an unrecognized type ({type(x)}).\")\n\n    def eval_categoric",
                                                        "        if isinstance(x, np.ndarray):\n            self.value = x\n        elif isinstance(x, pd.Series):\n            self.value = x.values if not self.is_response else x.values.astype(float)\n        else:\n            raise ValueError(f\"Call result is of an unrecognized type ({type(x)}).\")\n\n    def eval_categoric"))
B("c15-common-from-all-terms", "C15", "R15.4", (MX, "            self.common = CommonEffectsMatrix(self.model.common_terms)", "            self.common = CommonEffectsMatrix(self.model.terms)"))
B("c15-response-always-built", "C15", "R15.5", (MX, "        if self.model.response:\n            self.response = ResponseMatrix(self.model.response)\n            self.response.evaluate(data, env)", "        self.response = ResponseMatrix(self.model.response)\n        if self.model.response:\n            self.response.evaluate(data, env)"))
B("c15-prop-columns-swapped", "C15", "R15.6", (TR, "        return np.vstack([self.successes, self.trials]).T", "        return np.vstack([self.trials, self.successes]).T"))
S("c15-benign-message", "C15", (TT, '"The response term must be of class Term, not {type(term)}."', '"The response must be a Term, not {type(term)}."'))

# ------------------------------------------------------------------ C04
B("c04-interaction-loops-exchanged", "C04", "R4.1", (UT, "    for j1 in range(x.shape[1]):\n        for j2 in range(y.shape[1]):\n            l.append(x[:, j1] * y[:, j2])", "    for j2 in range(y.shape[1]):\n        for j1 in range(x.shape[1]):\n            l.append(x[:, j1] * y[:, j2])"))
B("c04-labels-product-reversed", "C04", "R4.1", (TT, "            labels = [\":\".join(str_tuple) for str_tuple in list(itertools.product(*labels))]", "            labels = [\":\".join(str_tuple) for str_tuple in list(itertools.product(*labels[::-1]))]"))
B("c04-set-data-reversed-fold", "C04", "R4.1", (TT, "            self.data = reduce(get_interaction_matrix, [c.value for c in self.components])", "            self.data = reduce(get_interaction_matrix, [c.value for c in reversed(self.components)])"))
B("c04-labels-other-collection", "C04", "R4.1", (TT, "            labels = []\n            for component in self.components:\n                labels.append(component.labels)", "            labels = []\n            for component in sorted(self.components, key=lambda c: str(c.name)):\n                labels.append(component.labels)"))
B("c04-treatment-label-drops-last", "C04", "R4.2", (CT, "        levels = levels[:reference] + levels[reference + 1 :]\n        labels = [str(level) for level in levels]\n        return ContrastMatrix(contrast, labels)", "        levels = levels[:-1]\n        labels = [str(level) for level in levels]\n        return ContrastMatrix(contrast, labels)"))
B("c04-sum-label-other-index", "C04", "R4.2", (CT, "        levels = levels[:omit_index] + levels[omit_index + 1 :]", "        levels = levels[:-1]"))
B("c04-codes-from-other-categorical", "C04", "R4.2", (VR, "            value = self.contrast_matrix.matrix[x.codes]", "            value = self.contrast_matrix.matrix[pd.Categorical(x.astype(str)).codes]"))
B("c04-labels-sorted", "C04", "R4.2", (VR, "            labels = [f\"{self.name}[{label}]\" for label in self.contrast_matrix.labels]", "            labels = [f\"{self.name}[{label}]\" for label in sorted(self.contrast_matrix.labels)]"))
B("c04-matrix-built-from-other-list", "C04", "R4.2", (CL, "            self.contrast_matrix = treatment.code_with_intercept(self.levels)\n        else:\n            self.contrast_matrix = treatment.code_without_intercept(self.levels)\n\n        self.value = self.contrast_matrix.matrix[x.codes]",
                                                       "            self.contrast_matrix = treatment.code_with_intercept(sorted(self.levels, reverse=True))\n        else:\n            self.contrast_matrix = treatment.code_without_intercept(self.levels)\n\n        self.value = self.contrast_matrix.matrix[x.codes]"))
B("c04-levels-first-seen", "C04", "R4.3", (VR, "            categories = sorted(np.unique(x).tolist())", "            categories = list(pd.unique(x))"))
B("c04-box-set-order", "C04", "R4.3", (CL, "            categories = sorted(list(set(data)))", "            categories = list(set(data))"))
B("c04-box-levels-resorted", "C04", "R4.3", (CL, "        else:\n            categories = levels\n", "        else:\n            categories = sorted(levels)\n"))
B("c04-numeric-scaled", "C04", "R4.4", (VR, "        elif isinstance(x, pd.Series):\n            self.value = x.values\n        else:\n            raise ValueError(f\"Variable is of an unrecognized type ({type(x)}).\")\n\n    def eval_categoric", "        elif isinstance(x, pd.Series):\n            self.value = x.values - x.values.min()\n        else:\n            raise ValueError(f\"Variable is of an unrecognized type ({type(x)}).\")\n\n    def eval_categoric"))
B("c04-new-numeric-sorted", "C04", "R4.4", (CL, "    def eval_new_data_numeric(self, x):\n        return np.asarray(x)", "    def eval_new_data_numeric(self, x):\n        return np.sort(np.asarray(x))"))
B("c04-component-shared", "C04", "R4.5", (TT, "            return Model(self, Term(*deepcopy(self.components), *deepcopy(other.components)))", "            return Model(self, Term(*self.components, *other.components))"))
B("c04-dataframe-labels-reversed", "C04", "R4.6", (MX, "        colnames = [term.labels for term in self.terms.values()]", "        colnames = [term.labels for term in list(self.terms.values())[::-1]]"))
S("c04-benign-redundant-sorted-removed", "C04", (VR, "            categories = sorted(np.unique(x).tolist())", "            categories = np.unique(x).tolist()"))
S("c04-benign-comprehension-for-loops", "C04", (UT, "    for j1 in range(x.shape[1]):\n        for j2 in range(y.shape[1]):\n            l.append(x[:, j1] * y[:, j2])\n    return np.column_stack(l)", "    return np.column_stack([x[:, j1] * y[:, j2] for j1 in range(x.shape[1]) for j2 in range(y.shape[1])])"))

# ------------------------------------------------------------------ C05
B("c05-khatri-rao-swapped-training", "C05", "R5.1", (TT, "        self.data = linalg.khatri_rao(Ji.T, Xi.T).T  # Zi", "        self.data = linalg.khatri_rao(Xi.T, Ji.T).T  # Zi"))
B("c05-label-loops-exchanged", "C05", "R5.1", (TT, "        labels = [f\"{level}|{group}\" for group in self.factor.labels for level in levels]", "        labels = [f\"{level}|{group}\" for level in levels for group in self.factor.labels]"))
B("c05-groups-product-reversed", "C05", "R5.1", (TT, "        self.groups = [\":\".join(s) for s in list(itertools.product(*groups))]", "        self.groups = [\":\".join(s) for s in list(itertools.product(*groups[::-1]))]"))
B("c05-factor-reduced-coding", "C05", "R5.2", (TT, "        self.factor.set_data(True)  # Factor is a categorical term that always spans the intercept", "        self.factor.set_data(spans_intercept)"))
B("c05-forced-categoric-deleted", "C05", "R5.2", (TT, "            component.kind = \"categoric\"\n\n        # Store the type of the components.", "\n        # Store the type of the components."))
B("c05-new-column-first", "C05", "R5.3", (TT, "            Ji = np.column_stack([Ji, np.zeros((Ji.shape[0], 1), dtype=\"int\")])\n            Ji[all_zeros, -1] = 1", "            Ji = np.column_stack([np.zeros((Ji.shape[0], 1), dtype=\"int\"), Ji])\n            Ji[all_zeros, 0] = 1"))
B("c05-same-factor-conjunct-dropped", "C05", "R5.4", (TT, "                    if t.factor == term.factor and isinstance(t.expr, Intercept):", "                    if isinstance(t.expr, Intercept):"))
B("c05-encoding-starts-false", "C05", "R5.4", (TT, "        for term in self.group_terms:\n            encoding = True", "        for term in self.group_terms:\n            encoding = False"))
B("c05-implicit-intercept-not-added", "C05", "R5.5", (TT, "            self.common_terms.insert(0, Intercept())", "            pass"))
B("c05-negation-keeps-intercept", "C05", "R5.5", (TT, "            self.common_terms.remove(Intercept())\n            self.common_terms.remove(NegatedIntercept())", "            self.common_terms.remove(NegatedIntercept())"))
B("c05-term-or-skips-intercepts-for-sum", "C05", "R5.5", (TT, "            return Model(*intercepts, *slopes)", "            return Model(*slopes)"), note="intercepts computed but unused: count of GroupSpecificTerm(Intercept() sites unchanged -> may not fire")
VARIANTS.pop()
B("c05-term-or-no-implicit-intercept", "C05", "R5.5", (TT, "            terms = [GroupSpecificTerm(Intercept(), other), GroupSpecificTerm(self, other)]", "            terms = [GroupSpecificTerm(self, other)]"))
B("c05-pairing-first-factor-only", "C05", "R5.5", (TT, "            products = product(self.common_terms, other.common_terms)\n            terms = [GroupSpecificTerm(deepcopy(p[0]), p[1]) for p in products]", "            products = product(self.common_terms, other.common_terms[:1])\n            terms = [GroupSpecificTerm(deepcopy(p[0]), p[1]) for p in products]"))
B("c05-effect-shared-across-factors", "C05", "R5.6", (TT, "                GroupSpecificTerm(deepcopy(p[0]), p[1]) for p in product([self], other.common_terms)", "                GroupSpecificTerm(p[0], p[1]) for p in product([self], other.common_terms)"))
S("c05-benign-comment", "C05", (TT, "        # If a row contains ALL zeroes, then it indicates that is a new, unseen, group.", "        # A row of zeros marks an unseen group."))

# ------------------------------------------------------------------ C08
B("c08-reference-first-row", "C08", "R8.2", (TR, "        categories = sorted(x.unique().tolist())\n        success = categories[0]", "        success = x.iloc[0]"))
B("c08-center-first-value", "C08", "R8.2", (TR, "            self.mean = np.mean(x)\n            self.params_set = True\n        return x - self.mean", "            self.mean = x[0]\n            self.params_set = True\n        return x - self.mean"))
B("c08-scale-cumsum", "C08", "R8.2", (TR, "            self.std = np.std(x)", "            self.std = np.std(np.cumsum(x))"))
B("c08-knots-from-head", "C08", "R8.2", (TR, "                inner_knots = np.percentile(x, 100 * np.asarray(knot_quantiles))", "                inner_knots = np.percentile(x[:50], 100 * np.asarray(knot_quantiles))"))
B("c08-levels-first-seen", "C08", "R8.1", (CL, "            categories = sorted(np.unique(x).tolist())", "            categories = list(dict.fromkeys(x))"))
B("c08-binary-default-first-seen", "C08", "R8.1", (TR, "        categories = sorted(x.unique().tolist())", "        categories = x.unique().tolist()"))
B("c08-column-by-position", "C08", "R8.3", (VR, "        x = data_mask[self.name]\n        if is_numeric_dtype(x):", "        x = data_mask.iloc[:, list(data_mask.columns).index(self.name)]\n        if is_numeric_dtype(x):"))
B("c08-first-column-default", "C08", "R8.3", (CL, "            name = self.call.args[1].name\n            values = data_mask[name]", "            name = data_mask.columns[0]\n            values = data_mask[name]"))
B("c08-size-from-index-label", "C08", "R8.4", (CL, "            x.set_size(len(data_mask.index))", "            x.set_size(data_mask.index[-1] + 1)"))
B("c08-mask-before-selection", "C08", "R8.4",
  (MX, "    cols_to_select = description.var_names.intersection(set(data.columns))\n    data = data[list(cols_to_select)]\n\n    incomplete_rows = data.isna().any(axis=1)",
   "    incomplete_rows = data.isna().any(axis=1)\n    cols_to_select = description.var_names.intersection(set(data.columns))\n    data = data[list(cols_to_select)]\n"))
B("c08-rows-sorted", "C08", "R8.5", (MX, "            data = data[~incomplete_rows]\n", "            data = data[~incomplete_rows]\n            data = data.sort_index()\n"))
B("c08-mask-from-other-frame", "C08", "R8.5", (MX, "            data = data[~incomplete_rows]\n", "            data = data.reset_index(drop=True)\n            data = data[~incomplete_rows]\n"))
S("c08-benign-percentile", "C08", (TR, "            lower_bound = np.min(x)", "            lower_bound = np.percentile(x, 0)"))

# ------------------------------------------------------------------ C02 R2.6 (expansion semantics)
B("c02x-mul-drops-main-effect", "C02", "R2.6", (TT, "            terms = [self] + other.common_terms\n", "            terms = other.common_terms\n"))
B("c02x-div-adds-rhs-main-effect", "C02", "R2.6", (TT, "            return Model(self, Term(*deepcopy(self.components), *deepcopy(other.components)))", "            return Model(self, other, Term(*deepcopy(self.components), *deepcopy(other.components)))"))
B("c02x-pow-order-off-by-one", "C02", "R2.6", (TT, "list(p) for i in range(2, value + 1) for p in combinations(self.common_terms, i)", "list(p) for i in range(2, value) for p in combinations(self.common_terms, i)"))
B("c02x-sub-model-keeps-group-terms", "C02", "R2.6", (TT, "                if term in self.group_terms:\n                    self.group_terms.remove(term)\n", ""))
B("c02x-model-add-model-common-only", "C02", "R2.6", (TT, "        elif isinstance(other, type(self)):\n            for term in other.terms:\n                self.add_term(term)\n            return self", "        elif isinstance(other, type(self)):\n            for term in other.common_terms:\n                self.add_term(term)\n            return self"))
B("c02x-x-minus-x-keeps-x", "C02", "R2.6", (TT, "            if self.components == other.components:\n                return Model()\n            else:\n                return self", "            if self.components == other.components:\n                return self\n            else:\n                return Model()"))
B("c02x-interaction-model-model-uses-self-twice", "C02", "R2.6", (TT, "        if isinstance(other, type(self)):\n            products = product(self.common_terms, other.common_terms)\n            iterms = [\n                Term(*deepcopy(p[0].components), *deepcopy(p[1].components)) for p in products\n            ]\n            return Model(*iterms)",
                                                                  "        if isinstance(other, type(self)):\n            products = product(self.common_terms, self.common_terms)\n            iterms = [\n                Term(*deepcopy(p[0].components), *deepcopy(p[1].components)) for p in products\n            ]\n            return Model(*iterms)"))
B("c02x-term-or-sum-no-slopes-for-all", "C02", "R2.6", (TT, "            return Model(*intercepts, *slopes)", "            return Model(*intercepts, *slopes[:1])"), note="unmodelled slice -> analysis error is acceptable")
VARIANTS.pop()
B("c02x-term-or-sum-drops-intercepts", "C02", "R2.6", (TT, "            return Model(*intercepts, *slopes)", "            return Model(*slopes)"))
B("c02x-model-div-term-uses-product", "C02", "R2.6", (TT, "            return self.add_term(\n                Term(*deepcopy(self.common_components), *deepcopy(other.components))\n            )", "            return self.add_term(other)"))
B("c02x-response-drops-rhs-model", "C02", "R2.6", (TT, "        if isinstance(other, (Term, GroupSpecificTerm, Intercept)):\n            return Model(other, response=self)", "        if isinstance(other, (Term, GroupSpecificTerm, Intercept)):\n            return Model(response=self)"))
B("c02x-plus-negated-keeps-intercept", "C02", "R2.6", (TT, "        if isinstance(other, NegatedIntercept):\n            return self - Intercept()\n        elif isinstance(other, (Term, GroupSpecificTerm, Intercept)):\n            return self.add_term(other)", "        if isinstance(other, NegatedIntercept):\n            return self\n        elif isinstance(other, (Term, GroupSpecificTerm, Intercept)):\n            return self.add_term(other)"))
S("c02x-benign-iterms-inline", "C02", (TT, "            products = product([self], other.common_terms)\n            iterms = [\n                Term(*deepcopy(p[0].components), *deepcopy(p[1].components)) for p in products\n            ]\n            return Model(*iterms)\n        else:  # pragma: no cover\n            return NotImplemented\n\n    def __truediv__",
                                        "            return Model(\n                *[Term(*deepcopy(p[0].components), *deepcopy(p[1].components)) for p in product([self], other.common_terms)]\n            )\n        else:  # pragma: no cover\n            return NotImplemented\n\n    def __truediv__"))

# ------------------------------------------------------------------ round-4 machinery: benign and breaking forms of the same code
_ZERO_OLD = ("        idxs_original = pd.Categorical(x, categories=self.levels).codes\n        idxs_modified = np.copy(idxs_original)\n"
             "        idxs_modified[idxs_original == -1] = 0\n        contribution = self.contrast_matrix.matrix[idxs_modified]\n"
             "        contribution[idxs_original == -1] = 0\n")
S("r4-benign-zeroing-where-ge0", ['C10', 'C04', 'C06'], (CL, _ZERO_OLD,
  "        idxs = pd.Categorical(x, categories=self.levels).codes\n        seen = idxs >= 0\n"
  "        contribution = self.contrast_matrix.matrix[np.where(seen, idxs, 0)]\n        contribution[~seen] = 0\n"),
  (VR, _ZERO_OLD,
  "        idxs = pd.Categorical(x, categories=self.levels).codes\n        seen = idxs >= 0\n"
  "        contribution = self.contrast_matrix.matrix[np.where(seen, idxs, 0)]\n        contribution[~seen] = 0\n"))
S("r4-benign-zeroing-mask-product", ['C10', 'C04', 'C06'], (CL, _ZERO_OLD,
  "        idxs = pd.Categorical(x, categories=self.levels).codes\n"
  "        contribution = self.contrast_matrix.matrix[np.maximum(idxs, 0)] * (idxs != -1)[:, None]\n"),
  (VR, _ZERO_OLD,
  "        idxs = pd.Categorical(x, categories=self.levels).codes\n"
  "        contribution = self.contrast_matrix.matrix[np.maximum(idxs, 0)] * (idxs != -1)[:, None]\n"))
B("r4-zeroing-gt0", "C10", "R10.3", (VR, _ZERO_OLD,
  "        idxs = pd.Categorical(x, categories=self.levels).codes\n        seen = idxs > 0\n"
  "        contribution = self.contrast_matrix.matrix[np.where(seen, idxs, 0)]\n        contribution[~seen] = 0\n"))
B("r4-zeroing-mask-recomputed-after-patch", "C10", "R10.3", (VR, _ZERO_OLD,
  "        idxs = np.asarray(pd.Categorical(x, categories=self.levels).codes)\n        idxs[idxs == -1] = 0\n"
  "        contribution = self.contrast_matrix.matrix[idxs]\n        contribution[idxs == -1] = 0\n"))
S("r4-benign-extra-term-membership", ['C07'], (TT, "if name in encoding.keys()]", "if name in encoding]"))
S("r4-benign-extra-term-sorted", ['C07'], (TT,
  "    component_names = [component.name for component in term.components]\n    components = [term.get_component(name) for name in component_names if name in encoding.keys()]",
  "    components = [component for component in term.components if component.name in set(encoding)]"))
B("r4-extra-term-dict-order", "C07", "R7.7", (TT,
  "    component_names = [component.name for component in term.components]\n    components = [term.get_component(name) for name in component_names if name in encoding.keys()]",
  "    components = [term.get_component(name) for name in list(encoding)]"))
S("r4-benign-gst-varnames-own-set", ['C09', 'C08', 'C11', 'C12'], (TT,
  "        expr_names = self.expr.var_names.copy()\n        factor_names = self.factor.var_names.copy()\n        return expr_names.union(factor_names)",
  "        names = set(self.expr.var_names)\n        names.update(self.factor.var_names)\n        return names"))
S("r4-benign-gst-varnames-inplace-on-fresh", ['C09', 'C08', 'C11', 'C12'], (TT,
  "        expr_names = self.expr.var_names.copy()\n        factor_names = self.factor.var_names.copy()\n        return expr_names.union(factor_names)",
  "        names = self.expr.var_names\n        names |= self.factor.var_names\n        return names"),
  note="every var_names implementation returns a fresh set, so updating the result in place is harmless")
S("r4-benign-div-via-matmul-of-copies", ['C02', 'C04', 'C06', 'C17'], (TT,
  "            return Model(self, Term(*deepcopy(self.components), *deepcopy(other.components)))",
  "            return Model(self, deepcopy(self) @ deepcopy(other))"),
  note="other is known not to be a number here (checked just above), so the nested raise cannot trigger")
S("r4-benign-interaction-np-multiply", ['C04', 'C05', 'C09'], (UT, "            l.append(x[:, j1] * y[:, j2])", "            column = np.multiply(x[:, j1], y[:, j2])\n            l.append(column)"))
B("r4-interaction-nan-to-num", "C09", "R9.5", (UT, "            l.append(x[:, j1] * y[:, j2])", "            l.append(np.nan_to_num(x[:, j1] * y[:, j2]))"),
  note="classified as unknown element -> analysis error would also be acceptable")

# ------------------------------------------------------------------ rebuilt rules (benign round 4): breaking forms in the NEW spellings
_NG_OLD = ("            Ji = np.column_stack([Ji, np.zeros((Ji.shape[0], 1), dtype=\"int\")])\n            Ji[all_zeros, -1] = 1")
S("b4-benign-new-group-indicator-column", ["C05", "C06", "C10"], (TT, _NG_OLD, "            Ji = np.column_stack([Ji, all_zeros.astype(int)])"))
B("b4-new-group-inverted-indicator", "C10", "R10.5", (TT, _NG_OLD, "            Ji = np.column_stack([Ji, (~all_zeros).astype(int)])"))
B("b4-new-group-indicator-first", "C10", "R10.5", (TT, _NG_OLD, "            Ji = np.column_stack([all_zeros.astype(int), Ji])"))
B("b4-new-group-where-swapped", "C05", "R5.3", (TT, _NG_OLD, "            Ji = np.column_stack([Ji, np.where(all_zeros, 0, 1)])"))
B("b4-ylevel-indicator-swapped", "C15", "R15.3", (VR, "            value = np.where(x == self.reference, 1, 0)", "            value = np.where(x == self.reference, 0, 1)"))
B("b4-ylevel-indicator-swapped-c04", "C04", "R4.2", (VR, "            value = np.where(x == self.reference, 1, 0)", "            value = (x != self.reference).astype(int)"))
S("b4-benign-ylevel-astype", ["C04", "C15"], (VR, "            value = np.where(x == self.reference, 1, 0)", "            value = (x == self.reference).astype(int)"))
_TL_OLD = ("        tilde_idx = [i for i in range(len(self.tokens)) if is_tilde(self.tokens[i])]\n\n        if len(tilde_idx) > 1:\n"
           "            raise ScanError(\"There is more than one '~' in model formula\")\n\n        if add_intercept:\n            if len(tilde_idx) == 0:\n"
           "                self.tokens = [Token(\"NUMBER\", \"1\", 1), Token(\"PLUS\", \"+\")] + self.tokens\n            if len(tilde_idx) == 1:\n"
           "                self.tokens.insert(tilde_idx[0] + 1, Token(\"NUMBER\", \"1\", 1))\n                self.tokens.insert(tilde_idx[0] + 2, Token(\"PLUS\", \"+\"))\n")
def _tl(limit, first="tilde_at is None", brk=""):
    return ("        tilde_count = 0\n        tilde_at = None\n        for i in range(len(self.tokens)):\n            if is_tilde(self.tokens[i]):\n"
            "                tilde_count += 1\n                if " + first + ":\n                    tilde_at = i\n" + brk +
            "\n        if tilde_count > " + str(limit) + ":\n            raise ScanError(\"There is more than one '~' in model formula\")\n\n        if add_intercept:\n"
            "            if tilde_at is None:\n                self.tokens = [Token(\"NUMBER\", \"1\", 1), Token(\"PLUS\", \"+\")] + self.tokens\n            else:\n"
            "                self.tokens.insert(tilde_at + 1, Token(\"NUMBER\", \"1\", 1))\n                self.tokens.insert(tilde_at + 2, Token(\"PLUS\", \"+\"))\n")
S("b4-benign-tilde-counter", ["C01", "C12"], (SC, _TL_OLD, _tl(1)))
B("b4-tilde-counter-allows-two", "C01", "R1.9", (SC, _TL_OLD, _tl(2)))
B("b4-tilde-counter-stops-at-first", "C01", "R1.9", (SC, _TL_OLD, _tl(1, brk="                break\n")))
_LK_OLD = ("        for d in self._dicts:\n            try:\n                return d[key]\n            except KeyError:\n                pass\n        raise KeyError(key)\n")
B("b4-lookup-helper-reversed", "C11", "R11.3", (EV, _LK_OLD,
  "        found, value = self._lookup(key)\n        if not found:\n            raise KeyError(key)\n        return value\n\n    def _lookup(self, key):\n"
  "        for d in reversed(self._dicts):\n            try:\n                return True, d[key]\n            except KeyError:\n                pass\n        return False, None\n"))
B("b4-lookup-helper-miss-returns-none", "C11", "R11.3", (EV, _LK_OLD,
  "        found, value = self._lookup(key)\n        return value\n\n    def _lookup(self, key):\n"
  "        for d in self._dicts:\n            try:\n                return True, d[key]\n            except KeyError:\n                pass\n        return False, None\n"))
S("b4-benign-lookup-helper", ["C11", "C07"], (EV, _LK_OLD,
  "        found, value = self._lookup(key)\n        if not found:\n            raise KeyError(key)\n        return value\n\n    def _lookup(self, key):\n"
  "        for d in self._dicts:\n            try:\n                return True, d[key]\n            except KeyError:\n                pass\n        return False, None\n"))
B("b4-const-offset-old-frame-length", "C16", "R16.3", (CL, "            result = np.ones(len(data_mask.index)) * self.call.args[0].value",
  "            result = np.full(self._intermediate_data.size, self.call.args[0].value, dtype=float)"))
B("b4-const-trials-wrong-argument", "C16", "R16.3", (CL, "            result = np.ones(len(data_mask.index)) * self.call.args[1].value",
  "            result = np.full(len(data_mask.index), self.call.args[0].value, dtype=float)"))

# ------------------------------------------------------------------ surface syntax: match statements and assignment expressions (sa/desugar.py)
_RB_OLD = ('        otype = expr.operator.kind\n        if otype == "TILDE":\n            return Response(expr.left.accept(self)) + expr.right.accept(self)\n'
           '        if otype == "PLUS":\n            return expr.left.accept(self) + expr.right.accept(self)\n        elif otype == "MINUS":\n'
           '            return expr.left.accept(self) - expr.right.accept(self)\n        elif otype == "STAR_STAR":\n            return expr.left.accept(self) ** expr.right.accept(self)\n'
           '        elif otype == "COLON":\n            # there is not __colon__ method\n            return expr.left.accept(self) @ expr.right.accept(self)\n'
           '        elif otype == "STAR":\n            return expr.left.accept(self) * expr.right.accept(self)\n        elif otype == "SLASH":\n'
           '            return expr.left.accept(self) / expr.right.accept(self)\n        elif otype == "PIPE":\n            return expr.left.accept(self) | expr.right.accept(self)\n'
           '        else:  # pragma: no cover\n            raise ResolverError("Couldn\'t resolve BinaryExpr with otype \'" + otype + "\'")\n')
def _rb(colon="@", star="*"):
    return ('        match expr.operator.kind:\n            case "TILDE":\n                return Response(expr.left.accept(self)) + expr.right.accept(self)\n'
            '            case "PLUS":\n                return expr.left.accept(self) + expr.right.accept(self)\n            case "MINUS":\n'
            '                return expr.left.accept(self) - expr.right.accept(self)\n            case "STAR_STAR":\n                return expr.left.accept(self) ** expr.right.accept(self)\n'
            '            case "COLON":\n                return expr.left.accept(self) ' + colon + ' expr.right.accept(self)\n'
            '            case "STAR":\n                return expr.left.accept(self) ' + star + ' expr.right.accept(self)\n            case "SLASH":\n'
            '                return expr.left.accept(self) / expr.right.accept(self)\n            case "PIPE":\n                return expr.left.accept(self) | expr.right.accept(self)\n'
            '            case otype:\n                raise ResolverError("Couldn\'t resolve BinaryExpr with otype \'" + otype + "\'")\n')
S("syntax-benign-match-resolver", ["C02", "C01"], (RS, _RB_OLD, _rb()))
B("syntax-match-resolver-colon-star-swapped", "C02", "R2.3", (RS, _RB_OLD, _rb(colon="*", star="@")))
S("syntax-benign-match-config", ["C10"], (VR, '        if config["EVAL_UNSEEN_CATEGORIES"] == "error":\n            difference = [str(x) for x in difference]\n            raise ValueError(',
  '        match config["EVAL_UNSEEN_CATEGORIES"]:\n            case "error":\n                difference = [str(x) for x in difference]\n                raise ValueError('),
  note="only the first line of the branch is re-indented: does not compile -> skipped")
VARIANTS.pop()
S("syntax-benign-suppress-lookup", ["C11", "C07"], (EV, "            try:\n                return d[key]\n            except KeyError:\n                pass\n",
  "            with suppress(KeyError):\n                return d[key]\n"), (EV, "import inspect", "import inspect\nfrom contextlib import suppress"))
S("syntax-benign-map-attrgetter-varnames", ["C09", "C08"], (TT,
  "        var_names = set().union(*[component.var_names for component in self.components])",
  "        var_names = set().union(*map(attrgetter(\"var_names\"), self.components))"),
  (TT, "from copy import deepcopy", "from copy import deepcopy\nfrom operator import attrgetter"))


# ------------------------------------------------------------------ rules added in rounds 6 and 7 (DESIGN 7.16, 7.19)
B("r7-tokens-dropped-before-tilde-count", "C01", "R1.9",
  (SC, "        self.tokens.append(Token(\"EOF\", \"\"))\n", "        self.tokens.append(Token(\"EOF\", \"\"))\n        if is_tilde(self.tokens[0]):\n            self.tokens = self.tokens[1:]\n"))
B("r7-formula-stripped-before-scanning", ["C01", "C12"], None,
  (MD, "    description = Resolver(", "    formula = formula.strip()\n    description = Resolver("))
B("r7-grouping-result-touched", ["C01", "C02"], None,
  (RS, "        return expr.expression.accept(self)\n\n    def visitBinaryExpr", "        result = expr.expression.accept(self)\n        result.grouped = True\n        return result\n\n    def visitBinaryExpr"))
B("r7-pow-exponent-ignored", ["C01", "C02"], None,
  (TT, "            value = other.components[0].name\n            if isinstance(value, int) and value >= 1:\n                comb = [", "            value = other.components[0].name\n            comb = []\n            if isinstance(value, int) and value >= 1:\n                comb = ["))
B("r7-treatment-falsy-reference", ["C04", "C16"], None,
  (CT, "        if self.reference is None:\n            reference = 0", "        if not self.reference:\n            reference = 0"))
B("r7-full-coding-reorders-levels", ["C04", "C15"], None,
  (CT, "    def code_with_intercept(self, levels):\n        contrast = np.eye(len(levels), dtype=int)", "    def code_with_intercept(self, levels):\n        levels = sorted(levels)\n        contrast = np.eye(len(levels), dtype=int)"))
B("r7-levels-setter-relaxed", "C04", "R4.2",
  (CT, "        if value is not None and set(value) != set(self.data):  # pragma: no cover", "        if value is not None and set(value).isdisjoint(self.data):  # pragma: no cover"))
B("r7-interaction-squeezed", ["C06", "C17"], None,
  (UT, "    return np.column_stack(l)", "    return np.squeeze(np.column_stack(l))"))
B("r7-namespaces-appended-in-place", "C07", "R7.2",
  (EV, "        return self.__class__(self._namespaces + [outer_namespace])", "        self._namespaces.append(outer_namespace)\n        return self.__class__(self._namespaces)"))
B("r7-callee-counted-as-variable", "C09", "R9.4",
  (CU, "        return args + kwargs", "        return [expr.callee] + args + kwargs"))
B("r7-resolver-falls-back-to-sys-modules", "C11", "R11.4",
  (CR, "def get_function_from_module(name, env):\n", "def get_function_from_module(name, env):\n    import sys\n    try:\n        return env.namespace[name]\n    except KeyError:\n        if name in sys.modules:\n            return sys.modules[name]\n"))
B("r7-literal-whole-float-to-int", "C12", "R12.9",
  ("formulae/expr.py", "class Literal:\n    def __init__(self, value, lexeme=None):\n        self.value = value", "class Literal:\n    def __init__(self, value, lexeme=None):\n        if isinstance(value, float) and value.is_integer():\n            value = int(value)\n        self.value = value"))
B("r7-offset-shortcut-return", "C16", "R16.3",
  (CL, "    def eval_new_data_offset(self, data_mask):\n", "    def eval_new_data_offset(self, data_mask):\n        if self.value is not None and len(self.value) == len(data_mask.index):\n            return self.value\n"))
B("r7-as-dataframe-casts", "C17", "R17.2",
  (MX, "        data = pd.DataFrame(self.design_matrix, columns=list(flatten_list(colnames)))\n        return data", "        data = pd.DataFrame(self.design_matrix, columns=list(flatten_list(colnames)))\n        return data.astype(int)"))
S("r7-benign-terms-view-alias", ["C17", "C07", "C10"],
  (MX, "        new_instance = self.__class__(self.terms.values())\n        new_instance.data = data\n        new_instance.env = self.env\n\n        start = 0\n        matrices_to_stack = []\n        factors_with_new_levels = []\n\n        for term in self.terms.values():\n            term_matrix = term.eval_new_data(data)",
   "        terms = self.terms.values()\n        old_slices = self.slices\n        new_instance = self.__class__(terms)\n        new_instance.data = data\n        new_instance.env = self.env\n\n        start = 0\n        matrices_to_stack = []\n        factors_with_new_levels = []\n\n        for term in terms:\n            term_matrix = term.eval_new_data(data)"),
  (MX, "            slice_original = self.slices[term.name]\n", "            slice_original = old_slices[term.name]\n"))

"""A small symbolic evaluator for straight-line code with if/else (no loops inside): used by rules that have to
recognise an *arithmetic relation* between values (offsets, widths, slices) independently of how the code names its
temporaries or orders its independent statements.

Values
  Lin(const, {atom: coeff})      integer-linear combination of opaque atoms (atoms are rendered source text)
  Ite(cond, a, b)                value depending on an opaque condition (text); additions distribute into the arms
  Slice(lo, hi)                  slice(lo, hi)
  Opaque(text)                   anything else, rendered with the local names replaced by what they stand for

`render(value)` gives a canonical text; two expressions that compute the same linear form render identically.
The evaluator never executes repository code: it rewrites syntax trees.
"""
import ast

from .core import AnalysisError, unparse, dotted


class Lin:
    __slots__ = ("c", "t")

    def __init__(self, c=0, t=None):
        self.c = c
        self.t = {k: v for k, v in (t or {}).items() if v != 0}

    def __eq__(self, o):
        return isinstance(o, Lin) and self.c == o.c and self.t == o.t

    def __hash__(self):
        return hash((self.c, tuple(sorted(self.t.items()))))


class Ite:
    __slots__ = ("cond", "a", "b")

    def __init__(self, cond, a, b):
        self.cond, self.a, self.b = cond, a, b

    def __eq__(self, o):
        return isinstance(o, Ite) and (self.cond, self.a, self.b) == (o.cond, o.a, o.b)

    def __hash__(self):
        return hash((self.cond, self.a, self.b))


class Slice:
    __slots__ = ("lo", "hi")

    def __init__(self, lo, hi):
        self.lo, self.hi = lo, hi

    def __eq__(self, o):
        return isinstance(o, Slice) and (self.lo, self.hi) == (o.lo, o.hi)

    def __hash__(self):
        return hash((self.lo, self.hi))


class Opaque:
    __slots__ = ("text",)

    def __init__(self, text):
        self.text = text

    def __eq__(self, o):
        return isinstance(o, Opaque) and self.text == o.text

    def __hash__(self):
        return hash(self.text)


def atom(text):
    return Lin(0, {text: 1})


def render(v):
    if isinstance(v, Lin):
        parts = [f"{'' if k == 1 else str(k) + '*'}{a}" for a, k in sorted(v.t.items())]
        if v.c or not parts:
            parts.append(str(v.c))
        return " + ".join(parts)
    if isinstance(v, Ite):
        return f"({render(v.a)} if {v.cond} else {render(v.b)})"
    if isinstance(v, Slice):
        return f"slice({render(v.lo)}, {render(v.hi)})"
    return v.text


def add(x, y, sign=1):
    """x + sign*y, distributing over Ite; None when not additive"""
    if isinstance(x, Ite):
        a, b = add(x.a, y, sign), add(x.b, y, sign)
        return None if a is None or b is None else mk_ite(x.cond, a, b)
    if isinstance(y, Ite):
        a, b = add(x, y.a, sign), add(x, y.b, sign)
        return None if a is None or b is None else mk_ite(y.cond, a, b)
    x, y = as_lin(x), as_lin(y)
    if x is None or y is None:
        return None
    t = dict(x.t)
    for k, v in y.t.items():
        t[k] = t.get(k, 0) + sign * v
    return Lin(x.c + sign * y.c, t)


def as_lin(v):
    if isinstance(v, Lin):
        return v
    if isinstance(v, Opaque):
        return atom(v.text)
    return None


def mk_ite(cond, a, b):
    if a == b:
        return a
    return Ite(cond, a, b)


class _MaskNF(ast.NodeTransformer):
    """normal form of row masks after substitution: X.notna().all(axis=1) == ~X.isna().any(axis=1) (De Morgan), ~~M == M"""

    def visit_Call(self, n):
        self.generic_visit(n)
        if isinstance(n.func, ast.Attribute) and n.func.attr == "all" and isinstance(n.func.value, ast.Call) \
                and isinstance(n.func.value.func, ast.Attribute) and n.func.value.func.attr in ("notna", "notnull") and not n.func.value.args \
                and ((len(n.args) == 1 and unparse(n.args[0]) == "1" and not n.keywords)
                     or (not n.args and [(k.arg, unparse(k.value)) for k in n.keywords] in ([("axis", "1")], [("axis", "'columns'")]))):
            frame = n.func.value.func.value
            isna = ast.Call(func=ast.Attribute(value=frame, attr="isna", ctx=ast.Load()), args=[], keywords=[])
            anyc = ast.Call(func=ast.Attribute(value=isna, attr="any", ctx=ast.Load()), args=[], keywords=[ast.keyword(arg="axis", value=ast.Constant(value=1))])
            return ast.copy_location(ast.UnaryOp(op=ast.Invert(), operand=anyc), n)
        return n

    def visit_UnaryOp(self, n):
        self.generic_visit(n)
        if isinstance(n.op, ast.Invert) and isinstance(n.operand, ast.UnaryOp) and isinstance(n.operand.op, ast.Invert):
            return n.operand.operand
        return n


class SymExec:
    """env: name -> value.  effects: list of (kind, payload, path condition tuple)"""

    def __init__(self, env=None, decide=None, watch=(), inline_displays=False):
        self.inline_displays = inline_displays  # substitute list/dict displays and comprehensions bound to a local as well
        self.env = dict(env or {})
        self.effects = []
        self.path = ()
        self.decide = decide      # optional: test AST -> True / False / None (prunes branches, e.g. for a fixed option value)
        self.watch = set(watch)   # call names whose evaluation is recorded as ("watch", (name, [arg values], node), path)
        self.terminated = False   # a return / raise was executed on every path that reaches here
        self._watched = set()

    def _child(self):
        c = SymExec(self.env, self.decide, self.watch, self.inline_displays)
        return c

    # ---- expressions -------------------------------------------------------------------
    def text(self, node):
        """source text of node with local names replaced by the rendering of their value"""
        env = self.env
        inline_displays = self.inline_displays

        class T(ast.NodeTransformer):
            def visit_Name(s, n):
                if isinstance(n.ctx, ast.Load) and n.id in env:
                    r = render(env[n.id])
                    try:
                        e = ast.parse(r, mode="eval").body
                    except SyntaxError:
                        return n
                    # a container created here keeps its name: it is an object that is filled later, not a value
                    if not inline_displays and (isinstance(e, (ast.List, ast.Dict, ast.Set, ast.ListComp, ast.DictComp, ast.SetComp)) or
                                                (isinstance(e, ast.Call) and dotted(e.func) in ("list", "dict", "set"))):
                        return n
                    return e
                return n

            def visit_ListComp(s, n):
                # free names of a comprehension are substituted, its own loop variables are not
                own = {x.id for g in n.generators for x in ast.walk(g.target) if isinstance(x, ast.Name)}
                hidden = {k: env.pop(k) for k in own if k in env}
                try:
                    s.generic_visit(n)
                finally:
                    env.update(hidden)
                return n

            visit_SetComp = visit_DictComp = visit_GeneratorExp = visit_ListComp

            def visit_Lambda(s, n):
                return n

        import copy

        return unparse(_MaskNF().visit(T().visit(copy.deepcopy(node))))

    def val(self, n):
        if isinstance(n, ast.Constant) and isinstance(n.value, int) and not isinstance(n.value, bool):
            return Lin(n.value)
        if isinstance(n, ast.Constant) and isinstance(n.value, bool):
            return Opaque(str(n.value))
        if isinstance(n, ast.Name):
            if n.id in self.env:
                return self.env[n.id]
            return Opaque(n.id)
        if isinstance(n, ast.UnaryOp) and isinstance(n.op, ast.USub):
            v = self.val(n.operand)
            lv = as_lin(v) if not isinstance(v, Ite) else None
            if lv is not None:
                return Lin(-lv.c, {t: -c for t, c in lv.t.items()})
        if isinstance(n, ast.Attribute) and n.attr in ("start", "stop"):
            base = self.val(n.value)
            if isinstance(base, Slice):
                return base.lo if n.attr == "start" else base.hi
        if isinstance(n, ast.BinOp) and isinstance(n.op, ast.Mult):
            a, b = self.val(n.left), self.val(n.right)
            for k_, v_ in ((a, b), (b, a)):
                if isinstance(k_, Lin) and not k_.t:
                    lv = as_lin(v_) if not isinstance(v_, Ite) else None
                    if lv is not None:
                        return Lin(k_.c * lv.c, {t: k_.c * c for t, c in lv.t.items()})
        if isinstance(n, ast.BinOp) and isinstance(n.op, (ast.Add, ast.Sub)):
            r = add(self.val(n.left), self.val(n.right), 1 if isinstance(n.op, ast.Add) else -1)
            if r is not None:
                return r
        if isinstance(n, ast.IfExp):
            return mk_ite(self.cond_text(n.test), self.val(n.body), self.val(n.orelse))
        if isinstance(n, ast.Call) and dotted(n.func) == "slice" and len(n.args) == 2 and not n.keywords:
            return Slice(self.val(n.args[0]), self.val(n.args[1]))
        if isinstance(n, ast.Call) and isinstance(n.func, ast.Name) and isinstance(self.env.get(n.func.id), Ite) and not n.keywords:
            # a local that holds one of several functions: (f if c else g)(x) == f(x) if c else g(x)
            args = ", ".join(self.text(a) for a in n.args)

            def apply(v):
                if isinstance(v, Ite):
                    return mk_ite(v.cond, apply(v.a), apply(v.b))
                return Opaque(f"{render(v)}({args})")

            return apply(self.env[n.func.id])
        if self.watch:
            for sub in ast.walk(n):
                if isinstance(sub, ast.Call) and dotted(sub.func) in self.watch and id(sub) not in self._watched:
                    self._watched.add(id(sub))
                    self.effects.append(("watch", (dotted(sub.func), [self.val(a) for a in sub.args], sub), self.path))
        return Opaque(self.text(n))

    def _flag_loop(self, s):
        """for u in C: if cond(u): flag = CONST   (nothing else in the body)  ->  flag = CONST if any(cond(u) for u in C) else flag"""
        if s.orelse or not isinstance(s.target, ast.Name):
            return False
        updates = []
        for st in s.body:
            # a single flag may stop the search at the first hit (`flag = CONST; break`): the flag can only change once anyway
            inner = st.body if isinstance(st, ast.If) else []
            if len(inner) == 2 and isinstance(inner[1], ast.Break) and len(s.body) == 1:
                inner = inner[:1]
            if not (isinstance(st, ast.If) and not st.orelse and len(inner) == 1 and isinstance(inner[0], ast.Assign)
                    and len(inner[0].targets) == 1 and isinstance(inner[0].targets[0], ast.Name)
                    and isinstance(inner[0].value, ast.Constant) and isinstance(inner[0].value.value, bool)):
                return False
            updates.append((st.test, inner[0].targets[0].id, inner[0].value.value))
        if not updates or len({f for _, f, _ in updates}) != len(updates):
            return False
        u = s.target.id
        saved = self.env.pop(u, None)
        for test, flag, const in updates:
            cond = f"any({self.text(test)} for {u} in {self.text(s.iter)})"
            prev = self.env.get(flag, Opaque(f"<unbound {flag}>"))
            self.env[flag] = mk_ite(cond, Opaque(str(const)), prev)
        if saved is not None:
            self.env[u] = saved
        return True

    def cond_text(self, test):
        """text of a branch condition; a flag that was set by `flag = True if c else False` / under `if c:` is c itself"""
        v = self.val(test)
        if isinstance(v, Ite) and v.a == Opaque("True") and v.b == Opaque("False"):
            return v.cond
        if isinstance(v, Ite) and v.a == Opaque("False") and v.b == Opaque("True"):
            return f"not ({v.cond})"
        return self.text(test)

    # ---- statements --------------------------------------------------------------------
    def run(self, stmts):
        for s in stmts:
            if self.terminated:
                break
            self.step(s)
        return self

    def step(self, s):
        if isinstance(s, ast.Assign) and len(s.targets) == 1 and isinstance(s.targets[0], ast.Name):
            self.env[s.targets[0].id] = self.val(s.value)
        elif isinstance(s, ast.Assign) and len(s.targets) == 1 and isinstance(s.targets[0], (ast.Tuple, ast.List)) \
                and isinstance(s.value, (ast.Tuple, ast.List)) and len(s.value.elts) == len(s.targets[0].elts) \
                and all(isinstance(t, ast.Name) for t in s.targets[0].elts):
            vals = [self.val(v) for v in s.value.elts]
            for t, v in zip(s.targets[0].elts, vals):
                self.env[t.id] = v
        elif isinstance(s, ast.Assign) and len(s.targets) == 1 and isinstance(s.targets[0], (ast.Tuple, ast.List)) \
                and all(isinstance(t, ast.Name) for t in s.targets[0].elts):
            # a, b = f(...): the components of one opaque value
            whole = self.text(s.value)
            self.val(s.value)
            for i_, t in enumerate(s.targets[0].elts):
                self.env[t.id] = Opaque(f"({whole})[{i_}]")
        elif isinstance(s, ast.Assign) and len(s.targets) == 1 and isinstance(s.targets[0], (ast.Subscript, ast.Attribute)):
            t = s.targets[0]
            if isinstance(t, ast.Subscript):
                self.effects.append(("store", (unparse(t.value), self.text(t.slice), self.val(s.value), s), self.path))
            else:
                self.effects.append(("setattr", (unparse(t), self.val(s.value), s), self.path))
        elif isinstance(s, ast.AugAssign) and isinstance(s.target, ast.Name) and isinstance(s.op, (ast.Add, ast.Sub)):
            cur = self.env.get(s.target.id, Opaque(s.target.id))
            r = add(cur, self.val(s.value), 1 if isinstance(s.op, ast.Add) else -1)
            self.env[s.target.id] = r if r is not None else Opaque(f"{render(cur)} {'+' if isinstance(s.op, ast.Add) else '-'} {self.text(s.value)}")
        elif isinstance(s, ast.Expr) and isinstance(s.value, ast.Call):
            c = s.value
            self.effects.append(("call", (unparse(c.func), [self.val(a) for a in c.args], s), self.path))
        elif isinstance(s, ast.Expr) and not isinstance(s.value, (ast.Call, ast.Await, ast.Yield, ast.YieldFrom)):
            # an expression statement whose value is dropped: evaluated for watched calls only
            self.val(s.value)
        elif isinstance(s, ast.Pass):
            pass
        elif isinstance(s, ast.For) and self._flag_loop(s):
            pass
        elif isinstance(s, ast.For):
            # a loop that is not a flag loop is not followed: what it binds becomes unknown, the loop is recorded
            for n in ast.walk(s):
                if isinstance(n, ast.Name) and isinstance(n.ctx, ast.Store):
                    self.env[n.id] = Opaque(f"<{n.id} after loop>")
            self.effects.append(("loop", (self.text(s.iter), s), self.path))
        elif isinstance(s, ast.While):
            # an inner loop is not followed: what it may re-bind becomes unknown, the loop itself is recorded
            for n in ast.walk(s):
                if isinstance(n, ast.Name) and isinstance(n.ctx, ast.Store):
                    self.env[n.id] = Opaque(f"<{n.id} after loop>")
            self.effects.append(("loop", (self.text(s.test), s), self.path))
        elif isinstance(s, ast.If):
            decided = self.decide(s.test, self) if self.decide is not None else None
            if decided is not None:
                self.run(s.body if decided else s.orelse)
                return
            test = s.test
            if self.decide is not None and isinstance(test, ast.BoolOp):
                # partial evaluation of a conjunction / disjunction: operands the option decides are dropped (or settle the test),
                # provided the undecided ones are plain names (flags; no side effects are skipped by re-ordering)
                is_and = isinstance(test.op, ast.And)
                rest, settled = [], None
                for v in test.values:
                    d = self.decide(v, self)
                    if d is None:
                        rest.append(v)
                    elif d != is_and:
                        settled = d
                if settled is not None and all(isinstance(v, (ast.Name, ast.Compare, ast.Attribute)) for v in rest):
                    self.run(s.body if settled else s.orelse)
                    return
                if settled is None and rest and len(rest) < len(test.values):
                    test = rest[0] if len(rest) == 1 else ast.BoolOp(op=test.op, values=rest)
            cond = self.cond_text(test)
            # a condition this path has already decided is not split again (if c: ... elif c and d: ... elif c: ...)
            known = dict(self.path)
            if cond in known and isinstance(known[cond], bool):
                self.run(s.body if known[cond] else s.orelse)
                return
            a = self._child()
            a.path = self.path + ((cond, True),)
            a.run(s.body)
            b = self._child()
            b.path = self.path + ((cond, False),)
            b.run(s.orelse)
            self.effects.extend(a.effects)
            self.effects.extend(b.effects)
            if a.terminated and b.terminated:
                self.terminated = True
            elif a.terminated:
                self.env = b.env
                self.path = b.path
            elif b.terminated:
                self.env = a.env
                self.path = a.path
            else:
                for k in set(a.env) | set(b.env):
                    va = a.env.get(k, Opaque(f"<unbound {k}>"))
                    vb = b.env.get(k, Opaque(f"<unbound {k}>"))
                    self.env[k] = mk_ite(cond, va, vb)
        elif isinstance(s, (ast.Raise,)):
            self.effects.append(("raise", (s,), self.path))
            self.terminated = True
        elif isinstance(s, ast.Return):
            self.effects.append(("return", (self.val(s.value) if s.value is not None else Opaque("None"), s), self.path))
            self.terminated = True
        elif isinstance(s, (ast.Break, ast.Continue)):
            # recorded, not followed: the caller decides what a jump means for its rule
            self.effects.append(("jump", (s,), self.path))
        else:
            raise AnalysisError(f"symbolic evaluator: unmodelled statement `{unparse(s)[:80]}`")


def width_of(v, arr_text):
    """v is `arr.shape[1] if arr.ndim == 2 else 1` in one of its spellings"""
    if not isinstance(v, Ite):
        return False
    two = {f"{arr_text}.ndim == 2", f"2 == {arr_text}.ndim", f"{arr_text}.ndim > 1", f"{arr_text}.ndim >= 2", f"{arr_text}.ndim != 1"}
    one = {f"{arr_text}.ndim == 1", f"1 == {arr_text}.ndim", f"{arr_text}.ndim < 2", f"{arr_text}.ndim != 2", f"{arr_text}.ndim <= 1"}
    wide, flat = atom(f"{arr_text}.shape[1]"), Lin(1)
    if v.cond in two:
        return v.a == wide and v.b == flat
    if v.cond in one:
        return v.a == flat and v.b == wide
    return False


# ---- boolean structure over opaque atoms --------------------------------------------------------
def _canon_atom(e):
    """canonical text of a boolean atom: any([...]) == any(...), comprehension variables renamed, `and` operands sorted"""
    import copy

    e = copy.deepcopy(e)
    if isinstance(e, ast.Call) and dotted(e.func) in ("any", "all") and len(e.args) == 1 and isinstance(e.args[0], (ast.ListComp, ast.GeneratorExp)):
        c = e.args[0]
        if len(c.generators) == 1 and isinstance(c.generators[0].target, ast.Name) and not c.generators[0].ifs:
            v = c.generators[0].target.id
            for n in ast.walk(c):
                if isinstance(n, ast.Name) and n.id == v:
                    n.id = "_u"
            elt = c.elt
            parts = sorted(unparse(x) for x in (elt.values if isinstance(elt, ast.BoolOp) and isinstance(elt.op, ast.And) else [elt]))
            return f"{dotted(e.func)}({' and '.join(parts)} for _u in {unparse(c.generators[0].iter)})"
    return unparse(e)


def bool_table(value):
    """(atoms, table): truth table of a symbolic boolean value over its opaque atoms.  table maps a tuple of atom
    truth values (in the order of `atoms`) to True/False.  Raises AnalysisError when the structure is not boolean."""
    atoms = []

    def parse(v):
        if isinstance(v, Ite):
            return ("ite", parse_text(v.cond), parse(v.a), parse(v.b))
        if isinstance(v, Opaque):
            return parse_text(v.text)
        raise AnalysisError(f"not a boolean value: {render(v)}")

    def parse_text(t):
        try:
            e = ast.parse(t, mode="eval").body
        except SyntaxError:
            raise AnalysisError(f"cannot parse condition `{t}`")
        return parse_ast(e)

    def parse_ast(e):
        if isinstance(e, ast.Constant) and isinstance(e.value, bool):
            return ("const", e.value)
        if isinstance(e, ast.UnaryOp) and isinstance(e.op, ast.Not):
            return ("not", parse_ast(e.operand))
        if isinstance(e, ast.BoolOp):
            return ("and" if isinstance(e.op, ast.And) else "or", [parse_ast(x) for x in e.values])
        if isinstance(e, ast.IfExp):
            return ("ite", parse_ast(e.test), parse_ast(e.body), parse_ast(e.orelse))
        a = _canon_atom(e)
        if a not in atoms:
            atoms.append(a)
        return ("atom", a)

    tree = parse(value)

    def ev(t, env):
        k = t[0]
        if k == "const":
            return t[1]
        if k == "atom":
            return env[t[1]]
        if k == "not":
            return not ev(t[1], env)
        if k == "and":
            return all(ev(x, env) for x in t[1])
        if k == "or":
            return any(ev(x, env) for x in t[1])
        if k == "ite":
            return ev(t[2], env) if ev(t[1], env) else ev(t[3], env)
        raise AnalysisError("bad boolean tree")

    import itertools

    atoms_sorted = sorted(atoms)
    table = {}
    for vals in itertools.product([False, True], repeat=len(atoms_sorted)):
        table[vals] = ev(tree, dict(zip(atoms_sorted, vals)))
    return atoms_sorted, table

"""Intraprocedural taint (flow-insensitive def-use closure), the aggregation catalogue,
order kinds and freshness of arrays.  Library semantics are a hand-written, trusted catalogue.
"""
import ast

from .core import dotted, unparse, walk_local, is_self_attr

# ---- aggregation catalogue: operations that reduce ACROSS ROWS -------------------------------
AGG_FUNCS = {
    "np.mean", "np.std", "np.var", "np.min", "np.max", "np.amin", "np.amax", "np.sum", "np.percentile", "np.quantile",
    "np.median", "np.unique", "np.sort", "np.argsort", "np.any", "np.all", "np.ptp", "np.nanmean", "np.nanstd", "np.nanmin",
    "np.nanmax", "np.nansum", "np.average", "np.cumsum", "np.cumprod", "np.diff", "np.argmax", "np.argmin", "np.histogram",
    "np.bincount", "np.count_nonzero", "np.linalg.norm", "np.prod",
    "sorted", "set", "frozenset", "sum", "min", "max", "any", "all",
    "pd.unique", "pd.factorize", "pd.cut", "pd.qcut", "pd.get_dummies", "dict.fromkeys", "collections.Counter", "Counter",
}
AGG_METHODS = {
    "unique", "min", "max", "mean", "std", "var", "sum", "any", "all", "nunique", "value_counts", "mode", "median", "quantile",
    "sort_values", "argsort", "cumsum", "cumprod", "diff", "shift", "rank", "idxmax", "idxmin", "argmax", "argmin", "describe",
    "factorize", "drop_duplicates", "prod", "ptp", "head", "tail", "first", "last", "sort", "searchsorted", "cummax", "cummin",
    "count", "nlargest", "nsmallest", "rolling", "expanding", "ewm", "pct_change", "interpolate", "ffill", "bfill",
}
UNIVERSAL = {"all", "np.all"}  # subset-closed validation when the result only feeds a raise
SIZE_ONLY = {"len", "shape", "size", "ndim"}
# order-dependent / positional operations (row order matters)
POSITIONAL_METHODS = {"head", "tail", "first", "last", "iloc", "iat", "cumsum", "cumprod", "diff", "shift", "argsort", "rank",
                      "cummax", "cummin", "rolling", "expanding", "ewm", "pct_change", "interpolate", "ffill", "bfill", "idxmax", "idxmin",
                      "argmax", "argmin", "searchsorted"}
CANONICAL_ORDER_FUNCS = {"sorted", "np.unique", "np.sort"}
FIRST_SEEN_FUNCS = {"pd.unique", "pd.factorize", "set", "frozenset", "dict.fromkeys", "list"}
FIRST_SEEN_METHODS = {"unique", "factorize", "drop_duplicates", "value_counts", "mode", "keys"}


def _names_loaded(node):
    out = set()
    for n in ast.walk(node):
        if isinstance(n, ast.Name) and isinstance(n.ctx, ast.Load):
            out.add(n.id)
        elif isinstance(n, ast.Attribute) and isinstance(n.value, ast.Name) and n.value.id == "self":
            out.add("self." + n.attr)
    return out


def function_nodes(fn):
    """the function node and its nested function nodes (closures share the free variables)"""
    return [fn.node] + [g.node for g in _all_nested(fn)]


def _all_nested(fn):
    out = []
    for g in fn.nested.values():
        out.append(g)
        out.extend(_all_nested(g))
    return out


def taint_closure(fn, sources, tainted_fields=(), call_taints=None):
    """Names (locals, and 'self.attr' pseudo-names) whose value may depend on `sources`.
    call_taints(callnode) -> bool lets the caller declare results of specific calls tainted."""
    tainted = set(sources) | {"self." + f for f in tainted_fields}
    nodes = function_nodes(fn)
    changed = True

    def expr_tainted(e):
        if e is None:
            return False
        if _names_loaded(e) & tainted:
            return True
        if call_taints is not None:
            for c in ast.walk(e):
                if isinstance(c, ast.Call) and call_taints(c):
                    return True
        return False

    while changed:
        changed = False
        for root in nodes:
            for n in ast.walk(root):
                tgts, val = [], None
                if isinstance(n, ast.Assign):
                    tgts, val = n.targets, n.value
                elif isinstance(n, ast.AugAssign):
                    tgts, val = [n.target], n.value
                elif isinstance(n, ast.AnnAssign) and n.value is not None:
                    tgts, val = [n.target], n.value
                elif isinstance(n, (ast.For, ast.comprehension)):
                    tgts, val = [n.target], n.iter
                elif isinstance(n, ast.NamedExpr):
                    tgts, val = [n.target], n.value
                elif isinstance(n, ast.With):
                    for i in n.items:
                        if i.optional_vars is not None and expr_tainted(i.context_expr):
                            for t in ast.walk(i.optional_vars):
                                if isinstance(t, ast.Name) and t.id not in tainted:
                                    tainted.add(t.id)
                                    changed = True
                    continue
                else:
                    continue
                if not expr_tainted(val):
                    continue
                for t in tgts:
                    for x in ast.walk(t):
                        key = None
                        if isinstance(x, ast.Name) and isinstance(x.ctx, (ast.Store,)):
                            key = x.id
                        elif isinstance(x, ast.Attribute) and isinstance(x.ctx, ast.Store) and isinstance(x.value, ast.Name) and x.value.id == "self":
                            key = "self." + x.attr
                        elif isinstance(x, ast.Subscript) and isinstance(x.ctx, ast.Store):
                            b = x.value
                            if isinstance(b, ast.Name):
                                key = b.id
                            elif isinstance(b, ast.Attribute) and isinstance(b.value, ast.Name) and b.value.id == "self":
                                key = "self." + b.attr
                        if key and key not in tainted:
                            tainted.add(key)
                            changed = True
    return tainted


class Agg:
    __slots__ = ("node", "op", "arg", "universal", "fn_node")

    def __init__(self, node, op, arg, universal, fn_node):
        self.node, self.op, self.arg, self.universal, self.fn_node = node, op, arg, universal, fn_node


def _axis1(call):
    for k in call.keywords:
        if k.arg == "axis" and unparse(k.value) in ("1", "-1", "'columns'"):
            return True
    if len(call.args) >= 2 and dotted(call.func) and dotted(call.func).startswith("np.") and unparse(call.args[1]) in ("1", "-1"):
        return True
    if isinstance(call.func, ast.Attribute) and call.args and unparse(call.args[0]) in ("1",) and call.func.attr in ("any", "all", "sum"):
        return True
    return False


def aggregates(fn, tainted):
    """Aggregate operations applied to tainted values in fn (including nested closures)."""
    out = []

    def is_t(e):
        return bool(_names_loaded(e) & tainted)

    for root in function_nodes(fn):
        for c in ast.walk(root):
            if not isinstance(c, ast.Call):
                continue
            d = dotted(c.func)
            if d in AGG_FUNCS and c.args and any(is_t(a) for a in c.args[:1]):
                if _axis1(c):
                    continue
                def elt_tainted(comp):
                    """is the collected element data?  the loop variables are judged by what they range over (per component of a zip)"""
                    local = {}
                    for g in comp.generators:
                        it = g.iter
                        if isinstance(g.target, ast.Tuple) and isinstance(it, ast.Call) and dotted(it.func) in ("zip", "enumerate") and \
                                (dotted(it.func) == "enumerate" or len(it.args) == len(g.target.elts)):
                            srcs = ([ast.Constant(value=0)] + list(it.args[:1])) if dotted(it.func) == "enumerate" else list(it.args)
                            for t_, a_ in zip(g.target.elts, srcs):
                                for n_ in ast.walk(t_):
                                    if isinstance(n_, ast.Name):
                                        local[n_.id] = is_t(a_)
                        else:
                            for n_ in ast.walk(g.target):
                                if isinstance(n_, ast.Name):
                                    local[n_.id] = is_t(it)
                    names = _names_loaded(comp.elt)
                    return any(local.get(n_, n_ in tainted) for n_ in names)

                if d in ("set", "frozenset", "sorted", "dict.fromkeys") and isinstance(c.args[0], (ast.GeneratorExp, ast.ListComp, ast.SetComp)) \
                        and not elt_tainted(c.args[0]):
                    # a collection of values that are not data (names of terms / factors); only WHICH of them are collected depends
                    # on the data - the same dependence an `if ...: L.append(name)` in a loop has
                    continue
                out.append(Agg(c, d, unparse(c.args[0]), d in UNIVERSAL, root))
            elif isinstance(c.func, ast.Attribute) and c.func.attr in AGG_METHODS and is_t(c.func.value):
                if _axis1(c):
                    continue
                # `x.sum()` on a tainted receiver; skip list.count/str.count style on constants
                out.append(Agg(c, "." + c.func.attr, unparse(c.func.value), c.func.attr in UNIVERSAL, root))
            elif d == "pd.Categorical" and c.args and is_t(c.args[0]) and not any(k.arg == "categories" for k in c.keywords):
                out.append(Agg(c, "pd.Categorical(without categories=)", unparse(c.args[0]), False, root))
    return out


def enclosing_tests(root, node):
    """list of (if/while node, branch) enclosing `node` inside `root` (branch: 'body' | 'orelse')."""
    path = []

    def rec(n, acc):
        if n is node:
            path.extend(acc)
            return True
        for fld, val in ast.iter_fields(n):
            if isinstance(val, list):
                for x in val:
                    if isinstance(x, ast.AST):
                        nacc = acc
                        if isinstance(n, (ast.If, ast.While)) and fld in ("body", "orelse"):
                            nacc = acc + [(n, fld)]
                        if rec(x, nacc):
                            return True
            elif isinstance(val, ast.AST):
                if rec(val, acc):
                    return True
        return False

    rec(root, [])
    return path


# --------------------------------------------------------------------------------------
# reaching definitions on the statement CFG, and freshness of arrays/containers
# --------------------------------------------------------------------------------------
def _stmt_defs(node):
    """names (re)bound by one CFG statement node (not by subscript/attribute stores)"""
    out = set()
    if isinstance(node, ast.Assign):
        for t in node.targets:
            for x in ast.walk(t):
                if isinstance(x, ast.Name) and isinstance(x.ctx, ast.Store):
                    out.add(x.id)
    elif isinstance(node, (ast.AugAssign, ast.AnnAssign)):
        if isinstance(node.target, ast.Name):
            out.add(node.target.id)
    elif isinstance(node, ast.For):
        for x in ast.walk(node.target):
            if isinstance(x, ast.Name):
                out.add(x.id)
    elif isinstance(node, ast.With):
        for i in node.items:
            if i.optional_vars is not None:
                for x in ast.walk(i.optional_vars):
                    if isinstance(x, ast.Name):
                        out.add(x.id)
    elif isinstance(node, ast.ExceptHandler) and node.name:
        out.add(node.name)
    return out


def reaching_defs(fn):
    """{cfg node id: {var: frozenset(def cfg node ids | 'param')}} at the ENTRY of each node"""
    from .cfg import cfg_of, ENTRY

    c = cfg_of(fn)
    params = set(_all_params(fn))
    gen = {}
    for n in c.nodes():
        a = c.ast.get(n)
        gen[n] = _stmt_defs(a) if a is not None else set()
    IN = {n: {} for n in c.nodes()}
    OUT = {n: {} for n in c.nodes()}
    OUT[ENTRY] = {p: frozenset(["param"]) for p in params}
    changed = True
    while changed:
        changed = False
        for n in c.nodes():
            if n == ENTRY:
                continue
            acc = {}
            for p in c.pred[n]:
                for v, ds in OUT[p].items():
                    acc[v] = acc.get(v, frozenset()) | ds
            if acc != IN[n]:
                IN[n] = acc
            out = dict(acc)
            for v in gen[n]:
                out[v] = frozenset([n])
            if out != OUT[n]:
                OUT[n] = out
                changed = True
    return c, IN


def _all_params(fn):
    a = fn.node.args
    ps = [x.arg for x in a.posonlyargs + a.args + a.kwonlyargs]
    if a.vararg:
        ps.append(a.vararg.arg)
    if a.kwarg:
        ps.append(a.kwarg.arg)
    return ps


FRESH_CALLS = {
    "np.empty", "np.zeros", "np.ones", "np.array", "np.copy", "np.column_stack", "np.hstack", "np.vstack", "np.concatenate",
    "np.where", "np.eye", "np.linspace", "np.percentile", "np.power", "np.sqrt", "np.mod", "np.less_equal", "np.arange", "np.full",
    "np.zeros_like", "np.ones_like", "np.empty_like", "np.sort", "np.unique", "np.kron", "np.stack", "np.tile", "np.repeat",
    "linalg.khatri_rao", "scipy.linalg.khatri_rao", "deepcopy", "copy.deepcopy", "copy.copy", "list", "dict", "set", "tuple", "sorted",
    "splev", "range", "len", "int", "float", "str", "bool", "slice", "pd.DataFrame", "pd.Categorical", "pd.Series",
    "get_interaction_matrix", "reduce",
}
FRESH_METHODS = {"copy", "tolist", "astype", "to_list", "flatten", "sum", "mean", "std", "any", "all", "unique", "join", "format",
                 "intersection", "union", "difference", "split", "items", "keys", "values_list", "min", "max"}
VIEW_ATTRS = {"T", "values", "real", "flat"}
VIEW_CALLS = {"np.asarray", "np.asanyarray", "np.ravel", "np.reshape", "np.squeeze", "np.transpose", "np.atleast_1d", "np.atleast_2d"}
VIEW_METHODS = {"reshape", "ravel", "view", "squeeze", "transpose", "to_numpy", "swapaxes"}


class Freshness:
    """fresh(expr at cfg node) = the value is an object created in this function invocation"""

    def __init__(self, fn, prog=None):
        self.fn = fn
        self.cfg, self.IN = reaching_defs(fn)
        self._memo = {}

    def of_name(self, name, at_node, depth=0):
        key = (name, at_node)
        if key in self._memo:
            return self._memo[key]
        self._memo[key] = (True, "cycle")  # optimistic for loops
        defs = self.IN.get(at_node, {}).get(name)
        if not defs:
            res = (False, f"`{name}` is not a local of this function (closure variable / global)")
        else:
            res = (True, "all reaching definitions create a new object")
            for d in defs:
                if d == "param":
                    res = (False, f"`{name}` is a parameter (the caller's object)")
                    break
                node = self.cfg.ast[d]
                if isinstance(node, ast.Assign):
                    ok, why = self.of_expr(node.value, d, depth + 1)
                elif isinstance(node, ast.AugAssign):
                    ok, why = self.of_name(name, d, depth + 1)  # in-place update keeps the object
                    if not ok:
                        ok2, why2 = self.of_expr(ast.BinOp(left=node.target, op=node.op, right=node.value), d, depth + 1)
                        ok, why = False, why
                elif isinstance(node, ast.For):
                    ok, why = False, f"`{name}` is a loop element of `{unparse(node.iter)}`"
                    okc, _ = self.of_expr(node.iter, d, depth + 1)
                    if okc:
                        ok, why = True, "element of a container created here"
                else:
                    ok, why = False, f"`{name}` bound by {type(node).__name__}"
                if not ok:
                    res = (False, why)
                    break
        self._memo[key] = res
        return res

    def of_expr(self, e, at_node, depth=0):
        if depth > 12:
            return (False, "definition chain too deep")
        if isinstance(e, ast.Constant):
            return (True, "constant")
        if isinstance(e, ast.Name):
            return self.of_name(e.id, at_node, depth + 1)
        if isinstance(e, (ast.List, ast.Dict, ast.Set, ast.Tuple, ast.ListComp, ast.DictComp, ast.SetComp, ast.GeneratorExp, ast.JoinedStr)):
            return (True, "display / comprehension creates a new container")
        if isinstance(e, (ast.BinOp, ast.UnaryOp, ast.Compare, ast.BoolOp)):
            if isinstance(e, ast.BoolOp):
                for v in e.values:
                    ok, why = self.of_expr(v, at_node, depth + 1)
                    if not ok:
                        return (ok, why)
                return (True, "all alternatives fresh")
            return (True, "arithmetic / comparison creates a new object")
        if isinstance(e, ast.IfExp):
            a, wa = self.of_expr(e.body, at_node, depth + 1)
            b, wb = self.of_expr(e.orelse, at_node, depth + 1)
            return (a and b, wa if not a else wb)
        if isinstance(e, ast.Call):
            d = dotted(e.func)
            if d in FRESH_CALLS:
                return (True, f"{d}(...) returns a new object")
            if d in VIEW_CALLS and e.args:
                ok, why = self.of_expr(e.args[0], at_node, depth + 1)
                return (ok, why if not ok else f"{d} of a fresh object")
            if isinstance(e.func, ast.Attribute):
                if e.func.attr in FRESH_METHODS:
                    return (True, f".{e.func.attr}() returns a new object")
                if e.func.attr in VIEW_METHODS:
                    ok, why = self.of_expr(e.func.value, at_node, depth + 1)
                    return (ok, why if not ok else f".{e.func.attr}() of a fresh object")
            if isinstance(e.func, ast.Name) and e.func.id[:1].isupper():
                return (True, "constructor call")
            if isinstance(e.func, ast.Attribute) and e.func.attr == "__class__" or (isinstance(e.func, ast.Attribute) and unparse(e.func) == "self.__class__"):
                return (True, "constructor call")
            return (False, f"result of `{short_(e)}` may be an object that is also referenced elsewhere")
        if isinstance(e, ast.Attribute):
            if e.attr in VIEW_ATTRS:
                ok, why = self.of_expr(e.value, at_node, depth + 1)
                return (ok, why if not ok else f".{e.attr} of a fresh object")
            if e.attr == "codes":
                return self.of_expr(e.value, at_node, depth + 1)
            return (False, f"`{unparse(e)}` is an attribute of an existing object (shared state)")
        if isinstance(e, ast.Subscript):
            idx = e.slice
            basic = isinstance(idx, (ast.Slice, ast.Constant)) or (
                isinstance(idx, ast.Tuple) and all(isinstance(x, (ast.Slice, ast.Constant)) or unparse(x) in ("np.newaxis", "None", "...") for x in idx.elts)
            )
            if basic:
                ok, why = self.of_expr(e.value, at_node, depth + 1)
                return (ok, why if not ok else "basic slice (view) of a fresh object")
            # advanced indexing with an array / boolean mask / list: numpy returns a copy
            if isinstance(idx, (ast.Name, ast.Compare, ast.UnaryOp, ast.List, ast.Call, ast.Attribute)):
                if isinstance(idx, ast.Name):
                    # an integer index would give a view: require the index to be array-valued
                    defs = self.IN.get(at_node, {}).get(idx.id, ())
                    arrayish = bool(defs) and all(
                        d != "param" and isinstance(self.cfg.ast[d], ast.Assign)
                        and isinstance(self.cfg.ast[d].value, (ast.Call, ast.Attribute, ast.Compare, ast.UnaryOp, ast.BinOp))
                        for d in defs
                    )
                    if not arrayish:
                        ok, why = self.of_expr(e.value, at_node, depth + 1)
                        return (ok, why if not ok else "indexing of a fresh object")
                return (True, "advanced (array/mask) indexing returns a copy")
            ok, why = self.of_expr(e.value, at_node, depth + 1)
            return (ok, why)
        return (False, f"unmodelled expression {type(e).__name__}")


def short_(node, n=60):
    s = " ".join(unparse(node).split())
    return s if len(s) <= n else s[: n - 3] + "..."


INPLACE_METHODS = {"sort", "fill", "append", "insert", "remove", "pop", "update", "clear", "extend", "add", "discard", "setdefault",
                   "reverse", "resize", "put", "itemset", "partition", "byteswap", "setflags", "popitem", "drop_duplicates_inplace"}


LIBRARY_MODULES = {"np", "numpy", "pd", "pandas", "scipy", "linalg", "itertools", "math", "functools", "operator"}
LIBRARY_INPLACE_FUNCS = {"put", "place", "putmask", "copyto", "fill_diagonal", "put_along_axis", "shuffle"}


def inplace_sites(fn):
    """(node, target expression, kind) for every in-place mutation in fn (nested closures included)"""
    out = []
    for root in function_nodes(fn):
        for n in ast.walk(root):
            if isinstance(n, ast.Assign):
                for t in n.targets:
                    for x in ast.walk(t):
                        if isinstance(x, ast.Subscript) and isinstance(x.ctx, ast.Store):
                            out.append((n, x.value, "subscript store", root))
            elif isinstance(n, ast.AugAssign):
                if isinstance(n.target, ast.Subscript):
                    out.append((n, n.target.value, "augmented subscript store", root))
                elif isinstance(n.target, (ast.Name, ast.Attribute)):
                    out.append((n, n.target, "augmented assignment", root))
            elif isinstance(n, ast.Delete):
                for t in n.targets:
                    if isinstance(t, ast.Subscript):
                        out.append((n, t.value, "del item", root))
            elif isinstance(n, ast.Call):
                if isinstance(n.func, ast.Attribute) and isinstance(n.func.value, ast.Name) and n.func.value.id in LIBRARY_MODULES:
                    # np.sort / np.append / np.insert ... return new arrays; only a few library functions write into an argument
                    if n.func.attr in LIBRARY_INPLACE_FUNCS and n.args:
                        out.append((n, n.args[0], f"{n.func.value.id}.{n.func.attr}(target, ...)", root))
                elif isinstance(n.func, ast.Attribute) and n.func.attr in INPLACE_METHODS:
                    out.append((n, n.func.value, f".{n.func.attr}()", root))
                for k in n.keywords:
                    if k.arg == "inplace" and not (isinstance(k.value, ast.Constant) and k.value.value is False):
                        tgt = n.func.value if isinstance(n.func, ast.Attribute) else n.func
                        out.append((n, tgt, "inplace=True", root))
                    if k.arg == "out":
                        out.append((n, k.value, "out=", root))
    return out

"""Intraprocedural taint (flow-insensitive def-use closure), the aggregation catalogue,
order kinds and freshness of arrays.  Library semantics are a hand-written, trusted catalogue.
"""
import ast

from .core import dotted, unparse, walk_local, is_self_attr

# ---- aggregation catalogue: operations that reduce ACROSS ROWS -------------------------------
AGG_FUNCS = {
    "np.mean", "np.std", "np.var", "np.min", "np.max", "np.amin", "np.amax", "np.sum", "np.percentile", "np.quantile",
    "np.median", "np.unique", "np.sort", "np.argsort", "np.any", "np.all", "np.ptp", "np.nanmean", "np.nanstd", "np.nanmin",
    "np.nanmax", "np.nansum", "np.average", "np.cumsum", "np.cumprod", "np.diff", "np.argmax", "np.argmin", "np.histogram",
    "np.bincount", "np.count_nonzero", "np.linalg.norm", "np.prod",
    "sorted", "set", "frozenset", "sum", "min", "max", "any", "all",
    "pd.unique", "pd.factorize", "pd.cut", "pd.qcut", "pd.get_dummies", "dict.fromkeys", "collections.Counter", "Counter",
}
AGG_METHODS = {
    "unique", "min", "max", "mean", "std", "var", "sum", "any", "all", "nunique", "value_counts", "mode", "median", "quantile",
    "sort_values", "argsort", "cumsum", "cumprod", "diff", "shift", "rank", "idxmax", "idxmin", "argmax", "argmin", "describe",
    "factorize", "drop_duplicates", "prod", "ptp", "head", "tail", "first", "last", "sort", "searchsorted", "cummax", "cummin",
    "count", "nlargest", "nsmallest", "rolling", "expanding", "ewm", "pct_change", "interpolate", "ffill", "bfill",
}
UNIVERSAL = {"all", "np.all"}  # subset-closed validation when the result only feeds a raise
SIZE_ONLY = {"len", "shape", "size", "ndim"}
# order-dependent / positional operations (row order matters)
POSITIONAL_METHODS = {"head", "tail", "first", "last", "iloc", "iat", "cumsum", "cumprod", "diff", "shift", "argsort", "rank",
                      "cummax", "cummin", "rolling", "expanding", "ewm", "pct_change", "interpolate", "ffill", "bfill", "idxmax", "idxmin",
                      "argmax", "argmin", "searchsorted"}
CANONICAL_ORDER_FUNCS = {"sorted", "np.unique", "np.sort"}
FIRST_SEEN_FUNCS = {"pd.unique", "pd.factorize", "set", "frozenset", "dict.fromkeys", "list"}
FIRST_SEEN_METHODS = {"unique", "factorize", "drop_duplicates", "value_counts", "mode", "keys"}


def _names_loaded(node):
    out = set()
    for n in ast.walk(node):
        if isinstance(n, ast.Name) and isinstance(n.ctx, ast.Load):
            out.add(n.id)
        elif isinstance(n, ast.Attribute) and isinstance(n.value, ast.Name) and n.value.id == "self":
            out.add("self." + n.attr)
    return out


def function_nodes(fn):
    """the function node and its nested function nodes (closures share the free variables)"""
    return [fn.node] + [g.node for g in _all_nested(fn)]


def _all_nested(fn):
    out = []
    for g in fn.nested.values():
        out.append(g)
        out.extend(_all_nested(g))
    return out


def taint_closure(fn, sources, tainted_fields=(), call_taints=None):
    """Names (locals, and 'self.attr' pseudo-names) whose value may depend on `sources`.
    call_taints(callnode) -> bool lets the caller declare results of specific calls tainted."""
    tainted = set(sources) | {"self." + f for f in tainted_fields}
    nodes = function_nodes(fn)
    changed = True

    def expr_tainted(e):
        if e is None:
            return False
        if _names_loaded(e) & tainted:
            return True
        if call_taints is not None:
            for c in ast.walk(e):
                if isinstance(c, ast.Call) and call_taints(c):
                    return True
        return False

    while changed:
        changed = False
        for root in nodes:
            for n in ast.walk(root):
                tgts, val = [], None
                if isinstance(n, ast.Assign):
                    tgts, val = n.targets, n.value
                elif isinstance(n, ast.AugAssign):
                    tgts, val = [n.target], n.value
                elif isinstance(n, ast.AnnAssign) and n.value is not None:
                    tgts, val = [n.target], n.value
                elif isinstance(n, (ast.For, ast.comprehension)):
                    tgts, val = [n.target], n.iter
                elif isinstance(n, ast.NamedExpr):
                    tgts, val = [n.target], n.value
                elif isinstance(n, ast.With):
                    for i in n.items:
                        if i.optional_vars is not None and expr_tainted(i.context_expr):
                            for t in ast.walk(i.optional_vars):
                                if isinstance(t, ast.Name) and t.id not in tainted:
                                    tainted.add(t.id)
                                    changed = True
                    continue
                else:
                    continue
                if not expr_tainted(val):
                    continue
                for t in tgts:
                    for x in ast.walk(t):
                        key = None
                        if isinstance(x, ast.Name) and isinstance(x.ctx, (ast.Store,)):
                            key = x.id
                        elif isinstance(x, ast.Attribute) and isinstance(x.ctx, ast.Store) and isinstance(x.value, ast.Name) and x.value.id == "self":
                            key = "self." + x.attr
                        elif isinstance(x, ast.Subscript) and isinstance(x.ctx, ast.Store):
                            b = x.value
                            if isinstance(b, ast.Name):
                                key = b.id
                            elif isinstance(b, ast.Attribute) and isinstance(b.value, ast.Name) and b.value.id == "self":
                                key = "self." + b.attr
                        if key and key not in tainted:
                            tainted.add(key)
                            changed = True
    return tainted


class Agg:
    __slots__ = ("node", "op", "arg", "universal", "fn_node")

    def __init__(self, node, op, arg, universal, fn_node):
        self.node, self.op, self.arg, self.universal, self.fn_node = node, op, arg, universal, fn_node


def _axis1(call):
    for k in call.keywords:
        if k.arg == "axis" and unparse(k.value) in ("1", "-1", "'columns'"):
            return True
    if len(call.args) >= 2 and dotted(call.func) and dotted(call.func).startswith("np.") and unparse(call.args[1]) in ("1", "-1"):
        return True
    if isinstance(call.func, ast.Attribute) and call.args and unparse(call.args[0]) in ("1",) and call.func.attr in ("any", "all", "sum"):
        return True
    return False


def aggregates(fn, tainted):
    """Aggregate operations applied to tainted values in fn (including nested closures)."""
    out = []

    def is_t(e):
        return bool(_names_loaded(e) & tainted)

    for root in function_nodes(fn):
        for c in ast.walk(root):
            if not isinstance(c, ast.Call):
                continue
            d = dotted(c.func)
            if d in AGG_FUNCS and c.args and any(is_t(a) for a in c.args[:1]):
                if _axis1(c):
                    continue
                if d in ("set", "frozenset", "sorted", "sum", "min", "max", "any", "all") and isinstance(c.args[0], (ast.List, ast.Tuple)) and False:
                    continue
                out.append(Agg(c, d, unparse(c.args[0]), d in UNIVERSAL, root))
            elif isinstance(c.func, ast.Attribute) and c.func.attr in AGG_METHODS and is_t(c.func.value):
                if _axis1(c):
                    continue
                # `x.sum()` on a tainted receiver; skip list.count/str.count style on constants
                out.append(Agg(c, "." + c.func.attr, unparse(c.func.value), c.func.attr in UNIVERSAL, root))
            elif d == "pd.Categorical" and c.args and is_t(c.args[0]) and not any(k.arg == "categories" for k in c.keywords):
                out.append(Agg(c, "pd.Categorical(without categories=)", unparse(c.args[0]), False, root))
    return out


def enclosing_tests(root, node):
    """list of (if/while node, branch) enclosing `node` inside `root` (branch: 'body' | 'orelse')."""
    path = []

    def rec(n, acc):
        if n is node:
            path.extend(acc)
            return True
        for fld, val in ast.iter_fields(n):
            if isinstance(val, list):
                for x in val:
                    if isinstance(x, ast.AST):
                        nacc = acc
                        if isinstance(n, (ast.If, ast.While)) and fld in ("body", "orelse"):
                            nacc = acc + [(n, fld)]
                        if rec(x, nacc):
                            return True
            elif isinstance(val, ast.AST):
                if rec(val, acc):
                    return True
        return False

    rec(root, [])
    return path

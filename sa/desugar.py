"""Surface-syntax desugaring applied to every module right after parsing, before anything else looks at the tree.

`match` statements are rewritten into the if / elif chains they abbreviate, for the pattern kinds whose meaning is a plain
test of the subject:
    case <literal>            subject == literal      (None / True / False: subject is literal)
    case a.b.C                subject == a.b.C        (value pattern)
    case Cls()                isinstance(subject, Cls)
    case p | q                test(p) or test(q)
    case p as name / case name / case _     bind / always
    case ... if guard         ... and guard
A statement with any other pattern (sequence, mapping, class patterns with sub-patterns) is left alone; the analyses then
report it as unmodelled.  Assignment expressions `(name := value)` in the test of an `if` / `while` whose value is needed
once are hoisted:  `if (m := f(x)) is not None:` -> `m = f(x); if m is not None:` (only for `if`, and only when the walrus is
evaluated unconditionally first in the test)."""
import ast
import copy


def _pure_subject(e):
    # the subject is evaluated once: anything but a bare name or a plain field of self (`self.kind`) goes through a temporary
    return isinstance(e, ast.Name) or (isinstance(e, ast.Attribute) and isinstance(e.value, ast.Name) and e.value.id == "self")


def _test(p, subj, binds):
    """test expression for pattern p on subject expression subj (an AST that may be copied), or None if unsupported;
    binds collects (name, value expr) captures"""
    S = lambda: copy.deepcopy(subj)  # noqa: E731
    if isinstance(p, ast.MatchValue):
        return ast.Compare(left=S(), ops=[ast.Eq()], comparators=[p.value])
    if isinstance(p, ast.MatchSingleton):
        return ast.Compare(left=S(), ops=[ast.Is()], comparators=[ast.Constant(value=p.value)])
    if isinstance(p, ast.MatchClass) and not p.patterns and not p.kwd_patterns:
        return ast.Call(func=ast.Name(id="isinstance", ctx=ast.Load()), args=[S(), p.cls], keywords=[])
    if isinstance(p, ast.MatchClass) and not p.patterns and p.kwd_patterns \
            and all(isinstance(q, ast.MatchAs) and q.pattern is None for q in p.kwd_patterns):
        # case Cls(attr=name, other=_): an isinstance test plus bindings name = subject.attr (capture / wildcard sub-patterns only;
        # the attribute reads cannot fail the match for a class that defines them)
        for attr, q in zip(p.kwd_attrs, p.kwd_patterns):
            if q.name is not None:
                binds.append((q.name, ast.Attribute(value=S(), attr=attr, ctx=ast.Load())))
        return ast.Call(func=ast.Name(id="isinstance", ctx=ast.Load()), args=[S(), p.cls], keywords=[])
    if isinstance(p, ast.MatchOr):
        parts = [_test(q, subj, binds) for q in p.patterns]
        if any(x is None for x in parts):
            return None
        if all(isinstance(x, ast.Call) and isinstance(x.func, ast.Name) and x.func.id == "isinstance" for x in parts):
            return ast.Call(func=ast.Name(id="isinstance", ctx=ast.Load()), args=[S(), ast.Tuple(elts=[x.args[1] for x in parts], ctx=ast.Load())], keywords=[])
        return ast.BoolOp(op=ast.Or(), values=parts)
    if isinstance(p, ast.MatchAs):
        if p.pattern is None:
            if p.name is not None:
                binds.append((p.name, S()))
            return ast.Constant(value=True)
        t = _test(p.pattern, subj, binds)
        if t is not None and p.name is not None:
            binds.append((p.name, S()))
        return t
    return None


class _Desugar(ast.NodeTransformer):
    def __init__(self):
        self.n = 0

    def visit_Match(self, node):
        self.generic_visit(node)
        prelude = []
        subj = node.subject
        if isinstance(subj, ast.NamedExpr) and isinstance(subj.target, ast.Name):
            # match (name := value): the name is bound first, then matched
            prelude.append(ast.Assign(targets=[ast.Name(id=subj.target.id, ctx=ast.Store())], value=subj.value))
            subj = ast.Name(id=subj.target.id, ctx=ast.Load())
        if not _pure_subject(subj):
            self.n += 1
            tmp = f"match__subject{self.n}"
            prelude.append(ast.Assign(targets=[ast.Name(id=tmp, ctx=ast.Store())], value=subj))
            subj = ast.Name(id=tmp, ctx=ast.Load())
        arms = []
        for c in node.cases:
            binds = []
            t = _test(c.pattern, subj, binds)
            if t is None:
                return node
            if c.guard is not None:
                if binds:
                    # the guard reads the capture: it is the subject itself (a pure name / attribute chain or the temporary)
                    bd = dict(binds)

                    class G(ast.NodeTransformer):
                        def visit_Name(self, n):
                            return copy.deepcopy(bd[n.id]) if isinstance(n.ctx, ast.Load) and n.id in bd else n

                    c.guard = G().visit(c.guard)
                t = c.guard if (isinstance(t, ast.Constant) and t.value is True) else ast.BoolOp(op=ast.And(), values=[t, c.guard])
            body = [ast.Assign(targets=[ast.Name(id=nm, ctx=ast.Store())], value=v) for nm, v in binds] + c.body
            arms.append((t, body))
        # build the chain from the end
        orelse = []
        for t, body in reversed(arms):
            if isinstance(t, ast.Constant) and t.value is True:
                orelse = body
            else:
                orelse = [ast.If(test=t, body=body, orelse=orelse)]
        out = prelude + (orelse or [ast.Pass()])
        for x in out:
            ast.copy_location(x, node)
            ast.fix_missing_locations(x)
        return out

    @staticmethod
    def _first_evaluated(first):
        while True:
            if isinstance(first, ast.Compare):
                first = first.left
            elif isinstance(first, ast.BoolOp):
                first = first.values[0]
            elif isinstance(first, ast.UnaryOp):
                first = first.operand
            elif isinstance(first, ast.IfExp):
                first = first.test
            elif isinstance(first, ast.BinOp):
                first = first.left
            elif isinstance(first, ast.Call) and first.args and isinstance(first.func, ast.Name):
                first = first.args[0]
            elif isinstance(first, ast.Call) and isinstance(first.func, ast.Attribute):
                first = first.func.value      # (m := E).method(...): the receiver is evaluated first
            elif isinstance(first, (ast.Attribute, ast.Subscript)):
                first = first.value
            else:
                return first

    def _hoist_from_value(self, node):
        """x = <expr that evaluates (m := E) first>  ->  m = E; x = <expr with m>   (assignments to names, returns, expression statements)"""
        v = node.value
        if v is None:
            return node
        if isinstance(node, ast.Assign) and not all(isinstance(t, ast.Name) for t in node.targets):
            return node   # a subscript / attribute target may be evaluated before the value
        first = self._first_evaluated(v)
        if isinstance(first, ast.NamedExpr) and isinstance(first.target, ast.Name) and first is not v:
            others = [n for n in ast.walk(v) if isinstance(n, ast.NamedExpr) and n is not first]
            if not others:
                assign = ast.copy_location(ast.Assign(targets=[ast.Name(id=first.target.id, ctx=ast.Store())], value=first.value), node)
                name = ast.copy_location(ast.Name(id=first.target.id, ctx=ast.Load()), first)

                class R(ast.NodeTransformer):
                    def visit_NamedExpr(self, n):
                        return name if n is first else n

                node.value = R().visit(v)
                ast.fix_missing_locations(assign)
                return [assign, node]
        return node

    def visit_Assign(self, node):
        self.generic_visit(node)
        return self._hoist_from_value(node)

    def visit_Return(self, node):
        self.generic_visit(node)
        return self._hoist_from_value(node)

    def visit_Expr(self, node):
        self.generic_visit(node)
        return self._hoist_from_value(node)

    def visit_If(self, node):
        self.generic_visit(node)
        # if (m := E) <rest of test>:  ->  m = E; if m <rest>:   (the walrus must be the first thing the test evaluates)
        t = node.test
        first = self._first_evaluated(t)
        if isinstance(first, ast.NamedExpr) and isinstance(first.target, ast.Name):
            others = [n for n in ast.walk(t) if isinstance(n, ast.NamedExpr) and n is not first]
            if not others:
                assign = ast.copy_location(ast.Assign(targets=[ast.Name(id=first.target.id, ctx=ast.Store())], value=first.value), node)
                name = ast.copy_location(ast.Name(id=first.target.id, ctx=ast.Load()), first)

                class R(ast.NodeTransformer):
                    def visit_NamedExpr(self, n):
                        return name if n is first else n

                node.test = R().visit(t)
                ast.fix_missing_locations(assign)
                return [assign, node]
        return node


def _dotted(e):
    parts = []
    while isinstance(e, ast.Attribute):
        parts.append(e.attr)
        e = e.value
    if isinstance(e, ast.Name):
        return ".".join([e.id] + parts[::-1])
    return None


class _GetterLocals(ast.NodeTransformer):
    """evaluate = methodcaller("eval", a, b)  ...  map(evaluate, xs) / evaluate(x):  the local stands for the getter it was
    bound to (once, in the same function); uses are rewritten as if the getter were written in place"""

    GETTERS = ("methodcaller", "operator.methodcaller", "attrgetter", "operator.attrgetter", "itemgetter", "operator.itemgetter")

    def visit_FunctionDef(self, node):
        self.generic_visit(node)
        stores = {}
        for n in ast.walk(node):
            if isinstance(n, ast.Name) and isinstance(n.ctx, ast.Store):
                stores[n.id] = stores.get(n.id, 0) + 1
        getters = {}
        for st in node.body:
            if isinstance(st, ast.Assign) and len(st.targets) == 1 and isinstance(st.targets[0], ast.Name) and stores.get(st.targets[0].id) == 1 \
                    and isinstance(st.value, ast.Call) and _dotted(st.value.func) in self.GETTERS:
                # the arguments of the getter must be names that are not re-bound afterwards (parameters)
                argnames = {x.id for a in st.value.args for x in ast.walk(a) if isinstance(x, ast.Name)}
                if all(stores.get(a, 0) == 0 for a in argnames):
                    getters[st.targets[0].id] = st.value
        if not getters:
            return node

        class R(ast.NodeTransformer):
            def visit_Name(self, n):
                if isinstance(n.ctx, ast.Load) and n.id in getters:
                    return copy.deepcopy(getters[n.id])
                return n

        node.body = [R().visit(st) if not (isinstance(st, ast.Assign) and len(st.targets) == 1 and isinstance(st.targets[0], ast.Name)
                                          and st.targets[0].id in getters) else st for st in node.body]
        node.body = [st for st in node.body if not (isinstance(st, ast.Assign) and len(st.targets) == 1 and isinstance(st.targets[0], ast.Name)
                                                    and st.targets[0].id in getters)]
        return node


class _Functional(ast.NodeTransformer):
    """map / starmap / operator.attrgetter & co. spelled as the generator expressions they are:
        map(f, X)                      -> (f(v) for v in X)
        map(lambda v: E, X)            -> (E for v in X)
        map(attrgetter('a'), X)        -> (v.a for v in X)        itemgetter(i) -> v[i]      methodcaller('m', *a) -> v.m(*a)
        starmap(f, X)                  -> (f(*v) for v in X)
    and  with suppress(E): BODY  ->  try: BODY except E: pass"""

    def __init__(self):
        self.n = 0

    def _var(self):
        self.n += 1
        return f"map__v{self.n}"

    def _apply(self, f, v, star=False):
        d = _dotted(f.func) if isinstance(f, ast.Call) else None
        V = lambda: ast.Name(id=v, ctx=ast.Load())  # noqa: E731
        if not star and d in ("attrgetter", "operator.attrgetter") and len(f.args) == 1 and isinstance(f.args[0], ast.Constant) \
                and isinstance(f.args[0].value, str) and all(p_.isidentifier() for p_ in f.args[0].value.split(".")):
            out = V()
            for p_ in f.args[0].value.split("."):   # attrgetter("a.b") follows the dotted path
                out = ast.Attribute(value=out, attr=p_, ctx=ast.Load())
            return out
        if not star and d in ("itemgetter", "operator.itemgetter") and len(f.args) == 1:
            return ast.Subscript(value=V(), slice=f.args[0], ctx=ast.Load())
        if not star and d in ("methodcaller", "operator.methodcaller") and f.args and isinstance(f.args[0], ast.Constant) and isinstance(f.args[0].value, str):
            return ast.Call(func=ast.Attribute(value=V(), attr=f.args[0].value, ctx=ast.Load()), args=f.args[1:], keywords=f.keywords)
        if not star and isinstance(f, ast.Lambda) and len(f.args.args) == 1 and not (f.args.vararg or f.args.kwarg or f.args.kwonlyargs or f.args.defaults):
            p = f.args.args[0].arg

            class R(ast.NodeTransformer):
                def visit_Name(self, n):
                    return ast.copy_location(ast.Name(id=v, ctx=n.ctx), n) if n.id == p else n

                def visit_Lambda(self, n):
                    return n

            return R().visit(copy.deepcopy(f.body))
        if isinstance(f, (ast.Name, ast.Attribute)):
            if star is not True and isinstance(star, int) and star >= 2:
                # the iterable yields tuples of a known length (product / zip of n iterables): f(*v) == f(v[0], ..., v[n-1])
                return ast.Call(func=f, args=[ast.Subscript(value=V(), slice=ast.Constant(value=i), ctx=ast.Load()) for i in range(star)], keywords=[])
            arg = ast.Starred(value=V(), ctx=ast.Load()) if star else V()
            return ast.Call(func=f, args=[arg], keywords=[])
        return None

    def visit_Call(self, node):
        self.generic_visit(node)
        d = _dotted(node.func)
        if isinstance(node.func, ast.Call) and _dotted(node.func.func) in _GetterLocals.GETTERS and len(node.args) == 1 and not node.keywords:
            # attrgetter("a")(obj) -> obj.a ; attrgetter("a", "b")(obj) -> (obj.a, obj.b) ; methodcaller("m", x)(obj) -> obj.m(x)
            g = node.func
            gd = _dotted(g.func)
            obj = node.args[0]
            pure = obj
            while isinstance(pure, ast.Attribute):
                pure = pure.value
            if isinstance(pure, ast.Name):
                if gd.endswith("attrgetter") and g.args and all(isinstance(a, ast.Constant) and isinstance(a.value, str) for a in g.args):
                    def path(name):
                        out = copy.deepcopy(obj)
                        for p_ in name.split("."):
                            out = ast.Attribute(value=out, attr=p_, ctx=ast.Load())
                        return out
                    items = [path(a.value) for a in g.args]
                    return ast.copy_location(items[0] if len(items) == 1 else ast.Tuple(elts=items, ctx=ast.Load()), node)
                if gd.endswith("methodcaller") and g.args and isinstance(g.args[0], ast.Constant) and isinstance(g.args[0].value, str):
                    return ast.copy_location(ast.Call(func=ast.Attribute(value=copy.deepcopy(obj), attr=g.args[0].value, ctx=ast.Load()),
                                                      args=g.args[1:], keywords=g.keywords), node)
                if gd.endswith("itemgetter") and len(g.args) == 1:
                    return ast.copy_location(ast.Subscript(value=copy.deepcopy(obj), slice=g.args[0], ctx=ast.Load()), node)
        if d == "map" and len(node.args) == 2 and not node.keywords:
            v = self._var()
            elt = self._apply(node.args[0], v)
            if elt is not None:
                return ast.copy_location(ast.GeneratorExp(elt=elt, generators=[ast.comprehension(
                    target=ast.Name(id=v, ctx=ast.Store()), iter=node.args[1], ifs=[], is_async=0)]), node)
        if d in ("starmap", "itertools.starmap") and len(node.args) == 2 and not node.keywords:
            v = self._var()
            it = node.args[1]
            width = True
            if isinstance(it, ast.Call) and _dotted(it.func) in ("product", "itertools.product", "zip") and it.args and not it.keywords \
                    and not any(isinstance(a, ast.Starred) for a in it.args) and len(it.args) >= 2:
                width = len(it.args)
            elt = self._apply(node.args[0], v, star=width)
            if elt is not None:
                return ast.copy_location(ast.GeneratorExp(elt=elt, generators=[ast.comprehension(
                    target=ast.Name(id=v, ctx=ast.Store()), iter=node.args[1], ifs=[], is_async=0)]), node)
        return node

    def visit_With(self, node):
        self.generic_visit(node)
        if len(node.items) == 1 and node.items[0].optional_vars is None and isinstance(node.items[0].context_expr, ast.Call) \
                and _dotted(node.items[0].context_expr.func) in ("suppress", "contextlib.suppress") and node.items[0].context_expr.args \
                and not node.items[0].context_expr.keywords:
            excs = node.items[0].context_expr.args
            typ = excs[0] if len(excs) == 1 else ast.Tuple(elts=list(excs), ctx=ast.Load())
            h = ast.ExceptHandler(type=typ, name=None, body=[ast.Pass()])
            return ast.copy_location(ast.Try(body=node.body, handlers=[h], orelse=[], finalbody=[]), node)
        return node


class _FuseGenerators(ast.NodeTransformer):
    """a comprehension over a generator expression is one comprehension (elements flow through one by one either way):
        [f(t) for t in (g(y) for y in Y if c)]          -> [f(g(y)) for y in Y if c]
        [e for sub in (h(y) for y in Y) for e in sub]   -> [e for y in Y for e in h(y)]
    done when the inner element is read once, or is a plain name / attribute chain (no double evaluation);
    chain.from_iterable(X) -> (e for sub in X for e in sub)"""

    def __init__(self):
        self.n = 0

    def visit_Call(self, node):
        self.generic_visit(node)
        if _dotted(node.func) in ("chain.from_iterable", "itertools.chain.from_iterable") and len(node.args) == 1 and not node.keywords:
            self.n += 1
            sub, e = f"chain__s{self.n}", f"chain__e{self.n}"
            g = ast.GeneratorExp(elt=ast.Name(id=e, ctx=ast.Load()), generators=[
                ast.comprehension(target=ast.Name(id=sub, ctx=ast.Store()), iter=node.args[0], ifs=[], is_async=0),
                ast.comprehension(target=ast.Name(id=e, ctx=ast.Store()), iter=ast.Name(id=sub, ctx=ast.Load()), ifs=[], is_async=0)])
            return self._fuse(ast.copy_location(g, node))
        return node

    def _fuse(self, node):
        changed = True
        while changed:
            changed = False
            for gi, g in enumerate(node.generators):
                inner = g.iter
                if not (isinstance(inner, ast.GeneratorExp) and isinstance(g.target, ast.Name)):
                    continue
                t = g.target.id
                rest = [node.elt if not isinstance(node, ast.DictComp) else ast.Tuple(elts=[node.key, node.value], ctx=ast.Load())] + list(g.ifs) \
                    + [x for h in node.generators[gi + 1:] for x in [h.iter] + list(h.ifs)]
                uses = sum(1 for r in rest for n in ast.walk(r) if isinstance(n, ast.Name) and n.id == t and isinstance(n.ctx, ast.Load))
                simple = inner.elt
                while isinstance(simple, ast.Attribute):
                    simple = simple.value
                if uses != 1 and not isinstance(simple, ast.Name):
                    continue
                # names of the inner generator must not clash with names used in the outer comprehension
                inner_names = {n.id for h in inner.generators for n in ast.walk(h.target) if isinstance(n, ast.Name)}
                outer_names = {n.id for r in rest for n in ast.walk(r) if isinstance(n, ast.Name)} | \
                    {n.id for h in node.generators if h is not g for n in ast.walk(h.target) if isinstance(n, ast.Name)}
                if inner_names & (outer_names - {t}):
                    continue
                ielt = inner.elt

                class Sub(ast.NodeTransformer):
                    def visit_Name(self, n):
                        return copy.deepcopy(ielt) if n.id == t and isinstance(n.ctx, ast.Load) else n

                if isinstance(node, ast.DictComp):
                    node.key, node.value = Sub().visit(node.key), Sub().visit(node.value)
                else:
                    node.elt = Sub().visit(node.elt)
                new_gens = [copy.deepcopy(h) for h in inner.generators]
                new_gens[-1].ifs = list(new_gens[-1].ifs) + [Sub().visit(c) for c in g.ifs]
                later = []
                for h in node.generators[gi + 1:]:
                    h.iter = Sub().visit(h.iter)
                    h.ifs = [Sub().visit(c) for c in h.ifs]
                    later.append(h)
                node.generators = node.generators[:gi] + new_gens + later
                changed = True
                break
        return node

    def visit_ListComp(self, node):
        self.generic_visit(node)
        return self._fuse(node)

    visit_GeneratorExp = visit_SetComp = visit_DictComp = visit_ListComp


class _Displays(ast.NodeTransformer):
    """list(<generator expression>) is the list comprehension, set(...) the set comprehension"""

    def visit_Call(self, node):
        self.generic_visit(node)
        if isinstance(node.func, ast.Name) and node.func.id in ("list", "set") and len(node.args) == 1 and not node.keywords \
                and isinstance(node.args[0], ast.GeneratorExp):
            g = node.args[0]
            cls = ast.ListComp if node.func.id == "list" else ast.SetComp
            return ast.copy_location(cls(elt=g.elt, generators=g.generators), node)
        return node


class _Defaults(ast.NodeTransformer):
    """a default of a builtin spelled out: slice(a, b, None) is slice(a, b)"""

    def visit_Call(self, node):
        self.generic_visit(node)
        if isinstance(node.func, ast.Name) and node.func.id == "slice" and len(node.args) == 3 and not node.keywords \
                and isinstance(node.args[2], ast.Constant) and node.args[2].value is None:
            node.args = node.args[:2]
        return node


class _Annotations(ast.NodeTransformer):
    """inside a function body `target: T = value` is `target = value` (the annotation of a local / an attribute has no effect);
    a bare `target: T` is no statement at all.  Class and module level annotated assignments are left alone (dataclasses read them)."""

    def __init__(self):
        self.depth = 0

    def visit_FunctionDef(self, node):
        self.depth += 1
        self.generic_visit(node)
        self.depth -= 1
        return node

    visit_AsyncFunctionDef = visit_FunctionDef

    def visit_ClassDef(self, node):
        d, self.depth = self.depth, 0
        self.generic_visit(node)
        self.depth = d
        return node

    def visit_AnnAssign(self, node):
        if not self.depth:
            return node
        if node.value is None:
            return ast.copy_location(ast.Pass(), node)
        return ast.copy_location(ast.Assign(targets=[node.target], value=node.value), node)


class _BoundMethodLocals(ast.NodeTransformer):
    """`append = out.append` ... `append(x)`: a local bound once to a bound method of a local object and only ever called is that
    method call (`out.append(x)`), provided the receiver name is never re-bound in the function (a micro-optimisation idiom)."""

    def visit_FunctionDef(self, node):
        self.generic_visit(node)
        cands = {}
        stores = {}
        for n in ast.walk(node):
            if isinstance(n, ast.Name) and isinstance(n.ctx, (ast.Store, ast.Del)):
                stores[n.id] = stores.get(n.id, 0) + 1
        params = {a.arg for a in node.args.posonlyargs + node.args.args + node.args.kwonlyargs}
        for st in node.body:
            if isinstance(st, ast.Assign) and len(st.targets) == 1 and isinstance(st.targets[0], ast.Name) and isinstance(st.value, ast.Attribute):
                base = st.value
                while isinstance(base, ast.Attribute):
                    base = base.value
                if isinstance(base, ast.Name) and stores.get(st.targets[0].id) == 1 and st.targets[0].id not in params \
                        and (stores.get(base.id, 0) == 0 and base.id in params or stores.get(base.id, 0) == 1 and base.id not in params):
                    cands[st.targets[0].id] = st
        if not cands:
            return node
        parents = {}
        for par in ast.walk(node):
            for ch in ast.iter_child_nodes(par):
                parents[id(ch)] = par
        for name, st in list(cands.items()):
            loads = [n for n in ast.walk(node) if isinstance(n, ast.Name) and n.id == name and isinstance(n.ctx, ast.Load)]
            if not loads or not all(isinstance(parents.get(id(n)), ast.Call) and parents[id(n)].func is n for n in loads):
                del cands[name]
                continue
            # a receiver that is itself a local must be bound before the alias (textual order at the top level of the body)
            base = st.value
            while isinstance(base, ast.Attribute):
                base = base.value
            if base.id not in params:
                idx = node.body.index(st)
                if not any(isinstance(n, ast.Name) and n.id == base.id and isinstance(n.ctx, ast.Store) for b in node.body[:idx] for n in ast.walk(b)):
                    del cands[name]
            # attribute receivers (`self.items.append`): the attribute must not be re-bound in the function
            v = st.value.value
            if name in cands and isinstance(v, ast.Attribute) and any(isinstance(n, ast.Attribute) and n.attr == v.attr and isinstance(n.ctx, ast.Store) for n in ast.walk(node)):
                del cands[name]
        if not cands:
            return node
        import copy

        class R(ast.NodeTransformer):
            def visit_Name(self, n):
                if isinstance(n.ctx, ast.Load) and n.id in cands:
                    return ast.copy_location(copy.deepcopy(cands[n.id].value), n)
                return n

        drop = {id(st) for st in cands.values()}
        node.body = [R().visit(b) for b in node.body if id(b) not in drop]
        return node

    visit_AsyncFunctionDef = visit_FunctionDef


def _two_d(e):
    """syntactically a 2-D array: allocator with a 2-tuple shape, `X[:, np.newaxis]`, `X.reshape(-1, 1)`, two-slice subscript"""
    if isinstance(e, ast.Call):
        d = _dotted(e.func) or ""
        if d in ("np.zeros", "np.ones", "np.empty", "np.full") and e.args and isinstance(e.args[0], ast.Tuple) and len(e.args[0].elts) == 2:
            return True
        if d == "np.eye":
            return True
        if isinstance(e.func, ast.Attribute) and e.func.attr == "reshape" and len(e.args) == 2:
            return True
    if isinstance(e, ast.Subscript) and isinstance(e.slice, ast.Tuple) and len(e.slice.elts) == 2:
        a, b = e.slice.elts
        if isinstance(a, ast.Slice) and (isinstance(b, ast.Slice) or ast.unparse(b) in ("np.newaxis", "None")):
            return True
    return False


class _Synonyms(ast.NodeTransformer):
    """spellings that denote the same object / value for every input, brought to the spelling the reference tree uses:
    X[:, None] = X[:, np.newaxis]; pd.CategoricalDtype = pd.api.types.CategoricalDtype; sorted(set(x)) = sorted(list(set(x)));
    range(0, n) = range(n); `in (c1, c2)` = `in [c1, c2]` for constants; np.concatenate(T, axis=1) = np.column_stack(T) (both need
    2-D blocks; column_stack only accepts more); np.hstack(T) = np.column_stack(T) and np.concatenate(T, axis=0) = np.vstack(T)
    when one operand is syntactically 2-D (then 1-D operands make either form raise); under `if X.ndim == 1:` X.reshape(-1, 1)
    and np.expand_dims(X, 1) are X[:, np.newaxis]."""

    def visit_Subscript(self, node):
        self.generic_visit(node)
        if isinstance(node.slice, ast.Tuple) and any(isinstance(e, ast.Constant) and e.value is None for e in node.slice.elts):
            node.slice.elts = [ast.copy_location(ast.Attribute(value=ast.Name(id="np", ctx=ast.Load()), attr="newaxis", ctx=ast.Load()), e)
                               if isinstance(e, ast.Constant) and e.value is None else e for e in node.slice.elts]
        return node

    def visit_Attribute(self, node):
        self.generic_visit(node)
        if node.attr == "CategoricalDtype" and isinstance(node.value, ast.Name) and node.value.id == "pd" and isinstance(node.ctx, ast.Load):
            node.value = ast.copy_location(ast.Attribute(value=ast.Attribute(value=ast.Name(id="pd", ctx=ast.Load()), attr="api", ctx=ast.Load()),
                                                         attr="types", ctx=ast.Load()), node.value)
        return node

    def visit_Set(self, node):
        self.generic_visit(node)
        # {*X} == set(X)
        if len(node.elts) == 1 and isinstance(node.elts[0], ast.Starred):
            return ast.copy_location(ast.Call(func=ast.Name(id="set", ctx=ast.Load()), args=[node.elts[0].value], keywords=[]), node)
        return node

    def visit_BinOp(self, node):
        self.generic_visit(node)
        # S & set(...) == S.intersection(set(...)),  S | set(...) == S.union(set(...)): the right operand is a set by construction
        def is_set(e):
            return isinstance(e, (ast.Set, ast.SetComp)) or isinstance(e, ast.Call) and _dotted(e.func) in ("set", "frozenset")
        if isinstance(node.op, (ast.BitAnd, ast.BitOr)) and is_set(node.right) and not is_set(node.left):
            meth = "intersection" if isinstance(node.op, ast.BitAnd) else "union"
            return ast.copy_location(ast.Call(func=ast.Attribute(value=node.left, attr=meth, ctx=ast.Load()), args=[node.right], keywords=[]), node)
        return node

    def visit_List(self, node):
        self.generic_visit(node)
        # [*A, x, *B]  ==  A + [x] + B  for lists A, B (a name / an attribute is taken to be a list, anything else goes through list())
        if isinstance(node.ctx, ast.Load) and any(isinstance(e, ast.Starred) for e in node.elts):
            parts, run = [], []
            for e in node.elts:
                if isinstance(e, ast.Starred):
                    if run:
                        parts.append(ast.List(elts=run, ctx=ast.Load()))
                        run = []
                    v = e.value
                    parts.append(v if isinstance(v, (ast.Name, ast.Attribute)) else ast.Call(func=ast.Name(id="list", ctx=ast.Load()), args=[v], keywords=[]))
                else:
                    run.append(e)
            if run:
                parts.append(ast.List(elts=run, ctx=ast.Load()))
            if len(parts) == 1 and not isinstance(parts[0], ast.List):
                parts[0] = ast.Call(func=ast.Name(id="list", ctx=ast.Load()), args=[parts[0]], keywords=[])
            out = parts[0]
            for p_ in parts[1:]:
                out = ast.BinOp(left=out, op=ast.Add(), right=p_)
            return ast.copy_location(out, node)
        return node

    def visit_Compare(self, node):
        self.generic_visit(node)
        if len(node.ops) == 1 and isinstance(node.ops[0], (ast.In, ast.NotIn)) and isinstance(node.comparators[0], ast.Tuple) \
                and node.comparators[0].elts and all(isinstance(e, ast.Constant) for e in node.comparators[0].elts):
            node.comparators[0] = ast.copy_location(ast.List(elts=node.comparators[0].elts, ctx=ast.Load()), node.comparators[0])
        return node

    def visit_Call(self, node):
        self.generic_visit(node)
        d = _dotted(node.func) or ""
        # axis by name (pandas): 'columns' is 1, 'index' / 'rows' is 0
        for k in node.keywords:
            if k.arg == "axis" and isinstance(k.value, ast.Constant) and k.value.value in ("columns", "index", "rows"):
                k.value = ast.copy_location(ast.Constant(value=1 if k.value.value == "columns" else 0), k.value)
        # f(*(generator)) == f(*[list comprehension]): the arguments are unpacked eagerly either way
        node.args = [ast.copy_location(ast.Starred(value=ast.ListComp(elt=a.value.elt, generators=a.value.generators), ctx=ast.Load()), a)
                     if isinstance(a, ast.Starred) and isinstance(a.value, ast.GeneratorExp) else a for a in node.args]
        # f(*[a, b]) / f(*(a, b)) with a literal display == f(a, b)
        if any(isinstance(a, ast.Starred) and isinstance(a.value, (ast.List, ast.Tuple)) and not any(isinstance(e, ast.Starred) for e in a.value.elts)
               for a in node.args):
            flat = []
            for a in node.args:
                if isinstance(a, ast.Starred) and isinstance(a.value, (ast.List, ast.Tuple)) and not any(isinstance(e, ast.Starred) for e in a.value.elts):
                    flat.extend(a.value.elts)
                else:
                    flat.append(a)
            node.args = flat
        if d == "sorted" and len(node.args) == 1 and not node.keywords and isinstance(node.args[0], ast.Call) and _dotted(node.args[0].func) == "set" \
                and len(node.args[0].args) == 1:
            node.args[0] = ast.copy_location(ast.Call(func=ast.Name(id="list", ctx=ast.Load()), args=[node.args[0]], keywords=[]), node.args[0])
        elif d in ("np.logical_not", "np.invert") and len(node.args) == 1 and not node.keywords and (
                isinstance(node.args[0], ast.Compare) or isinstance(node.args[0], ast.Call) and isinstance(node.args[0].func, ast.Attribute)
                and node.args[0].func.attr in ("any", "all", "isna", "isnull", "notna", "isin")):
            # on a boolean array logical_not / invert are `~`
            return ast.copy_location(ast.UnaryOp(op=ast.Invert(), operand=node.args[0]), node)
        elif d == "range" and len(node.args) == 2 and isinstance(node.args[0], ast.Constant) and node.args[0].value == 0 and not node.keywords:
            node.args = node.args[1:]
        elif d == "np.concatenate" and len(node.args) == 1 and len(node.keywords) == 1 and node.keywords[0].arg == "axis" \
                and isinstance(node.keywords[0].value, ast.Constant) and isinstance(node.args[0], (ast.List, ast.Tuple, ast.Name, ast.ListComp)):
            ax = node.keywords[0].value.value
            ops = node.args[0].elts if isinstance(node.args[0], (ast.List, ast.Tuple)) else []
            if ax == 1:
                node.func = ast.copy_location(ast.Attribute(value=ast.Name(id="np", ctx=ast.Load()), attr="column_stack", ctx=ast.Load()), node.func)
                node.keywords = []
            elif ax == 0 and ops and all(isinstance(o, ast.Call) and _dotted(o.func) == "np.atleast_2d" and len(o.args) == 1 for o in ops):
                # numpy's own definition of vstack
                node.func = ast.copy_location(ast.Attribute(value=ast.Name(id="np", ctx=ast.Load()), attr="vstack", ctx=ast.Load()), node.func)
                node.args = [ast.List(elts=[o.args[0] for o in ops], ctx=ast.Load())]
                node.keywords = []
            elif ax == 0 and any(_two_d(o) for o in ops):
                node.func = ast.copy_location(ast.Attribute(value=ast.Name(id="np", ctx=ast.Load()), attr="vstack", ctx=ast.Load()), node.func)
                node.keywords = []
        elif d == "np.hstack" and len(node.args) == 1 and not node.keywords and isinstance(node.args[0], (ast.List, ast.Tuple)) \
                and any(_two_d(o) for o in node.args[0].elts):
            node.func = ast.copy_location(ast.Attribute(value=ast.Name(id="np", ctx=ast.Load()), attr="column_stack", ctx=ast.Load()), node.func)
        return node

    def visit_If(self, node):
        self.generic_visit(node)
        # if X.ndim == 1: X = X.reshape(-1, 1)   ->   X = X[:, np.newaxis]
        t = node.test
        if isinstance(t, ast.Compare) and len(t.ops) == 1 and isinstance(t.ops[0], ast.Eq) and isinstance(t.left, ast.Attribute) and t.left.attr == "ndim" \
                and isinstance(t.comparators[0], ast.Constant) and t.comparators[0].value == 1:
            x = ast.unparse(t.left.value)
            for st in node.body:
                if isinstance(st, ast.Assign) and isinstance(st.value, ast.Call):
                    v = st.value
                    txt = ast.unparse(v)
                    if txt in (f"{x}.reshape(-1, 1)", f"{x}.reshape((-1, 1))", f"np.expand_dims({x}, 1)", f"np.expand_dims({x}, axis=1)", f"np.expand_dims({x}, -1)",
                               f"np.expand_dims({x}, axis=-1)", f"{x}.reshape(len({x}), 1)", f"{x}.reshape({x}.shape[0], 1)"):
                        st.value = ast.copy_location(ast.parse(f"{x}[:, np.newaxis]", mode="eval").body, v)
        return node


class _UnrollLiteralDictComp(ast.NodeTransformer):
    """{k: v for t, names in ((f, ("a", "b")), (g, ("c",))) for k in names}: a dict comprehension whose generators run over literal
    displays is the dict display it spells (same keys, same order, later duplicates win in both forms)"""

    def visit_DictComp(self, node):
        self.generic_visit(node)
        import copy

        def subst(e, env):
            class S(ast.NodeTransformer):
                def visit_Name(self, n):
                    return copy.deepcopy(env[n.id]) if isinstance(n.ctx, ast.Load) and n.id in env else n
            return S().visit(copy.deepcopy(e))

        def bind(target, value, env):
            if isinstance(target, ast.Name):
                env[target.id] = value
                return True
            if isinstance(target, (ast.Tuple, ast.List)) and isinstance(value, (ast.Tuple, ast.List)) and len(target.elts) == len(value.elts) \
                    and not any(isinstance(x, ast.Starred) for x in list(target.elts) + list(value.elts)):
                return all(bind(t, v, env) for t, v in zip(target.elts, value.elts))
            return False

        pairs = []

        def go(i, env):
            if len(pairs) > 64:
                return False
            if i == len(node.generators):
                pairs.append((subst(node.key, env), subst(node.value, env)))
                return True
            g = node.generators[i]
            if g.ifs or g.is_async:
                return False
            it = subst(g.iter, env)
            if not isinstance(it, (ast.Tuple, ast.List)) or any(isinstance(x, ast.Starred) for x in it.elts):
                return False
            for elt in it.elts:
                e2 = dict(env)
                if not bind(g.target, elt, e2) or not go(i + 1, e2):
                    return False
            return True

        if go(0, {}) and pairs and len(pairs) <= 64:
            return ast.copy_location(ast.Dict(keys=[k for k, _v in pairs], values=[v for _k, v in pairs]), node)
        return node


class _DictBuild(ast.NodeTransformer):
    """n = dict(A) ; n.update(B)   (consecutive statements)   ->   n = {**A, **B}"""

    def _block(self, stmts):
        out = []
        for st in stmts:
            prev = out[-1] if out else None
            if (isinstance(st, ast.Expr) and isinstance(st.value, ast.Call) and isinstance(st.value.func, ast.Attribute) and st.value.func.attr == "update"
                    and isinstance(st.value.func.value, ast.Name) and len(st.value.args) == 1 and not st.value.keywords
                    and isinstance(prev, ast.Assign) and len(prev.targets) == 1 and isinstance(prev.targets[0], ast.Name)
                    and prev.targets[0].id == st.value.func.value.id
                    and not any(isinstance(n, ast.Name) and n.id == prev.targets[0].id for n in ast.walk(st.value.args[0]))):
                v = prev.value
                parts = None
                if isinstance(v, ast.Call) and _dotted(v.func) == "dict" and len(v.args) == 1 and not v.keywords:
                    parts = [v.args[0]]
                elif isinstance(v, ast.Dict) and v.keys and all(k is None for k in v.keys):
                    parts = list(v.values)
                if parts is not None:
                    new = ast.Dict(keys=[None] * (len(parts) + 1), values=parts + [st.value.args[0]])
                    prev.value = ast.copy_location(new, v)
                    continue
            out.append(st)
        return out

    def generic_visit(self, node):
        super().generic_visit(node)
        for fld in ("body", "orelse", "finalbody"):
            sub = getattr(node, fld, None)
            if isinstance(sub, list) and sub and isinstance(sub[0], ast.stmt):
                setattr(node, fld, self._block(sub))
        return node


def desugar(tree):
    if any(isinstance(n, (ast.Match, ast.NamedExpr)) for n in ast.walk(tree)):
        tree = _Desugar().visit(tree)
    names = {_dotted(n.func) for n in ast.walk(tree) if isinstance(n, ast.Call)}
    if names & set(_GetterLocals.GETTERS):
        tree = _GetterLocals().visit(tree)
    if names & ({"map", "starmap", "itertools.starmap", "suppress", "contextlib.suppress"} | set(_GetterLocals.GETTERS)):
        tree = _Functional().visit(tree)
    if names & {"map", "starmap", "itertools.starmap", "chain.from_iterable", "itertools.chain.from_iterable"} \
            or any(isinstance(n, ast.comprehension) and isinstance(n.iter, ast.GeneratorExp) for n in ast.walk(tree)):
        tree = _FuseGenerators().visit(tree)
    if any(isinstance(n, ast.Call) and isinstance(n.func, ast.Name) and n.func.id in ("list", "set") and len(n.args) == 1
           and isinstance(n.args[0], ast.GeneratorExp) for n in ast.walk(tree)):
        tree = _Displays().visit(tree)
    if any(isinstance(n, ast.Call) and isinstance(n.func, ast.Name) and n.func.id in ("append", "add", "extend", "update", "insert") for n in ast.walk(tree)) or \
            any(isinstance(n, ast.Assign) and isinstance(n.value, ast.Attribute) and n.value.attr in ("append", "add", "extend", "update", "insert", "get")
                for n in ast.walk(tree)):
        tree = _BoundMethodLocals().visit(tree)
    if any(isinstance(n, ast.AnnAssign) for n in ast.walk(tree)):
        tree = _Annotations().visit(tree)
    if "slice" in names and not any(isinstance(n, ast.Name) and n.id == "slice" and isinstance(n.ctx, ast.Store) for n in ast.walk(tree)):
        tree = _Defaults().visit(tree)
    tree = _Synonyms().visit(tree)
    if any(isinstance(n, ast.DictComp) and isinstance(n.generators[0].iter, (ast.Tuple, ast.List)) for n in ast.walk(tree)):
        tree = _UnrollLiteralDictComp().visit(tree)
    if any(isinstance(n, ast.Call) and isinstance(n.func, ast.Attribute) and n.func.attr == "update" for n in ast.walk(tree)):
        tree = _DictBuild().visit(tree)
    ast.fix_missing_locations(tree)
    return tree

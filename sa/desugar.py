"""Surface-syntax desugaring applied to every module right after parsing, before anything else looks at the tree.

`match` statements are rewritten into the if / elif chains they abbreviate, for the pattern kinds whose meaning is a plain
test of the subject:
    case <literal>            subject == literal      (None / True / False: subject is literal)
    case a.b.C                subject == a.b.C        (value pattern)
    case Cls()                isinstance(subject, Cls)
    case p | q                test(p) or test(q)
    case p as name / case name / case _     bind / always
    case ... if guard         ... and guard
A statement with any other pattern (sequence, mapping, class patterns with sub-patterns) is left alone; the analyses then
report it as unmodelled.  Assignment expressions `(name := value)` in the test of an `if` / `while` whose value is needed
once are hoisted:  `if (m := f(x)) is not None:` -> `m = f(x); if m is not None:` (only for `if`, and only when the walrus is
evaluated unconditionally first in the test)."""
import ast
import copy


def _pure_subject(e):
    # the subject is evaluated once: anything but a bare name goes through a temporary
    return isinstance(e, ast.Name)


def _test(p, subj, binds):
    """test expression for pattern p on subject expression subj (an AST that may be copied), or None if unsupported;
    binds collects (name, value expr) captures"""
    S = lambda: copy.deepcopy(subj)  # noqa: E731
    if isinstance(p, ast.MatchValue):
        return ast.Compare(left=S(), ops=[ast.Eq()], comparators=[p.value])
    if isinstance(p, ast.MatchSingleton):
        return ast.Compare(left=S(), ops=[ast.Is()], comparators=[ast.Constant(value=p.value)])
    if isinstance(p, ast.MatchClass) and not p.patterns and not p.kwd_patterns:
        return ast.Call(func=ast.Name(id="isinstance", ctx=ast.Load()), args=[S(), p.cls], keywords=[])
    if isinstance(p, ast.MatchOr):
        parts = [_test(q, subj, binds) for q in p.patterns]
        if any(x is None for x in parts):
            return None
        if all(isinstance(x, ast.Call) and isinstance(x.func, ast.Name) and x.func.id == "isinstance" for x in parts):
            return ast.Call(func=ast.Name(id="isinstance", ctx=ast.Load()), args=[S(), ast.Tuple(elts=[x.args[1] for x in parts], ctx=ast.Load())], keywords=[])
        return ast.BoolOp(op=ast.Or(), values=parts)
    if isinstance(p, ast.MatchAs):
        if p.pattern is None:
            if p.name is not None:
                binds.append((p.name, S()))
            return ast.Constant(value=True)
        t = _test(p.pattern, subj, binds)
        if t is not None and p.name is not None:
            binds.append((p.name, S()))
        return t
    return None


class _Desugar(ast.NodeTransformer):
    def __init__(self):
        self.n = 0

    def visit_Match(self, node):
        self.generic_visit(node)
        prelude = []
        subj = node.subject
        if not _pure_subject(subj):
            self.n += 1
            tmp = f"match__subject{self.n}"
            prelude.append(ast.Assign(targets=[ast.Name(id=tmp, ctx=ast.Store())], value=subj))
            subj = ast.Name(id=tmp, ctx=ast.Load())
        arms = []
        for c in node.cases:
            binds = []
            t = _test(c.pattern, subj, binds)
            if t is None:
                return node
            if c.guard is not None:
                if binds:
                    # the guard reads the capture: it is the subject itself (a pure name / attribute chain or the temporary)
                    bd = dict(binds)

                    class G(ast.NodeTransformer):
                        def visit_Name(self, n):
                            return copy.deepcopy(bd[n.id]) if isinstance(n.ctx, ast.Load) and n.id in bd else n

                    c.guard = G().visit(c.guard)
                t = c.guard if (isinstance(t, ast.Constant) and t.value is True) else ast.BoolOp(op=ast.And(), values=[t, c.guard])
            body = [ast.Assign(targets=[ast.Name(id=nm, ctx=ast.Store())], value=v) for nm, v in binds] + c.body
            arms.append((t, body))
        # build the chain from the end
        orelse = []
        for t, body in reversed(arms):
            if isinstance(t, ast.Constant) and t.value is True:
                orelse = body
            else:
                orelse = [ast.If(test=t, body=body, orelse=orelse)]
        out = prelude + (orelse or [ast.Pass()])
        for x in out:
            ast.copy_location(x, node)
            ast.fix_missing_locations(x)
        return out

    def visit_If(self, node):
        self.generic_visit(node)
        # if (m := E) <rest of test>:  ->  m = E; if m <rest>:   (the walrus must be the first thing the test evaluates)
        t = node.test
        first = t
        while True:
            if isinstance(first, ast.Compare):
                first = first.left
            elif isinstance(first, ast.BoolOp):
                first = first.values[0]
            elif isinstance(first, ast.UnaryOp):
                first = first.operand
            elif isinstance(first, ast.Call) and first.args and isinstance(first.func, ast.Name):
                first = first.args[0]
            else:
                break
        if isinstance(first, ast.NamedExpr) and isinstance(first.target, ast.Name):
            others = [n for n in ast.walk(t) if isinstance(n, ast.NamedExpr) and n is not first]
            if not others:
                assign = ast.copy_location(ast.Assign(targets=[ast.Name(id=first.target.id, ctx=ast.Store())], value=first.value), node)
                name = ast.copy_location(ast.Name(id=first.target.id, ctx=ast.Load()), first)

                class R(ast.NodeTransformer):
                    def visit_NamedExpr(self, n):
                        return name if n is first else n

                node.test = R().visit(t)
                ast.fix_missing_locations(assign)
                return [assign, node]
        return node


def _dotted(e):
    parts = []
    while isinstance(e, ast.Attribute):
        parts.append(e.attr)
        e = e.value
    if isinstance(e, ast.Name):
        return ".".join([e.id] + parts[::-1])
    return None


class _Functional(ast.NodeTransformer):
    """map / starmap / operator.attrgetter & co. spelled as the generator expressions they are:
        map(f, X)                      -> (f(v) for v in X)
        map(lambda v: E, X)            -> (E for v in X)
        map(attrgetter('a'), X)        -> (v.a for v in X)        itemgetter(i) -> v[i]      methodcaller('m', *a) -> v.m(*a)
        starmap(f, X)                  -> (f(*v) for v in X)
    and  with suppress(E): BODY  ->  try: BODY except E: pass"""

    def __init__(self):
        self.n = 0

    def _var(self):
        self.n += 1
        return f"map__v{self.n}"

    def _apply(self, f, v, star=False):
        d = _dotted(f.func) if isinstance(f, ast.Call) else None
        V = lambda: ast.Name(id=v, ctx=ast.Load())  # noqa: E731
        if not star and d in ("attrgetter", "operator.attrgetter") and len(f.args) == 1 and isinstance(f.args[0], ast.Constant) \
                and isinstance(f.args[0].value, str) and f.args[0].value.isidentifier():
            return ast.Attribute(value=V(), attr=f.args[0].value, ctx=ast.Load())
        if not star and d in ("itemgetter", "operator.itemgetter") and len(f.args) == 1:
            return ast.Subscript(value=V(), slice=f.args[0], ctx=ast.Load())
        if not star and d in ("methodcaller", "operator.methodcaller") and f.args and isinstance(f.args[0], ast.Constant) and isinstance(f.args[0].value, str):
            return ast.Call(func=ast.Attribute(value=V(), attr=f.args[0].value, ctx=ast.Load()), args=f.args[1:], keywords=f.keywords)
        if not star and isinstance(f, ast.Lambda) and len(f.args.args) == 1 and not (f.args.vararg or f.args.kwarg or f.args.kwonlyargs or f.args.defaults):
            p = f.args.args[0].arg

            class R(ast.NodeTransformer):
                def visit_Name(self, n):
                    return ast.copy_location(ast.Name(id=v, ctx=n.ctx), n) if n.id == p else n

                def visit_Lambda(self, n):
                    return n

            return R().visit(copy.deepcopy(f.body))
        if isinstance(f, (ast.Name, ast.Attribute)):
            arg = ast.Starred(value=V(), ctx=ast.Load()) if star else V()
            return ast.Call(func=f, args=[arg], keywords=[])
        return None

    def visit_Call(self, node):
        self.generic_visit(node)
        d = _dotted(node.func)
        if d == "map" and len(node.args) == 2 and not node.keywords:
            v = self._var()
            elt = self._apply(node.args[0], v)
            if elt is not None:
                return ast.copy_location(ast.GeneratorExp(elt=elt, generators=[ast.comprehension(
                    target=ast.Name(id=v, ctx=ast.Store()), iter=node.args[1], ifs=[], is_async=0)]), node)
        if d in ("starmap", "itertools.starmap") and len(node.args) == 2 and not node.keywords:
            v = self._var()
            elt = self._apply(node.args[0], v, star=True)
            if elt is not None:
                return ast.copy_location(ast.GeneratorExp(elt=elt, generators=[ast.comprehension(
                    target=ast.Name(id=v, ctx=ast.Store()), iter=node.args[1], ifs=[], is_async=0)]), node)
        return node

    def visit_With(self, node):
        self.generic_visit(node)
        if len(node.items) == 1 and node.items[0].optional_vars is None and isinstance(node.items[0].context_expr, ast.Call) \
                and _dotted(node.items[0].context_expr.func) in ("suppress", "contextlib.suppress") and node.items[0].context_expr.args \
                and not node.items[0].context_expr.keywords:
            excs = node.items[0].context_expr.args
            typ = excs[0] if len(excs) == 1 else ast.Tuple(elts=list(excs), ctx=ast.Load())
            h = ast.ExceptHandler(type=typ, name=None, body=[ast.Pass()])
            return ast.copy_location(ast.Try(body=node.body, handlers=[h], orelse=[], finalbody=[]), node)
        return node


def desugar(tree):
    if any(isinstance(n, (ast.Match, ast.NamedExpr)) for n in ast.walk(tree)):
        tree = _Desugar().visit(tree)
    names = {_dotted(n.func) for n in ast.walk(tree) if isinstance(n, ast.Call)}
    if names & {"map", "starmap", "itertools.starmap", "suppress", "contextlib.suppress"}:
        tree = _Functional().visit(tree)
    ast.fix_missing_locations(tree)
    return tree

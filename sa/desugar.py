"""Surface-syntax desugaring applied to every module right after parsing, before anything else looks at the tree.

`match` statements are rewritten into the if / elif chains they abbreviate, for the pattern kinds whose meaning is a plain
test of the subject:
    case <literal>            subject == literal      (None / True / False: subject is literal)
    case a.b.C                subject == a.b.C        (value pattern)
    case Cls()                isinstance(subject, Cls)
    case p | q                test(p) or test(q)
    case p as name / case name / case _     bind / always
    case ... if guard         ... and guard
A statement with any other pattern (sequence, mapping, class patterns with sub-patterns) is left alone; the analyses then
report it as unmodelled.  Assignment expressions `(name := value)` in the test of an `if` / `while` whose value is needed
once are hoisted:  `if (m := f(x)) is not None:` -> `m = f(x); if m is not None:` (only for `if`, and only when the walrus is
evaluated unconditionally first in the test)."""
import ast
import copy


def _pure_subject(e):
    # the subject is evaluated once: anything but a bare name or a plain field of self (`self.kind`) goes through a temporary
    return isinstance(e, ast.Name) or (isinstance(e, ast.Attribute) and isinstance(e.value, ast.Name) and e.value.id == "self")


def _test(p, subj, binds):
    """test expression for pattern p on subject expression subj (an AST that may be copied), or None if unsupported;
    binds collects (name, value expr) captures"""
    S = lambda: copy.deepcopy(subj)  # noqa: E731
    if isinstance(p, ast.MatchValue):
        return ast.Compare(left=S(), ops=[ast.Eq()], comparators=[p.value])
    if isinstance(p, ast.MatchSingleton):
        return ast.Compare(left=S(), ops=[ast.Is()], comparators=[ast.Constant(value=p.value)])
    if isinstance(p, ast.MatchClass) and not p.patterns and not p.kwd_patterns:
        return ast.Call(func=ast.Name(id="isinstance", ctx=ast.Load()), args=[S(), p.cls], keywords=[])
    if isinstance(p, ast.MatchClass) and not p.patterns and p.kwd_patterns \
            and all(isinstance(q, ast.MatchAs) and q.pattern is None for q in p.kwd_patterns):
        # case Cls(attr=name, other=_): an isinstance test plus bindings name = subject.attr (capture / wildcard sub-patterns only;
        # the attribute reads cannot fail the match for a class that defines them)
        for attr, q in zip(p.kwd_attrs, p.kwd_patterns):
            if q.name is not None:
                binds.append((q.name, ast.Attribute(value=S(), attr=attr, ctx=ast.Load())))
        return ast.Call(func=ast.Name(id="isinstance", ctx=ast.Load()), args=[S(), p.cls], keywords=[])
    if isinstance(p, ast.MatchOr):
        parts = [_test(q, subj, binds) for q in p.patterns]
        if any(x is None for x in parts):
            return None
        if all(isinstance(x, ast.Call) and isinstance(x.func, ast.Name) and x.func.id == "isinstance" for x in parts):
            return ast.Call(func=ast.Name(id="isinstance", ctx=ast.Load()), args=[S(), ast.Tuple(elts=[x.args[1] for x in parts], ctx=ast.Load())], keywords=[])
        return ast.BoolOp(op=ast.Or(), values=parts)
    if isinstance(p, ast.MatchAs):
        if p.pattern is None:
            if p.name is not None:
                binds.append((p.name, S()))
            return ast.Constant(value=True)
        t = _test(p.pattern, subj, binds)
        if t is not None and p.name is not None:
            binds.append((p.name, S()))
        return t
    return None


class _Desugar(ast.NodeTransformer):
    def __init__(self):
        self.n = 0

    def visit_Match(self, node):
        self.generic_visit(node)
        prelude = []
        subj = node.subject
        if isinstance(subj, ast.NamedExpr) and isinstance(subj.target, ast.Name):
            # match (name := value): the name is bound first, then matched
            prelude.append(ast.Assign(targets=[ast.Name(id=subj.target.id, ctx=ast.Store())], value=subj.value))
            subj = ast.Name(id=subj.target.id, ctx=ast.Load())
        if not _pure_subject(subj):
            self.n += 1
            tmp = f"match__subject{self.n}"
            prelude.append(ast.Assign(targets=[ast.Name(id=tmp, ctx=ast.Store())], value=subj))
            subj = ast.Name(id=tmp, ctx=ast.Load())
        arms = []
        for c in node.cases:
            binds = []
            t = _test(c.pattern, subj, binds)
            if t is None:
                return node
            if c.guard is not None:
                if binds:
                    # the guard reads the capture: it is the subject itself (a pure name / attribute chain or the temporary)
                    bd = dict(binds)

                    class G(ast.NodeTransformer):
                        def visit_Name(self, n):
                            return copy.deepcopy(bd[n.id]) if isinstance(n.ctx, ast.Load) and n.id in bd else n

                    c.guard = G().visit(c.guard)
                t = c.guard if (isinstance(t, ast.Constant) and t.value is True) else ast.BoolOp(op=ast.And(), values=[t, c.guard])
            body = [ast.Assign(targets=[ast.Name(id=nm, ctx=ast.Store())], value=v) for nm, v in binds] + c.body
            arms.append((t, body))
        # build the chain from the end
        orelse = []
        for t, body in reversed(arms):
            if isinstance(t, ast.Constant) and t.value is True:
                orelse = body
            else:
                orelse = [ast.If(test=t, body=body, orelse=orelse)]
        out = prelude + (orelse or [ast.Pass()])
        for x in out:
            ast.copy_location(x, node)
            ast.fix_missing_locations(x)
        return out

    @staticmethod
    def _first_evaluated(first):
        while True:
            if isinstance(first, ast.Compare):
                first = first.left
            elif isinstance(first, ast.BoolOp):
                first = first.values[0]
            elif isinstance(first, ast.UnaryOp):
                first = first.operand
            elif isinstance(first, ast.IfExp):
                first = first.test
            elif isinstance(first, ast.BinOp):
                first = first.left
            elif isinstance(first, ast.Call) and first.args and isinstance(first.func, ast.Name):
                first = first.args[0]
            elif isinstance(first, ast.Call) and isinstance(first.func, ast.Attribute):
                first = first.func.value      # (m := E).method(...): the receiver is evaluated first
            elif isinstance(first, (ast.Attribute, ast.Subscript)):
                first = first.value
            else:
                return first

    def _hoist_from_value(self, node):
        """x = <expr that evaluates (m := E) first>  ->  m = E; x = <expr with m>   (assignments to names, returns, expression statements)"""
        v = node.value
        if v is None:
            return node
        if isinstance(node, ast.Assign) and not all(isinstance(t, ast.Name) for t in node.targets):
            return node   # a subscript / attribute target may be evaluated before the value
        first = self._first_evaluated(v)
        if isinstance(first, ast.NamedExpr) and isinstance(first.target, ast.Name) and first is not v:
            others = [n for n in ast.walk(v) if isinstance(n, ast.NamedExpr) and n is not first]
            if not others:
                assign = ast.copy_location(ast.Assign(targets=[ast.Name(id=first.target.id, ctx=ast.Store())], value=first.value), node)
                name = ast.copy_location(ast.Name(id=first.target.id, ctx=ast.Load()), first)

                class R(ast.NodeTransformer):
                    def visit_NamedExpr(self, n):
                        return name if n is first else n

                node.value = R().visit(v)
                ast.fix_missing_locations(assign)
                return [assign, node]
        return node

    def visit_Assign(self, node):
        self.generic_visit(node)
        return self._hoist_from_value(node)

    def visit_Return(self, node):
        self.generic_visit(node)
        return self._hoist_from_value(node)

    def visit_Expr(self, node):
        self.generic_visit(node)
        return self._hoist_from_value(node)

    def visit_If(self, node):
        self.generic_visit(node)
        # if (m := E) <rest of test>:  ->  m = E; if m <rest>:   (the walrus must be the first thing the test evaluates)
        t = node.test
        first = self._first_evaluated(t)
        if isinstance(first, ast.NamedExpr) and isinstance(first.target, ast.Name):
            others = [n for n in ast.walk(t) if isinstance(n, ast.NamedExpr) and n is not first]
            if not others:
                assign = ast.copy_location(ast.Assign(targets=[ast.Name(id=first.target.id, ctx=ast.Store())], value=first.value), node)
                name = ast.copy_location(ast.Name(id=first.target.id, ctx=ast.Load()), first)

                class R(ast.NodeTransformer):
                    def visit_NamedExpr(self, n):
                        return name if n is first else n

                node.test = R().visit(t)
                ast.fix_missing_locations(assign)
                return [assign, node]
        return node


def _dotted(e):
    parts = []
    while isinstance(e, ast.Attribute):
        parts.append(e.attr)
        e = e.value
    if isinstance(e, ast.Name):
        return ".".join([e.id] + parts[::-1])
    return None


class _GetterLocals(ast.NodeTransformer):
    """evaluate = methodcaller("eval", a, b)  ...  map(evaluate, xs) / evaluate(x):  the local stands for the getter it was
    bound to (once, in the same function); uses are rewritten as if the getter were written in place"""

    GETTERS = ("methodcaller", "operator.methodcaller", "attrgetter", "operator.attrgetter", "itemgetter", "operator.itemgetter")

    def visit_FunctionDef(self, node):
        self.generic_visit(node)
        stores = {}
        for n in ast.walk(node):
            if isinstance(n, ast.Name) and isinstance(n.ctx, ast.Store):
                stores[n.id] = stores.get(n.id, 0) + 1
        getters = {}
        for st in node.body:
            if isinstance(st, ast.Assign) and len(st.targets) == 1 and isinstance(st.targets[0], ast.Name) and stores.get(st.targets[0].id) == 1 \
                    and isinstance(st.value, ast.Call) and _dotted(st.value.func) in self.GETTERS:
                # the arguments of the getter must be names that are not re-bound afterwards (parameters)
                argnames = {x.id for a in st.value.args for x in ast.walk(a) if isinstance(x, ast.Name)}
                if all(stores.get(a, 0) == 0 for a in argnames):
                    getters[st.targets[0].id] = st.value
        if not getters:
            return node

        class R(ast.NodeTransformer):
            def visit_Name(self, n):
                if isinstance(n.ctx, ast.Load) and n.id in getters:
                    return copy.deepcopy(getters[n.id])
                return n

        node.body = [R().visit(st) if not (isinstance(st, ast.Assign) and len(st.targets) == 1 and isinstance(st.targets[0], ast.Name)
                                          and st.targets[0].id in getters) else st for st in node.body]
        node.body = [st for st in node.body if not (isinstance(st, ast.Assign) and len(st.targets) == 1 and isinstance(st.targets[0], ast.Name)
                                                    and st.targets[0].id in getters)]
        return node


class _Functional(ast.NodeTransformer):
    """map / starmap / operator.attrgetter & co. spelled as the generator expressions they are:
        map(f, X)                      -> (f(v) for v in X)
        map(lambda v: E, X)            -> (E for v in X)
        map(attrgetter('a'), X)        -> (v.a for v in X)        itemgetter(i) -> v[i]      methodcaller('m', *a) -> v.m(*a)
        starmap(f, X)                  -> (f(*v) for v in X)
    and  with suppress(E): BODY  ->  try: BODY except E: pass"""

    def __init__(self):
        self.n = 0

    def _var(self):
        self.n += 1
        return f"map__v{self.n}"

    def _apply(self, f, v, star=False):
        d = _dotted(f.func) if isinstance(f, ast.Call) else None
        V = lambda: ast.Name(id=v, ctx=ast.Load())  # noqa: E731
        if not star and d in ("attrgetter", "operator.attrgetter") and len(f.args) == 1 and isinstance(f.args[0], ast.Constant) \
                and isinstance(f.args[0].value, str) and all(p_.isidentifier() for p_ in f.args[0].value.split(".")):
            out = V()
            for p_ in f.args[0].value.split("."):   # attrgetter("a.b") follows the dotted path
                out = ast.Attribute(value=out, attr=p_, ctx=ast.Load())
            return out
        if not star and d in ("itemgetter", "operator.itemgetter") and len(f.args) == 1:
            return ast.Subscript(value=V(), slice=f.args[0], ctx=ast.Load())
        if not star and d in ("methodcaller", "operator.methodcaller") and f.args and isinstance(f.args[0], ast.Constant) and isinstance(f.args[0].value, str):
            return ast.Call(func=ast.Attribute(value=V(), attr=f.args[0].value, ctx=ast.Load()), args=f.args[1:], keywords=f.keywords)
        if not star and isinstance(f, ast.Lambda) and len(f.args.args) == 1 and not (f.args.vararg or f.args.kwarg or f.args.kwonlyargs or f.args.defaults):
            p = f.args.args[0].arg

            class R(ast.NodeTransformer):
                def visit_Name(self, n):
                    return ast.copy_location(ast.Name(id=v, ctx=n.ctx), n) if n.id == p else n

                def visit_Lambda(self, n):
                    return n

            return R().visit(copy.deepcopy(f.body))
        if isinstance(f, (ast.Name, ast.Attribute)):
            if star is not True and isinstance(star, int) and star >= 2:
                # the iterable yields tuples of a known length (product / zip of n iterables): f(*v) == f(v[0], ..., v[n-1])
                return ast.Call(func=f, args=[ast.Subscript(value=V(), slice=ast.Constant(value=i), ctx=ast.Load()) for i in range(star)], keywords=[])
            arg = ast.Starred(value=V(), ctx=ast.Load()) if star else V()
            return ast.Call(func=f, args=[arg], keywords=[])
        return None

    def visit_Call(self, node):
        self.generic_visit(node)
        d = _dotted(node.func)
        if isinstance(node.func, ast.Call) and _dotted(node.func.func) in _GetterLocals.GETTERS and len(node.args) == 1 and not node.keywords:
            # attrgetter("a")(obj) -> obj.a ; attrgetter("a", "b")(obj) -> (obj.a, obj.b) ; methodcaller("m", x)(obj) -> obj.m(x)
            g = node.func
            gd = _dotted(g.func)
            obj = node.args[0]
            pure = obj
            while isinstance(pure, ast.Attribute):
                pure = pure.value
            if isinstance(pure, ast.Name):
                if gd.endswith("attrgetter") and g.args and all(isinstance(a, ast.Constant) and isinstance(a.value, str) for a in g.args):
                    def path(name):
                        out = copy.deepcopy(obj)
                        for p_ in name.split("."):
                            out = ast.Attribute(value=out, attr=p_, ctx=ast.Load())
                        return out
                    items = [path(a.value) for a in g.args]
                    return ast.copy_location(items[0] if len(items) == 1 else ast.Tuple(elts=items, ctx=ast.Load()), node)
                if gd.endswith("methodcaller") and g.args and isinstance(g.args[0], ast.Constant) and isinstance(g.args[0].value, str):
                    return ast.copy_location(ast.Call(func=ast.Attribute(value=copy.deepcopy(obj), attr=g.args[0].value, ctx=ast.Load()),
                                                      args=g.args[1:], keywords=g.keywords), node)
                if gd.endswith("itemgetter") and len(g.args) == 1:
                    return ast.copy_location(ast.Subscript(value=copy.deepcopy(obj), slice=g.args[0], ctx=ast.Load()), node)
        if d == "map" and len(node.args) == 2 and not node.keywords:
            v = self._var()
            elt = self._apply(node.args[0], v)
            if elt is not None:
                return ast.copy_location(ast.GeneratorExp(elt=elt, generators=[ast.comprehension(
                    target=ast.Name(id=v, ctx=ast.Store()), iter=node.args[1], ifs=[], is_async=0)]), node)
        if d in ("starmap", "itertools.starmap") and len(node.args) == 2 and not node.keywords:
            v = self._var()
            it = node.args[1]
            width = True
            if isinstance(it, ast.Call) and _dotted(it.func) in ("product", "itertools.product", "zip") and it.args and not it.keywords \
                    and not any(isinstance(a, ast.Starred) for a in it.args) and len(it.args) >= 2:
                width = len(it.args)
            elt = self._apply(node.args[0], v, star=width)
            if elt is not None:
                return ast.copy_location(ast.GeneratorExp(elt=elt, generators=[ast.comprehension(
                    target=ast.Name(id=v, ctx=ast.Store()), iter=node.args[1], ifs=[], is_async=0)]), node)
        return node

    def visit_With(self, node):
        self.generic_visit(node)
        if len(node.items) == 1 and node.items[0].optional_vars is None and isinstance(node.items[0].context_expr, ast.Call) \
                and _dotted(node.items[0].context_expr.func) in ("suppress", "contextlib.suppress") and node.items[0].context_expr.args \
                and not node.items[0].context_expr.keywords:
            excs = node.items[0].context_expr.args
            typ = excs[0] if len(excs) == 1 else ast.Tuple(elts=list(excs), ctx=ast.Load())
            h = ast.ExceptHandler(type=typ, name=None, body=[ast.Pass()])
            return ast.copy_location(ast.Try(body=node.body, handlers=[h], orelse=[], finalbody=[]), node)
        return node


class _FuseGenerators(ast.NodeTransformer):
    """a comprehension over a generator expression is one comprehension (elements flow through one by one either way):
        [f(t) for t in (g(y) for y in Y if c)]          -> [f(g(y)) for y in Y if c]
        [e for sub in (h(y) for y in Y) for e in sub]   -> [e for y in Y for e in h(y)]
    done when the inner element is read once, or is a plain name / attribute chain (no double evaluation);
    chain.from_iterable(X) -> (e for sub in X for e in sub)"""

    def __init__(self):
        self.n = 0

    def visit_Call(self, node):
        self.generic_visit(node)
        if _dotted(node.func) in ("chain.from_iterable", "itertools.chain.from_iterable") and len(node.args) == 1 and not node.keywords:
            self.n += 1
            sub, e = f"chain__s{self.n}", f"chain__e{self.n}"
            g = ast.GeneratorExp(elt=ast.Name(id=e, ctx=ast.Load()), generators=[
                ast.comprehension(target=ast.Name(id=sub, ctx=ast.Store()), iter=node.args[0], ifs=[], is_async=0),
                ast.comprehension(target=ast.Name(id=e, ctx=ast.Store()), iter=ast.Name(id=sub, ctx=ast.Load()), ifs=[], is_async=0)])
            return self._fuse(ast.copy_location(g, node))
        return node

    def _fuse(self, node):
        changed = True
        while changed:
            changed = False
            for gi, g in enumerate(node.generators):
                inner = g.iter
                if not (isinstance(inner, ast.GeneratorExp) and isinstance(g.target, ast.Name)):
                    continue
                t = g.target.id
                rest = [node.elt if not isinstance(node, ast.DictComp) else ast.Tuple(elts=[node.key, node.value], ctx=ast.Load())] + list(g.ifs) \
                    + [x for h in node.generators[gi + 1:] for x in [h.iter] + list(h.ifs)]
                uses = sum(1 for r in rest for n in ast.walk(r) if isinstance(n, ast.Name) and n.id == t and isinstance(n.ctx, ast.Load))
                simple = inner.elt
                while isinstance(simple, ast.Attribute):
                    simple = simple.value
                if uses != 1 and not isinstance(simple, ast.Name):
                    continue
                # names of the inner generator must not clash with names used in the outer comprehension
                inner_names = {n.id for h in inner.generators for n in ast.walk(h.target) if isinstance(n, ast.Name)}
                outer_names = {n.id for r in rest for n in ast.walk(r) if isinstance(n, ast.Name)} | \
                    {n.id for h in node.generators if h is not g for n in ast.walk(h.target) if isinstance(n, ast.Name)}
                if inner_names & (outer_names - {t}):
                    continue
                ielt = inner.elt

                class Sub(ast.NodeTransformer):
                    def visit_Name(self, n):
                        return copy.deepcopy(ielt) if n.id == t and isinstance(n.ctx, ast.Load) else n

                if isinstance(node, ast.DictComp):
                    node.key, node.value = Sub().visit(node.key), Sub().visit(node.value)
                else:
                    node.elt = Sub().visit(node.elt)
                new_gens = [copy.deepcopy(h) for h in inner.generators]
                new_gens[-1].ifs = list(new_gens[-1].ifs) + [Sub().visit(c) for c in g.ifs]
                later = []
                for h in node.generators[gi + 1:]:
                    h.iter = Sub().visit(h.iter)
                    h.ifs = [Sub().visit(c) for c in h.ifs]
                    later.append(h)
                node.generators = node.generators[:gi] + new_gens + later
                changed = True
                break
        return node

    def visit_ListComp(self, node):
        self.generic_visit(node)
        return self._fuse(node)

    visit_GeneratorExp = visit_SetComp = visit_DictComp = visit_ListComp


class _Displays(ast.NodeTransformer):
    """list(<generator expression>) is the list comprehension, set(...) the set comprehension"""

    def visit_Call(self, node):
        self.generic_visit(node)
        if isinstance(node.func, ast.Name) and node.func.id in ("list", "set") and len(node.args) == 1 and not node.keywords \
                and isinstance(node.args[0], ast.GeneratorExp):
            g = node.args[0]
            cls = ast.ListComp if node.func.id == "list" else ast.SetComp
            return ast.copy_location(cls(elt=g.elt, generators=g.generators), node)
        return node


class _Defaults(ast.NodeTransformer):
    """a default of a builtin spelled out: slice(a, b, None) is slice(a, b)"""

    def visit_Call(self, node):
        self.generic_visit(node)
        if isinstance(node.func, ast.Name) and node.func.id == "slice" and len(node.args) == 3 and not node.keywords \
                and isinstance(node.args[2], ast.Constant) and node.args[2].value is None:
            node.args = node.args[:2]
        return node


class _Annotations(ast.NodeTransformer):
    """inside a function body `target: T = value` is `target = value` (the annotation of a local / an attribute has no effect);
    a bare `target: T` is no statement at all.  Class and module level annotated assignments are left alone (dataclasses read them)."""

    def __init__(self):
        self.depth = 0

    def visit_FunctionDef(self, node):
        self.depth += 1
        self.generic_visit(node)
        self.depth -= 1
        return node

    visit_AsyncFunctionDef = visit_FunctionDef

    def visit_ClassDef(self, node):
        d, self.depth = self.depth, 0
        self.generic_visit(node)
        self.depth = d
        return node

    def visit_AnnAssign(self, node):
        if not self.depth:
            return node
        if node.value is None:
            return ast.copy_location(ast.Pass(), node)
        return ast.copy_location(ast.Assign(targets=[node.target], value=node.value), node)


def desugar(tree):
    if any(isinstance(n, (ast.Match, ast.NamedExpr)) for n in ast.walk(tree)):
        tree = _Desugar().visit(tree)
    names = {_dotted(n.func) for n in ast.walk(tree) if isinstance(n, ast.Call)}
    if names & set(_GetterLocals.GETTERS):
        tree = _GetterLocals().visit(tree)
    if names & ({"map", "starmap", "itertools.starmap", "suppress", "contextlib.suppress"} | set(_GetterLocals.GETTERS)):
        tree = _Functional().visit(tree)
    if names & {"map", "starmap", "itertools.starmap", "chain.from_iterable", "itertools.chain.from_iterable"} \
            or any(isinstance(n, ast.comprehension) and isinstance(n.iter, ast.GeneratorExp) for n in ast.walk(tree)):
        tree = _FuseGenerators().visit(tree)
    if any(isinstance(n, ast.Call) and isinstance(n.func, ast.Name) and n.func.id in ("list", "set") and len(n.args) == 1
           and isinstance(n.args[0], ast.GeneratorExp) for n in ast.walk(tree)):
        tree = _Displays().visit(tree)
    if any(isinstance(n, ast.AnnAssign) for n in ast.walk(tree)):
        tree = _Annotations().visit(tree)
    if "slice" in names and not any(isinstance(n, ast.Name) and n.id == "slice" and isinstance(n.ctx, ast.Store) for n in ast.walk(tree)):
        tree = _Defaults().visit(tree)
    ast.fix_missing_locations(tree)
    return tree

"""Normalisation pass applied to the loaded program before any rule runs.

The rules are anchored in the function inventory of the reference tree (sa/reference_inventory.json).
A refactoring that *extracts* code into a new helper function / method, or moves a literal into a new
module-level or class-level constant, must not change what the rules see.  Therefore:

  N1  every call to a function that is NOT in the reference inventory (a "new helper") is inlined at
      its call sites when the helper is simple enough (straight-line code with if/else, returns only
      in tail position); parameters are substituted by the argument expressions (or bound to
      temporaries), the helper's locals are renamed on collision;
  N2  every reference to a module-level / class-level constant that is NOT in the reference inventory
      and whose value is a literal is replaced by that literal.

A breaking change hidden inside a new helper is inlined just the same, so the rules look through it.
Helpers that cannot be inlined are left alone (the rules then meet an unknown call: usually an
ANALYSIS-ERROR or a violation of an exact-form rule).  Nothing is executed.
"""
import ast
import copy
import json
import os

from .core import VERIF, unparse, dotted, strip_docstring

BUILTIN_SCOPE_SENSITIVE = {"eval", "exec", "locals", "globals", "vars"}
FRAME_SENSITIVE = {"capture", "_getframe", "currentframe", "stack", "locals", "globals", "vars", "eval", "exec", "design_matrices", "model_description"}
INVENTORY = os.path.join(VERIF, "sa", "reference_inventory.json")
MAX_HELPER_STMTS = 25
MAX_ROUNDS = 4


def load_inventory():
    if not os.path.exists(INVENTORY):
        return None
    with open(INVENTORY) as fh:
        return json.load(fh)


def write_inventory(prog):
    inv = {
        "functions": sorted(prog.functions),
        "globals": sorted(f"{m.name}.{g}" for m in prog.modules.values() for g in m.globals),
        "class_attrs": sorted(f"{c.qual}.{a}" for c in prog.classes.values() for a in c.class_attrs),
    }
    with open(INVENTORY, "w") as fh:
        json.dump(inv, fh, indent=0)
    return inv


# --------------------------------------------------------------------------------------
BUILTIN_TYPE_NAMES = {"int", "float", "complex", "str", "bytes", "bool", "list", "tuple", "dict", "set", "frozenset", "object", "type"}


def _is_literal(node, depth=0):
    if isinstance(node, ast.Constant):
        return True
    if isinstance(node, ast.Name) and node.id in BUILTIN_TYPE_NAMES and depth > 0:
        return True  # (int, float): a tuple of builtin types, e.g. for isinstance
    if isinstance(node, (ast.List, ast.Tuple, ast.Set)) and depth < 3:
        return all(_is_literal(e, depth + 1) for e in node.elts)
    if isinstance(node, ast.Dict) and depth < 3:
        return all(k is not None and _is_literal(k, depth + 1) and _is_literal(v, depth + 1) for k, v in zip(node.keys, node.values))
    if isinstance(node, ast.UnaryOp) and isinstance(node.op, ast.USub):
        return _is_literal(node.operand, depth + 1)
    return False


class _Subst(ast.NodeTransformer):
    """substitute Names by expressions / rename locals"""

    def __init__(self, mapping, rename):
        self.mapping = mapping
        self.rename = rename

    def visit_Name(self, node):
        if node.id in self.mapping and isinstance(node.ctx, ast.Load):
            return copy.deepcopy(self.mapping[node.id])
        if node.id in self.rename:
            return ast.copy_location(ast.Name(id=self.rename[node.id], ctx=node.ctx), node)
        return node

    def visit_FunctionDef(self, node):
        # a nested def of the helper (a closure over the helper's parameters and locals): substitute its free names only
        own = {a.arg for a in node.args.posonlyargs + node.args.args + node.args.kwonlyargs}
        if node.args.vararg:
            own.add(node.args.vararg.arg)
        if node.args.kwarg:
            own.add(node.args.kwarg.arg)
        own |= {n.id for b in node.body for n in ast.walk(b) if isinstance(n, ast.Name) and isinstance(n.ctx, ast.Store)}
        inner = _Subst({k: v for k, v in self.mapping.items() if k not in own}, {k: v for k, v in self.rename.items() if k not in own})
        node.body = [inner.visit(b) for b in node.body]
        if node.name in self.rename:
            node.name = self.rename[node.name]
        return node

    def visit_Lambda(self, node):
        return node


def _simple_arg(node):
    """argument expressions that can be substituted textually without changing evaluation"""
    if isinstance(node, (ast.Name, ast.Constant)):
        return True
    # a bound method of self (`self.addition`) passed as a callable, and displays of constants (token-kind lists): reading
    # them later or several times yields the same value
    if isinstance(node, ast.Attribute) and isinstance(node.value, ast.Name) and node.value.id in ("self", "cls"):
        return True
    if isinstance(node, (ast.Tuple, ast.List)) and all(isinstance(e, ast.Constant) for e in node.elts):
        return True
    return False


def _tail_returns_only(stmts):
    """returns appear only in tail position (last statement, or inside an if/else whose both arms are tails or that is followed by a tail)"""
    for i, s in enumerate(stmts):
        last = i == len(stmts) - 1
        if isinstance(s, ast.Return):
            if not last:
                return False
        elif isinstance(s, ast.If):
            has_ret = any(isinstance(n, ast.Return) for n in ast.walk(s))
            if has_ret:
                # an if containing returns: each arm must itself be tail-return-only, and what follows is the
                # continuation of the arms that do not return
                if not _tail_returns_only(s.body) or not _tail_returns_only(s.orelse):
                    return False
        elif isinstance(s, (ast.For, ast.While, ast.Try, ast.With)):
            if any(isinstance(n, ast.Return) for n in ast.walk(s)):
                return False
        elif isinstance(s, ast.ClassDef):
            return False
        elif isinstance(s, ast.FunctionDef):
            # a closure defined at the top of the helper: its own returns are not the helper's
            if any(isinstance(n, (ast.Yield, ast.YieldFrom, ast.Global, ast.Nonlocal)) for n in ast.walk(s)) or s.decorator_list:
                return False
    return True


def _search_loop_to_any(stmts):
    """`for u in C: if P(u): return A` + `return B` (A, B constants)  ->  `return A if any(P(u) for u in C) else B`:
    any() stops at the first hit exactly like the loop does"""
    if len(stmts) >= 2 and isinstance(stmts[-1], ast.Return) and isinstance(stmts[-1].value, ast.Constant) and isinstance(stmts[-2], ast.For):
        lp = stmts[-2]
        if not lp.orelse and len(lp.body) == 1 and isinstance(lp.body[0], ast.If) and not lp.body[0].orelse and len(lp.body[0].body) == 1 \
                and isinstance(lp.body[0].body[0], ast.Return) and isinstance(lp.body[0].body[0].value, ast.Constant) \
                and isinstance(lp.target, (ast.Name, ast.Tuple)):
            gen = ast.GeneratorExp(elt=copy.deepcopy(lp.body[0].test),
                                   generators=[ast.comprehension(target=copy.deepcopy(lp.target), iter=copy.deepcopy(lp.iter), ifs=[], is_async=0)])
            call = ast.Call(func=ast.Name(id="any", ctx=ast.Load()), args=[gen], keywords=[])
            ret = ast.Return(value=ast.IfExp(test=call, body=copy.deepcopy(lp.body[0].body[0].value), orelse=copy.deepcopy(stmts[-1].value)))
            ast.copy_location(ret, lp)
            ast.fix_missing_locations(ret)
            return list(stmts[:-2]) + [ret]
    return stmts


def _always_returns(stmts):
    if not stmts:
        return False
    s = stmts[-1]
    if isinstance(s, (ast.Return, ast.Raise)):
        return True
    if isinstance(s, ast.If):
        return bool(s.orelse) and _always_returns(s.body) and _always_returns(s.orelse)
    return False


def _structured(stmts, mk_result):
    """rewrite a tail-return-only statement list so that `return e` becomes mk_result(e) and code after an
    `if` whose arm returned moves into the other arm (else-form)."""
    out = []
    for i, s in enumerate(stmts):
        rest = stmts[i + 1:]
        if isinstance(s, ast.Return):
            out.extend(mk_result(s.value if s.value is not None else ast.Constant(value=None), s))
            return out
        if isinstance(s, ast.If) and any(isinstance(n, ast.Return) for n in ast.walk(s)):
            body_ret = _always_returns(s.body)
            else_ret = _always_returns(s.orelse) if s.orelse else False
            new = ast.If(test=s.test, body=[], orelse=[])
            ast.copy_location(new, s)
            if body_ret and not else_ret:
                new.body = _structured(s.body, mk_result)
                new.orelse = _structured(list(s.orelse) + rest, mk_result)
            elif else_ret and not body_ret:
                new.body = _structured(list(s.body) + rest, mk_result)
                new.orelse = _structured(s.orelse, mk_result)
            elif body_ret and else_ret:
                new.body = _structured(s.body, mk_result)
                new.orelse = _structured(s.orelse, mk_result)
            else:
                return None
            if new.body is None or new.orelse is None:
                return None
            out.append(new)
            return out
        out.append(s)
        if isinstance(s, ast.Raise):
            return out   # nothing is returned on a path that ends in raise
    # fell off the end: implicit None
    out.extend(mk_result(ast.Constant(value=None), stmts[-1] if stmts else None))
    return out


def free_globals(prog, hm, cm, fnode):
    """The body of a function that lives in module hm is moved into module cm: every free name of the body must mean there what
    it meant at home.  Returns {name: import target to add to cm} or None when a name of the body is bound differently in cm
    (capture: the body is then not moved)."""
    a = fnode.args
    local = {x.arg for x in a.posonlyargs + a.args + a.kwonlyargs} | {x.arg for x in (a.vararg, a.kwarg) if x}
    for n in ast.walk(fnode):
        if isinstance(n, ast.Name) and isinstance(n.ctx, (ast.Store, ast.Del)):
            local.add(n.id)
        elif isinstance(n, (ast.FunctionDef, ast.ClassDef)) and n is not fnode:
            local.add(n.name)
            if isinstance(n, ast.FunctionDef):
                local |= {x.arg for x in n.args.posonlyargs + n.args.args + n.args.kwonlyargs}
        elif isinstance(n, ast.Lambda):
            local |= {x.arg for x in n.args.posonlyargs + n.args.args + n.args.kwonlyargs}
        elif isinstance(n, (ast.Import, ast.ImportFrom)):
            local |= {(x.asname or x.name).split(".")[0] for x in n.names}
        elif isinstance(n, ast.ExceptHandler) and n.name:
            local.add(n.name)

    def bound(m, name):
        return name in m.classes or name in m.functions or name in m.imports or name in m.globals

    need = {}
    for n in ast.walk(fnode):
        if not (isinstance(n, ast.Name) and isinstance(n.ctx, ast.Load)) or n.id in local:
            continue
        name = n.id
        if not bound(hm, name):
            # a builtin (or an undefined name): the destination module must not shadow it
            if bound(cm, name):
                return None
            continue
        target = hm.imports[name] if name in hm.imports else f"{hm.name}.{name}"
        if bound(cm, name):
            there = cm.imports[name] if name in cm.imports else f"{cm.name}.{name}"
            if there != target and prog.resolve(hm, name) != prog.resolve(cm, name):
                return None
            continue
        need[name] = target
    return need


def add_imports(cm, need):
    for name, target in sorted(need.items()):
        if name in cm.imports:
            continue
        cm.imports[name] = target
        modname, _, sym = target.rpartition(".")
        if modname:
            stmt = ast.ImportFrom(module=modname, names=[ast.alias(name=sym, asname=None if sym == name else name)], level=0)
        else:
            stmt = ast.Import(names=[ast.alias(name=target, asname=None if target == name else name)])
        at = 0
        for i, x in enumerate(cm.tree.body):
            if isinstance(x, (ast.Import, ast.ImportFrom)) or (i == 0 and isinstance(x, ast.Expr) and isinstance(x.value, ast.Constant)):
                at = i + 1
        ast.fix_missing_locations(stmt)
        cm.tree.body.insert(at, stmt)


class Inliner:
    def __init__(self, prog, inventory):
        self.prog = prog
        self.inv_funcs = set(inventory["functions"]) | {new for new, _old in getattr(prog, "relocated", [])}
        self.inv_globals = set(inventory["globals"])
        self.inv_cattrs = set(inventory["class_attrs"])
        self.counter = 0
        self.inlined = []  # (caller, helper)
        self.const_subst = []

    # ---- helper lookup ------------------------------------------------------------------
    def _helper_for(self, caller, call):
        h, self_expr = self._helper_for0(caller, call)
        # a decorator wraps the function (a cache, a registration, a context manager): its body alone is not the callee
        if h is not None and any(d not in ("staticmethod", "classmethod") for d in h.decorators):
            return None, None
        return h, self_expr

    def _helper_for0(self, caller, call):
        """FunctionInfo of the new helper called by `call` inside `caller`, plus the expression bound to self (or None)"""
        self._cls_call_ok = False
        f = call.func
        prog = self.prog
        if isinstance(f, ast.Name):
            kind, q = prog.resolve(caller.module, f.id)
            if kind == "func" and q not in self.inv_funcs and q in prog.functions:
                h = prog.functions[q]
                if h.cls is None and h.parent is None:
                    return h, None
        if isinstance(f, ast.Attribute):
            # self._m(...) / cls._m(...) / ClassName._m(...) / module.helper(...)
            base = f.value
            if isinstance(base, ast.Name):
                if caller.cls is not None and base.id in (caller.params[:1] or []):
                    for c in [caller.cls]:
                        h = c.methods.get(f.attr)
                        if h is not None and h.qual not in self.inv_funcs and not h.is_property:
                            # cls.helper(...) inside a classmethod: the helper's `cls` is the caller's `cls`, whatever subclass it is
                            if h.is_classmethod and caller.is_classmethod:
                                self._cls_call_ok = True
                            return h, base
                kind, q = prog.resolve(caller.module, base.id)
                if kind == "class" and q in prog.classes:
                    h = prog.classes[q].methods.get(f.attr)
                    if h is not None and h.qual not in self.inv_funcs and (h.is_staticmethod or h.is_classmethod):
                        self._cls_call_ok = bool(h.is_classmethod)
                        return h, ast.Name(id=base.id, ctx=ast.Load())
                if kind == "module" and q in prog.modules:
                    h = prog.modules[q].functions.get(f.attr)
                    if h is not None and h.qual not in self.inv_funcs:
                        return h, None
            if isinstance(base, ast.Call) and dotted(base.func) == "type" and caller.cls is not None:
                h = caller.cls.methods.get(f.attr)
                if h is not None and h.qual not in self.inv_funcs and h.is_staticmethod:
                    return h, None
        return None, None

    def _bind(self, helper, call, self_expr, caller_names, pure_chains=False):
        """(prelude statements, Name->expr mapping, rename map) or None"""
        a = helper.node.args
        if a.kwarg:
            return None
        params = [x.arg for x in a.posonlyargs + a.args]
        mapping = {}
        prelude = []
        args = list(call.args)
        if any(isinstance(x, ast.Starred) for x in args) or any(k.arg is None for k in call.keywords):
            return None
        bound = {}
        start = 0
        if helper.cls is not None and not helper.is_staticmethod:
            if not params:
                return None
            bound[params[0]] = self_expr if self_expr is not None else ast.Name(id="self", ctx=ast.Load())
            start = 1
        rest = params[start:]
        extra_args = []
        if len(args) > len(rest):
            if not a.vararg:
                return None
            # *vararg: the surplus positional arguments, as the tuple the callee sees
            extra_args, args = args[len(rest):], args[:len(rest)]
        for p, v in zip(rest, args):
            bound[p] = v
        if a.vararg:
            if any(isinstance(n, ast.Name) and n.id == a.vararg.arg and isinstance(n.ctx, ast.Store) for n in ast.walk(helper.node)):
                return None
            if not all(_simple_arg(x) or isinstance(x, ast.Attribute) for x in extra_args):
                return None
            bound[a.vararg.arg] = ast.Tuple(elts=[copy.deepcopy(x) for x in extra_args], ctx=ast.Load())
        for k in call.keywords:
            if k.arg not in rest + [x.arg for x in a.kwonlyargs] or k.arg in bound:
                return None
            bound[k.arg] = k.value
        defaults = dict(zip(params[len(params) - len(a.defaults):], a.defaults))
        for x, d in zip(a.kwonlyargs, a.kw_defaults):
            if d is not None:
                defaults[x.arg] = d
        for p in rest + [x.arg for x in a.kwonlyargs]:
            if p not in bound:
                if p in defaults:
                    bound[p] = defaults[p]
                else:
                    return None
        # parameters that the helper re-binds must become real locals
        stores = {n.id for n in ast.walk(helper.node) if isinstance(n, ast.Name) and isinstance(n.ctx, ast.Store)}
        local_names = stores - set(bound)
        rename = {}
        for n in local_names:
            if n in caller_names:
                self.counter += 1
                rename[n] = f"{n}__h{self.counter}"
        for p, v in bound.items():
            uses = sum(1 for n in ast.walk(helper.node) if isinstance(n, ast.Name) and n.id == p and isinstance(n.ctx, ast.Load))
            chain_ok = False
            if pure_chains and p not in stores:
                # a pure attribute read (`term.data`) may be written where the parameter stood
                e_ = v
                while isinstance(e_, ast.Attribute):
                    e_ = e_.value
                chain_ok = isinstance(e_, ast.Name) and isinstance(v, ast.Attribute)
            vararg_tuple = a.vararg is not None and p == a.vararg.arg
            if p in stores or not (_simple_arg(v) or chain_ok or vararg_tuple):
                # bind through a temporary (keeps single evaluation)
                nm = p if p not in caller_names else None
                if nm is None:
                    self.counter += 1
                    nm = f"{p}__h{self.counter}"
                if isinstance(v, ast.Name) and v.id == nm:
                    continue
                prelude.append(ast.Assign(targets=[ast.Name(id=nm, ctx=ast.Store())], value=copy.deepcopy(v), lineno=call.lineno, col_offset=0))
                if nm != p:
                    rename[p] = nm
            else:
                mapping[p] = v
        return prelude, mapping, rename

    def _frame_sensitive_names(self):
        """names of functions that (transitively, by called name) look at the call stack: moving a call to one of
        them into another frame changes what it sees"""
        if getattr(self, "_fs", None) is not None:
            return self._fs
        names = set(FRAME_SENSITIVE)
        changed = True
        while changed:
            changed = False
            for f in self.prog.functions.values():
                if f.name in names:
                    continue
                for n in ast.walk(f.node):
                    if isinstance(n, ast.Call):
                        last = n.func.attr if isinstance(n.func, ast.Attribute) else (n.func.id if isinstance(n.func, ast.Name) else "")
                        # (eval / exec / locals / globals / vars look at the frame they are written in: a function using them is
                        # not inlined itself - see _eligible - but its callers see nothing of it)
                        if last in names and last not in BUILTIN_SCOPE_SENSITIVE:
                            names.add(f.name)
                            changed = True
                            break
        self._fs = names
        return names

    def _body(self, helper):
        body = list(helper.node.body)
        if body and isinstance(body[0], ast.Expr) and isinstance(body[0].value, ast.Constant) and isinstance(body[0].value.value, str):
            body = body[1:]
        return _search_loop_to_any(body)

    def _eligible(self, helper, caller):
        body = self._body(helper)
        if not body or len(body) > MAX_HELPER_STMTS or helper.qual == caller.qual:
            return False
        if helper.is_property:
            return False
        # a decorator wraps the function (a cache, a registration, a context): the body alone is not the callee
        if any(d not in ("staticmethod", "classmethod") for d in helper.decorators):
            return False
        if helper.module is not caller.module and self._free_globals(helper, caller) is None:
            return False
        # a classmethod called through the class name (`Cls._m(...)`) is a function of the class: `cls` is that name; called
        # through an instance it may see a subclass, so it is left alone
        if helper.is_classmethod and not getattr(self, "_cls_call_ok", False):
            return False
        if any(isinstance(n, (ast.Yield, ast.YieldFrom, ast.Global, ast.Nonlocal, ast.Lambda)) for n in ast.walk(helper.node)):
            return False
        # a helper that looks at the call stack / its own scope is not equivalent to its inlined body
        sensitive = self._frame_sensitive_names()
        for n in ast.walk(helper.node):
            if isinstance(n, ast.Call):
                d = (dotted(n.func) or "")
                last = d.split(".")[-1] if d else (n.func.attr if isinstance(n.func, ast.Attribute) else "")
                if isinstance(n.func, ast.Name) and n.func.id in BUILTIN_SCOPE_SENSITIVE:
                    return False
                if (last in sensitive and last not in BUILTIN_SCOPE_SENSITIVE) or d.startswith("inspect.") or d.startswith("sys._"):
                    return False
            if isinstance(n, ast.Attribute) and n.attr in ("f_back", "f_locals", "f_globals", "_getframe"):
                # reading a frame that was HANDED IN (a parameter, or a local derived from one) does not depend on where the
                # helper runs; obtaining a frame does (the calls above)
                base_ = n.value
                while isinstance(base_, ast.Attribute):
                    base_ = base_.value
                hp_ = set(helper.params) | {x.id for x in ast.walk(helper.node) if isinstance(x, ast.Name) and isinstance(x.ctx, ast.Store)}
                if n.attr == "_getframe" or not (isinstance(base_, ast.Name) and base_.id in hp_):
                    return False
        # no (mutual) recursion
        for c in ast.walk(helper.node):
            if isinstance(c, ast.Call) and (dotted(c.func) or "").split(".")[-1] == helper.name:
                return False
        return _tail_returns_only(body)

    # ---- hygiene of inlining across modules ---------------------------------------------
    def _free_globals(self, helper, caller):
        return free_globals(self.prog, helper.module, caller.module, helper.node)

    def _carry_imports(self, fn, helper):
        """add to the caller's module the imports the inlined body needs (the names are bound exactly as in the helper's module)"""
        if helper.module is not fn.module:
            add_imports(fn.module, self._free_globals(helper, fn) or {})

    # ---- statement-level inlining -------------------------------------------------------
    def inline_function(self, fn):
        changed = False
        caller_names = {n.id for n in ast.walk(fn.node) if isinstance(n, ast.Name)} | set(fn.params)
        fn.node.body, ch = self._inline_block(fn, fn.node.body, caller_names)
        changed = changed or ch
        if changed:
            ast.fix_missing_locations(fn.node)
        return changed

    def _inline_block(self, fn, stmts, caller_names):
        out = []
        changed = False
        for s in stmts:
            # recurse into compound statements first
            for fld in ("body", "orelse", "finalbody"):
                if hasattr(s, fld) and isinstance(getattr(s, fld), list) and not isinstance(s, (ast.FunctionDef, ast.ClassDef)):
                    new, ch = self._inline_block(fn, getattr(s, fld), caller_names)
                    setattr(s, fld, new)
                    changed = changed or ch
            if isinstance(s, ast.Try):
                for h in s.handlers:
                    h.body, ch = self._inline_block(fn, h.body, caller_names)
                    changed = changed or ch
            repl = self._inline_stmt(fn, s, caller_names)
            if repl is not None:
                out.extend(repl)
                changed = True
            else:
                out.append(s)
        return out, changed

    def _header_exprs(self, s):
        """expressions evaluated unconditionally, once, when the statement starts"""
        if isinstance(s, (ast.Assign, ast.AnnAssign, ast.AugAssign)):
            return [s.value] if s.value is not None else []
        if isinstance(s, (ast.Expr, ast.Return)):
            return [s.value] if s.value is not None else []
        if isinstance(s, ast.If):
            return [s.test]
        if isinstance(s, ast.For):
            return [s.iter]
        if isinstance(s, ast.Raise):
            return [s.exc] if s.exc is not None else []
        return []

    def _find_call(self, fn, s):
        """first call to an inlinable new helper evaluated unconditionally in the header of s"""
        for hdr in self._header_exprs(s):
            # not inside comprehensions, lambdas, boolean short-circuits or conditional expressions
            blocked = set()
            for n in ast.walk(hdr):
                if isinstance(n, (ast.ListComp, ast.SetComp, ast.DictComp, ast.GeneratorExp, ast.Lambda, ast.IfExp)):
                    for x in ast.walk(n):
                        if x is not n:
                            blocked.add(id(x))
                if isinstance(n, ast.BoolOp):
                    for v in n.values[1:]:
                        for x in ast.walk(v):
                            blocked.add(id(x))
            for n in ast.walk(hdr):
                if isinstance(n, ast.Call) and id(n) not in blocked:
                    h, self_expr = self._helper_for(fn, n)
                    if h is not None and self._eligible(h, fn):
                        self._expr_context = False
                        return hdr, n, h, self_expr
        # calls inside comprehensions / short-circuits: only expression helpers (single return) can be inlined there, and only by
        # substitution in place (nothing can be hoisted in front of the statement: the arguments may use comprehension variables)
        for hdr in self._header_exprs(s):
            for n in ast.walk(hdr):
                if isinstance(n, ast.Call):
                    h, self_expr = self._helper_for(fn, n)
                    if h is not None and self._eligible(h, fn):
                        body = self._body(h)
                        if len(body) == 1 and isinstance(body[0], ast.Return):
                            self._expr_context = True
                            return hdr, n, h, self_expr
        return None

    def _inline_generator_loop(self, fn, s, caller_names):
        """for T in G(args): BODY   with G a new generator helper  ->  G's body with every `yield e` replaced by
        `T = e; BODY` (the statements of a generator interleave with the loop body exactly like that)"""
        if not (isinstance(s, ast.For) and isinstance(s.iter, ast.Call) and not s.orelse):
            return None
        h, self_expr = self._helper_for(fn, s.iter)
        if h is None or h.qual == fn.qual or h.nested or h.is_property or h.is_classmethod:
            return None
        if any(d != "staticmethod" for d in h.decorators) or (h.module is not fn.module and self._free_globals(h, fn) is None):
            return None
        hb = self._body(h)
        yields = [n for x in hb for n in ast.walk(x) if isinstance(n, (ast.Yield, ast.YieldFrom))]
        if not yields or len(yields) > 2 or any(isinstance(y, ast.YieldFrom) or y.value is None for y in yields):
            return None
        if len(hb) > MAX_HELPER_STMTS:
            return None
        # yields must be plain expression statements, outside try/with; no return value, no nested defs
        ystm = [x for b in hb for x in ast.walk(b) if isinstance(x, ast.Expr) and isinstance(x.value, ast.Yield)]
        if len(ystm) != len(yields):
            return None
        for b in hb:
            for x in ast.walk(b):
                if isinstance(x, (ast.Try, ast.With, ast.FunctionDef, ast.ClassDef, ast.Lambda, ast.Global, ast.Nonlocal, ast.While)):
                    return None
                if isinstance(x, ast.Return) and x.value is not None:
                    return None
                if isinstance(x, ast.Return):
                    return None
        sensitive = self._frame_sensitive_names()
        for x in ast.walk(h.node):
            if isinstance(x, ast.Call):
                d = dotted(x.func) or ""
                last = d.split(".")[-1] if d else (x.func.attr if isinstance(x.func, ast.Attribute) else "")
                if (isinstance(x.func, ast.Name) and x.func.id in BUILTIN_SCOPE_SENSITIVE) or (last in sensitive and last not in BUILTIN_SCOPE_SENSITIVE):
                    return None
        # the loop body must not steer the generator: break/continue at its own level would act on the helper's loop
        def steers(stmts):
            for x in stmts:
                if isinstance(x, (ast.Break, ast.Continue)):
                    return True
                if isinstance(x, (ast.For, ast.While, ast.FunctionDef, ast.ClassDef)):
                    continue
                for fld in ("body", "orelse", "finalbody"):
                    if steers(getattr(x, fld, []) or []):
                        return True
                if isinstance(x, ast.Try) and any(steers(hh.body) for hh in x.handlers):
                    return True
            return False

        if steers(s.body):
            return None
        b = self._bind(h, s.iter, self_expr, caller_names)
        if b is None:
            return None
        prelude, mapping, rename = b
        body = [_Subst(mapping, rename).visit(copy.deepcopy(x)) for x in hb]

        def repl(stmts):
            out = []
            for x in stmts:
                if isinstance(x, ast.Expr) and isinstance(x.value, ast.Yield):
                    out.append(ast.Assign(targets=[copy.deepcopy(s.target)], value=x.value.value, lineno=s.lineno, col_offset=0))
                    out.extend(copy.deepcopy(y) for y in s.body)
                    continue
                for fld in ("body", "orelse"):
                    if hasattr(x, fld) and isinstance(getattr(x, fld), list):
                        setattr(x, fld, repl(getattr(x, fld)))
                out.append(x)
            return out

        body = repl(body)
        for x in body:
            for n in ast.walk(x):
                if hasattr(n, "lineno"):
                    n.lineno = s.lineno
                    n.end_lineno = s.lineno
        self.inlined.append((fn.qual, h.qual))
        self._carry_imports(fn, h)
        caller_names |= set(rename.values()) | {n.id for x in body for n in ast.walk(x) if isinstance(n, ast.Name)}
        return prelude + body

    def _inline_stmt(self, fn, s, caller_names):
        gen = self._inline_generator_loop(fn, s, caller_names)
        if gen is not None:
            return gen
        found = self._find_call(fn, s)
        if found is None:
            return None
        hdr, call, h, self_expr = found
        expr_ctx = getattr(self, "_expr_context", False)
        b = self._bind(h, call, self_expr, caller_names, pure_chains=expr_ctx)
        if b is None:
            return None
        prelude, mapping, rename = b
        if expr_ctx and prelude:
            return None   # an argument would have to be bound in front of the statement: not possible inside a comprehension
        body = [copy.deepcopy(x) for x in self._body(h)]
        sub = _Subst(mapping, rename)
        body = [sub.visit(x) for x in body]
        for x in body:
            for n in ast.walk(x):
                if hasattr(n, "lineno"):
                    n.lineno = call.lineno
                    n.end_lineno = call.lineno
        self.inlined.append((fn.qual, h.qual))
        self._carry_imports(fn, h)
        caller_names |= set(rename.values()) | {n.id for x in body for n in ast.walk(x) if isinstance(n, ast.Name)}
        # expression helper: substitute in place
        if len(body) == 1 and isinstance(body[0], ast.Return) and not prelude:
            expr = body[0].value if body[0].value is not None else ast.Constant(value=None)
            _replace_node(s, call, expr)
            return [s]
        # `return H(...)`: the helper's returns become the caller's returns
        if isinstance(s, ast.Return) and s.value is call:
            # a helper that can fall off its end returns None there: the caller returns at that point too
            from .core import block_terminates
            if not block_terminates(body):
                body = body + [ast.Return(value=ast.Constant(value=None), lineno=call.lineno, col_offset=0)]
            return prelude + body
        # `x = H(...)`: the helper's returns assign x
        if isinstance(s, ast.Assign) and s.value is call and len(s.targets) == 1:
            tgt = s.targets[0]

            def mk(e, at):
                return [ast.Assign(targets=[copy.deepcopy(tgt)], value=e, lineno=call.lineno, col_offset=0)]

            st = _structured(body, mk)
            if st is None:
                return None
            return prelude + st
        # bare call statement
        if isinstance(s, ast.Expr) and s.value is call:
            def mk2(e, at):
                return [] if isinstance(e, ast.Constant) else [ast.Expr(value=e, lineno=call.lineno, col_offset=0)]

            st = _structured(body, mk2)
            if st is None:
                return None
            return prelude + (st or [ast.Pass(lineno=call.lineno, col_offset=0)])
        # general position: hoist the body, bind the result to a temporary
        self.counter += 1
        rv = f"{h.name.strip('_')}__r{self.counter}"

        def mk3(e, at):
            return [ast.Assign(targets=[ast.Name(id=rv, ctx=ast.Store())], value=e, lineno=call.lineno, col_offset=0)]

        st = _structured(body, mk3)
        if st is None:
            return None
        # a single `rv = e` can be substituted directly
        if len(st) == 1 and isinstance(st[0], ast.Assign) and not prelude:
            _replace_node(s, call, st[0].value)
            return [s]
        _replace_node(s, call, ast.Name(id=rv, ctx=ast.Load()))
        caller_names.add(rv)
        return prelude + st + [s]

    # ---- constants ------------------------------------------------------------------------
    def propagate_constants(self):
        prog = self.prog
        new_globals = {}
        for m in prog.modules.values():
            for g, vals in m.globals.items():
                q = f"{m.name}.{g}"
                if q not in self.inv_globals and len(vals) == 1 and vals[0] is not None and (_is_literal(vals[0]) or self._class_tuple(m, vals[0])):
                    new_globals[q] = vals[0]
        new_cattrs = {}
        for c in prog.classes.values():
            for a, v in c.class_attrs.items():
                q = f"{c.qual}.{a}"
                if q not in self.inv_cattrs and _is_literal(v):
                    new_cattrs[(c.qual, a)] = v
        # a constant may only be propagated when nothing in the program can change it: never re-bound (global
        # declaration, attribute store of that name, setattr), and - for mutable displays - only ever used read-only
        rebound = set()
        star_classes = set()
        for f in prog.functions.values():
            for n in ast.walk(f.node):
                if isinstance(n, (ast.Global, ast.Nonlocal)):
                    rebound.update(n.names)
                if isinstance(n, ast.Attribute) and isinstance(n.ctx, (ast.Store, ast.Del)):
                    rebound.add(n.attr)
                if isinstance(n, ast.Call) and dotted(n.func) in ("setattr", "delattr", "object.__setattr__"):
                    if len(n.args) >= 2 and isinstance(n.args[1], ast.Constant):
                        rebound.add(n.args[1].value)
                    elif n.args and isinstance(n.args[0], ast.Name) and n.args[0].id == "self" and f.cls is not None:
                        star_classes.add(f.cls.qual)  # only instances of that class are touched
                    else:
                        rebound.add("*")
        for m in prog.modules.values():
            for n in ast.walk(m.tree):
                if isinstance(n, ast.Attribute) and isinstance(n.ctx, (ast.Store, ast.Del)):
                    rebound.add(n.attr)

        def mutable(v):
            return any(isinstance(x, (ast.List, ast.Dict, ast.Set)) for x in ast.walk(v))

        def readonly_everywhere(name, is_attr):
            for f in prog.functions.values():
                parents = {}
                for par in ast.walk(f.node):
                    for ch in ast.iter_child_nodes(par):
                        parents[id(ch)] = par
                for n in ast.walk(f.node):
                    hit = (isinstance(n, ast.Attribute) and n.attr == name) if is_attr else (isinstance(n, ast.Name) and n.id == name)
                    if not hit:
                        continue
                    par = parents.get(id(n))
                    if isinstance(par, ast.Subscript) and par.value is n and isinstance(par.ctx, ast.Load):
                        continue
                    if isinstance(par, ast.Compare) and n in par.comparators and all(isinstance(o, (ast.In, ast.NotIn)) for o in par.ops):
                        continue
                    if isinstance(par, ast.Attribute) and par.value is n and par.attr in ("get", "items", "keys", "values", "index", "count"):
                        continue
                    if isinstance(par, (ast.For, ast.comprehension)) and par.iter is n:
                        continue
                    if isinstance(par, ast.Call) and n in par.args and dotted(par.func) in ("len", "tuple", "sorted", "list", "set", "frozenset", "dict", "isinstance"):
                        continue
                    return False
            return True

        for q in list(new_globals):
            g = q.rsplit(".", 1)[1]
            if g in rebound or "*" in rebound or (mutable(new_globals[q]) and not readonly_everywhere(g, False)):
                del new_globals[q]
        for (cq, a) in list(new_cattrs):
            if a in rebound or "*" in rebound or cq in star_classes or (mutable(new_cattrs[(cq, a)]) and not readonly_everywhere(a, True)):
                del new_cattrs[(cq, a)]
        if not new_globals and not new_cattrs:
            return
        def home_module(q):
            return prog.modules.get(q.rsplit(".", 1)[0])

        def hygienic(value, src, dst):
            """names inside the constant (a tuple of classes) must mean in dst what they mean in src"""
            if src is dst:
                return True
            for n in ast.walk(value):
                if isinstance(n, ast.Name) and n.id not in BUILTIN_TYPE_NAMES:
                    if src is None or prog.resolve(src, n.id) != prog.resolve(dst, n.id) or prog.resolve(dst, n.id)[0] == "ext" and n.id not in dst.imports:
                        return False
            return True

        def make_T(module, cls, stores, label):
            class T(ast.NodeTransformer):
                def visit_Name(s_, node):
                    if isinstance(node.ctx, ast.Load) and node.id not in stores:
                        kind, q = prog.resolve(module, node.id)
                        if kind == "var" and q in new_globals and hygienic(new_globals[q], home_module(q), module):
                            self.const_subst.append((label, q))
                            return ast.copy_location(copy.deepcopy(new_globals[q]), node)
                    return node

                def visit_Attribute(s_, node):
                    s_.generic_visit(node)
                    if isinstance(node.ctx, ast.Load) and isinstance(node.value, ast.Name):
                        cq = None
                        if cls is not None and node.value.id in ("self", "cls") or (cls is not None and node.value.id == cls.name):
                            cq = cls.qual
                        else:
                            kind, q = prog.resolve(module, node.value.id)
                            if kind == "class":
                                cq = q
                            elif kind == "module" and f"{q}.{node.attr}" in new_globals and hygienic(new_globals[f"{q}.{node.attr}"], prog.modules.get(q), module):
                                self.const_subst.append((label, f"{q}.{node.attr}"))
                                return ast.copy_location(copy.deepcopy(new_globals[f"{q}.{node.attr}"]), node)
                        if cq and (cq, node.attr) in new_cattrs and hygienic(new_cattrs[(cq, node.attr)], prog.classes[cq].module if cq in prog.classes else None, module):
                            self.const_subst.append((label, f"{cq}.{node.attr}"))
                            return ast.copy_location(copy.deepcopy(new_cattrs[(cq, node.attr)]), node)
                    return node

            return T()

        for fq, f in prog.functions.items():
            stores = {n.id for n in ast.walk(f.node) if isinstance(n, ast.Name) and isinstance(n.ctx, ast.Store)} | set(f.params)
            make_T(f.module, f.cls, stores, fq).visit(f.node)
            ast.fix_missing_locations(f.node)
        # the values of class attributes and module globals (tables keyed by the new constants)
        for m in prog.modules.values():
            for st in m.tree.body:
                if isinstance(st, (ast.Assign, ast.AnnAssign)) and st.value is not None:
                    q_self = {f"{m.name}.{t.id}" for t in (st.targets if isinstance(st, ast.Assign) else [st.target]) if isinstance(t, ast.Name)}
                    if q_self & set(new_globals):
                        continue
                    old_v = st.value
                    st.value = make_T(m, None, set(), f"{m.name}.<module>").visit(st.value)
                    ast.fix_missing_locations(st)
                    for g, vals in m.globals.items():
                        m.globals[g] = [st.value if v is old_v else v for v in vals]
                elif isinstance(st, ast.ClassDef):
                    c = m.classes.get(st.name)
                    for cs in st.body:
                        if isinstance(cs, (ast.Assign, ast.AnnAssign)) and cs.value is not None and c is not None:
                            names = [t.id for t in (cs.targets if isinstance(cs, ast.Assign) else [cs.target]) if isinstance(t, ast.Name)]
                            if any((c.qual, a) in new_cattrs for a in names):
                                continue
                            class_level = {x.id for x2 in st.body if isinstance(x2, (ast.Assign, ast.AnnAssign)) for x in ast.walk(x2) if isinstance(x, ast.Name) and isinstance(x.ctx, ast.Store)}
                            old_v = cs.value
                            cs.value = make_T(m, None, class_level, f"{c.qual}.<class>").visit(cs.value)
                            ast.fix_missing_locations(cs)
                            for a in names:
                                if c.class_attrs.get(a) is old_v:
                                    c.class_attrs[a] = cs.value

    def _class_tuple(self, m, v):
        """`(Variable, Call, Term)`: a tuple of classes of the package / builtin types (for isinstance): immutable, and a class
        name is bound once in its module"""
        if not (isinstance(v, ast.Tuple) and v.elts):
            return False
        for e in v.elts:
            if isinstance(e, ast.Name) and e.id in BUILTIN_TYPE_NAMES:
                continue
            if not (isinstance(e, ast.Name) and self.prog.resolve(m, e.id)[0] == "class" and len(m.globals.get(e.id, [])) == 0):
                return False
        return True

    def inline_properties(self):
        """N1b: a NEW read-only property whose body is `return <expression over self>` is replaced, at every `self.<name>`
        read inside its class, by that expression"""
        for c in self.prog.classes.values():
            for name, h in list(c.methods.items()):
                if not h.is_property or h.qual in self.inv_funcs or name in c.setters:
                    continue
                body = self._body(h)
                if len(body) != 1 or not isinstance(body[0], ast.Return) or body[0].value is None:
                    continue
                expr = body[0].value
                if any(isinstance(n, (ast.Call, ast.Lambda, ast.Yield, ast.Await)) for n in ast.walk(expr)):
                    continue
                selfname = h.params[0] if h.params else "self"
                for m in c.methods.values():
                    if m is h:
                        continue
                    mself = m.params[0] if m.params else None
                    if mself is None or m.is_staticmethod:
                        continue
                    # the receiver must be the method's own self, never re-bound
                    if any(isinstance(n, ast.Name) and n.id == mself and isinstance(n.ctx, ast.Store) for n in ast.walk(m.node)):
                        continue
                    hit = [False]

                    class T(ast.NodeTransformer):
                        def visit_Attribute(s_, n):
                            s_.generic_visit(n)
                            if isinstance(n.ctx, ast.Load) and n.attr == name and isinstance(n.value, ast.Name) and n.value.id == mself:
                                hit[0] = True
                                return ast.copy_location(_Subst({selfname: ast.Name(id=mself, ctx=ast.Load())}, {}).visit(copy.deepcopy(expr)), n)
                            return n

                    T().visit(m.node)
                    if hit[0]:
                        ast.fix_missing_locations(m.node)
                        self.inlined.append((m.qual, h.qual))

    def expand_updates(self):
        """`X.update(G(args))` with G a new generator helper  ->  `for (k, v) in G(args): X[k] = v` (what dict.update does with
        an iterable of pairs); the generator-loop rule below then brings G's body in"""
        n = 0
        for q, f in list(self.prog.functions.items()):
            if f.parent is not None:
                continue
            for parent in ast.walk(f.node):
                for fld in ("body", "orelse", "finalbody"):
                    stmts = getattr(parent, fld, None)
                    if not isinstance(stmts, list):
                        continue
                    for i, s in enumerate(stmts):
                        v = s.value if isinstance(s, ast.Expr) else None
                        if not (isinstance(v, ast.Call) and isinstance(v.func, ast.Attribute) and v.func.attr == "update" and len(v.args) == 1
                                and not v.keywords and isinstance(v.args[0], ast.Call)):
                            continue
                        h, _self = self._helper_for(f, v.args[0])
                        if h is None or not any(isinstance(x, ast.Yield) for x in ast.walk(h.node)):
                            continue
                        recv = v.func.value
                        if not (isinstance(recv, ast.Name) or (isinstance(recv, ast.Attribute) and isinstance(recv.value, ast.Name))):
                            continue
                        k, val = f"k__upd{n}", f"v__upd{n}"
                        n += 1
                        store = ast.Assign(targets=[ast.Subscript(value=copy.deepcopy(recv), slice=ast.Name(id=k, ctx=ast.Load()), ctx=ast.Store())],
                                           value=ast.Name(id=val, ctx=ast.Load()))
                        loop = ast.For(target=ast.Tuple(elts=[ast.Name(id=k, ctx=ast.Store()), ast.Name(id=val, ctx=ast.Store())], ctx=ast.Store()),
                                       iter=v.args[0], body=[store], orelse=[])
                        ast.copy_location(loop, s)
                        ast.fix_missing_locations(loop)
                        stmts[i] = loop
        return n

    def expand_generator_lists(self):
        """`S[list(G(args))]` with G a new generator helper and S a return / assignment that merely wraps the call
        (`np.column_stack(list(G(x, y)))`)  ->  `t = []; for e in G(args): t.append(e); S[t]`; the generator-loop rule then
        brings G's body in"""
        n = 0

        def simple(e):
            while isinstance(e, ast.Attribute):
                e = e.value
            if isinstance(e, ast.Call) and dotted(e.func) in ("set", "list", "dict", "frozenset", "tuple") and not e.args and not e.keywords:
                return True  # `set().union(...)`: an empty container made on the spot
            return isinstance(e, (ast.Name, ast.Constant))

        for q, f in list(self.prog.functions.items()):
            if f.parent is not None:
                continue
            for parent in ast.walk(f.node):
                for fld in ("body", "orelse", "finalbody"):
                    stmts = getattr(parent, fld, None)
                    if not isinstance(stmts, list):
                        continue
                    i = 0
                    while i < len(stmts):
                        s = stmts[i]
                        i += 1
                        if not (isinstance(s, (ast.Return, ast.Assign)) and s.value is not None):
                            continue
                        # path of wrapping calls from the statement's value down to list(G(...))
                        node, target = s.value, None
                        chain_ok = True
                        star = None
                        while True:
                            if isinstance(node, ast.Call) and dotted(node.func) in ("list", "tuple") and len(node.args) == 1 and not node.keywords \
                                    and isinstance(node.args[0], ast.Call):
                                h, _self = self._helper_for(f, node.args[0])
                                if h is not None and any(isinstance(x, ast.Yield) for x in ast.walk(h.node)):
                                    target = node
                                    break
                            if not (isinstance(node, ast.Call) and simple(node.func)):
                                chain_ok = False
                                break
                            # f(*G(args)): unpacking a generator is unpacking the list of what it yields
                            stars = [a for a in node.args if isinstance(a, ast.Starred) and isinstance(a.value, ast.Call)]
                            if len(stars) == 1 and len(node.args) == 1 and not node.keywords:
                                h, _self = self._helper_for(f, stars[0].value)
                                if h is not None and any(isinstance(x, ast.Yield) for x in ast.walk(h.node)):
                                    star = stars[0]
                                    wrapped = ast.Call(func=ast.Name(id="list", ctx=ast.Load()), args=[star.value], keywords=[])
                                    ast.copy_location(wrapped, star.value)
                                    ast.fix_missing_locations(wrapped)
                                    star.value = wrapped
                                    target = wrapped
                                    break
                            inner = [a for a in node.args if isinstance(a, ast.Call)]
                            others = [a for a in node.args if not isinstance(a, ast.Call)] + [k.value for k in node.keywords]
                            if len(inner) != 1 or not all(simple(a) for a in others):
                                chain_ok = False
                                break
                            node = inner[0]
                        if not chain_ok or target is None or dotted(target.func) != "list":
                            continue
                        tmp, el = f"gen__list{n}", f"gen__item{n}"
                        n += 1
                        init = ast.Assign(targets=[ast.Name(id=tmp, ctx=ast.Store())], value=ast.List(elts=[], ctx=ast.Load()))
                        app = ast.Expr(value=ast.Call(func=ast.Attribute(value=ast.Name(id=tmp, ctx=ast.Load()), attr="append", ctx=ast.Load()),
                                                      args=[ast.Name(id=el, ctx=ast.Load())], keywords=[]))
                        loop = ast.For(target=ast.Name(id=el, ctx=ast.Store()), iter=target.args[0], body=[app], orelse=[])
                        for x in (init, loop):
                            ast.copy_location(x, s)
                            ast.fix_missing_locations(x)
                        _replace_node(s, target, ast.copy_location(ast.Name(id=tmp, ctx=ast.Load()), target))
                        stmts[i - 1:i - 1] = [init, loop]
                        i += 2
        return n

    def raising_helpers(self):
        """A NEW helper every path of which ends in `raise` never returns: the statement `_fail(msg, x)` (or `return _fail(...)`)
        is `raise E(msg, x)` with E the one exception class the helper raises (a class name, or the helper's parameter that the
        call binds to a class name).  Message texts are not part of any rule; position and class of the exception are."""
        prog = self.prog

        def always_raises(stmts):
            if not stmts:
                return False
            last = stmts[-1]
            if isinstance(last, ast.Raise):
                return True
            if isinstance(last, ast.If):
                return bool(last.orelse) and always_raises(last.body) and always_raises(last.orelse)
            return False

        helpers = {}
        for q, h in prog.functions.items():
            if q in self.inv_funcs or h.parent is not None or h.decorators and any(d not in ("staticmethod",) for d in h.decorators):
                continue
            body = self._body(h)
            if not always_raises(body) or any(isinstance(n, (ast.Return, ast.Yield, ast.YieldFrom)) for n in ast.walk(h.node)):
                continue
            if any(isinstance(n, (ast.For, ast.While, ast.Try, ast.With)) for n in ast.walk(h.node)):
                continue
            raises = [n for n in ast.walk(h.node) if isinstance(n, ast.Raise)]
            excs = set()
            for r_ in raises:
                e = r_.exc
                if isinstance(e, ast.Call):
                    e = e.func
                excs.add(unparse(e) if isinstance(e, (ast.Name, ast.Attribute)) else None)
            if len(excs) != 1 or None in excs:
                continue
            # no other effect than building the message: assignments to locals and the raise
            if any(isinstance(n, (ast.Attribute, ast.Subscript)) and isinstance(n.ctx, (ast.Store, ast.Del)) for n in ast.walk(h.node)):
                continue
            helpers[q] = (h, excs.pop())
        if not helpers:
            return
        by_name = {}
        for q, (h, e) in helpers.items():
            by_name.setdefault(h.name, []).append(q)

        def rewrite(fn, stmts):
            out = []
            for st in stmts:
                for fld in ("body", "orelse", "finalbody"):
                    sub = getattr(st, fld, None)
                    if isinstance(sub, list) and sub and isinstance(sub[0], ast.stmt) and not isinstance(st, (ast.FunctionDef, ast.ClassDef)):
                        setattr(st, fld, rewrite(fn, sub))
                for hd in getattr(st, "handlers", []) or []:
                    hd.body = rewrite(fn, hd.body)
                call = st.value if isinstance(st, (ast.Expr, ast.Return)) and isinstance(st.value, ast.Call) else None
                if call is not None:
                    h, _self = self._helper_for0(fn, call)
                    if h is not None and h.qual in helpers and h.qual != fn.qual:
                        hh, exc = helpers[h.qual]
                        params = hh.params[1:] if (hh.cls is not None and not hh.is_staticmethod) else hh.params
                        exc_node = None
                        if exc in params:
                            i = params.index(exc)
                            arg = call.args[i] if i < len(call.args) else next((k.value for k in call.keywords if k.arg == exc), None)
                            if isinstance(arg, (ast.Name, ast.Attribute)):
                                exc_node = copy.deepcopy(arg)
                                rest = [a for j, a in enumerate(call.args) if j != i]
                        else:
                            exc_node = ast.parse(exc, mode="eval").body
                            rest = list(call.args)
                        if exc_node is not None and not any(isinstance(a, ast.Starred) for a in call.args):
                            new = ast.Raise(exc=ast.Call(func=exc_node, args=[copy.deepcopy(a) for a in rest] + [copy.deepcopy(k.value) for k in call.keywords if k.arg != exc], keywords=[]), cause=None)
                            ast.copy_location(new, st)
                            ast.fix_missing_locations(new)
                            out.append(new)
                            self.inlined.append((fn.qual, h.qual))
                            continue
                out.append(st)
            return out

        for q, fn in list(prog.functions.items()):
            if fn.parent is not None or q in helpers:
                continue
            if not any(isinstance(n, ast.Call) and ((dotted(n.func) or "").split(".")[-1] in by_name) for n in ast.walk(fn.node)):
                continue
            fn.node.body = rewrite(fn, fn.node.body)
            ast.fix_missing_locations(fn.node)

    def run(self):
        self.propagate_constants()
        self.raising_helpers()
        self.inline_properties()
        self.expand_updates()
        self.expand_generator_lists()
        for _ in range(MAX_ROUNDS):
            changed = False
            for q, f in list(self.prog.functions.items()):
                if f.parent is not None:
                    continue
                if self.inline_function(f):
                    changed = True
            if not changed:
                break
        return self


def _replace_node(root, old, new):
    for parent in ast.walk(root):
        for fld, val in ast.iter_fields(parent):
            if val is old:
                setattr(parent, fld, new)
                return True
            if isinstance(val, list):
                for i, x in enumerate(val):
                    if x is old:
                        val[i] = new
                        return True
    return False


def flatten_new_bases(prog, inv):
    """N3: a class of the reference inventory that now inherits from a NEW program class (one that is not in the inventory:
    the result of a 'pull up into a base class' refactoring) gets that base's methods, property setters and class
    attributes copied in, unless it overrides them - the rules then see each concrete class with its complete behaviour.
    Returns [(class, new base)]."""
    inv_classes = {f.rsplit(".", 1)[0] for f in inv["functions"]} | {a.rsplit(".", 1)[0] for a in inv["class_attrs"]}
    done = []
    for _ in range(4):
        changed = False
        for c in list(prog.classes.values()):
            for b in c.node.bases:
                d = dotted(b)
                if d is None or "." in d:
                    continue
                kind, q = prog.resolve(c.module, d)
                if kind != "class" or q not in prog.classes or q in inv_classes:
                    continue
                base = prog.classes[q]
                if (c.qual, base.qual) in done:
                    continue
                if base.module is not c.module:
                    # the methods move to another module: their free names must keep their meaning there
                    needs = [free_globals(prog, base.module, c.module, m_.node) for m_ in list(base.methods.values()) + list(base.setters.values())]
                    if any(x is None for x in needs):
                        continue
                    for x in needs:
                        add_imports(c.module, x)
                for name, m in list(base.methods.items()) + [(n + ".setter", m_) for n, m_ in base.setters.items()]:
                    is_setter = name.endswith(".setter")
                    plain = name[:-7] if is_setter else name
                    if (is_setter and plain in c.setters) or (not is_setter and plain in c.methods):
                        continue
                    node = copy.deepcopy(m.node)
                    c.node.body.append(node)
                    f = prog._add_function(c.module, node, c, None, c.qual)
                    if is_setter:
                        c.setters[plain] = f
                    else:
                        c.methods[plain] = f
                for a, v in base.class_attrs.items():
                    c.class_attrs.setdefault(a, v)
                # `super().m(args)` statements in the subclass that reach the new base's m: the base's body, with its parameters
                # bound to the arguments (only for bodies without return values / nested defs; `self` is the same object)
                for mname, m in list(c.methods.items()):
                    _inline_super_calls(m, base)
                # the base is folded in: the class no longer depends on it
                c.node.bases = [x for x in c.node.bases if x is not b]
                if hasattr(c, "bases") and isinstance(c.bases, list) and d in c.bases:
                    c.bases = [x for x in c.bases if x != d]
                done.append((c.qual, base.qual))
                changed = True
        if not changed:
            break
    return done


def _inline_super_calls(m, base):
    """replace expression statements `super().name(a, b)` in method m by the body of base.name (a new base class)"""
    def walk(stmts):
        out = []
        for st in stmts:
            for fld in ("body", "orelse", "finalbody"):
                sub = getattr(st, fld, None)
                if isinstance(sub, list) and sub and isinstance(sub[0], ast.stmt) and not isinstance(st, (ast.FunctionDef, ast.ClassDef)):
                    setattr(st, fld, walk(sub))
            v = st.value if isinstance(st, ast.Expr) else None
            if isinstance(v, ast.Call) and isinstance(v.func, ast.Attribute) and isinstance(v.func.value, ast.Call) \
                    and dotted(v.func.value.func) == "super" and not v.func.value.args:
                bm = base.methods.get(v.func.attr)
                if bm is not None and not v.keywords and not any(isinstance(a, ast.Starred) for a in v.args):
                    params = [a.arg for a in bm.node.args.posonlyargs + bm.node.args.args]
                    body = [x for x in bm.node.body if not (isinstance(x, ast.Expr) and isinstance(x.value, ast.Constant) and isinstance(x.value.value, str))]
                    simple = all(isinstance(x, (ast.Assign, ast.AugAssign, ast.Expr, ast.Pass, ast.If)) for x in body) and \
                        not any(isinstance(n, (ast.Return, ast.Yield, ast.FunctionDef, ast.Lambda)) for x in body for n in ast.walk(x)) \
                        and not any(isinstance(n, ast.Call) and dotted(n.func) == "super" for x in body for n in ast.walk(x))
                    self_name = m.params[0] if m.params else "self"
                    if simple and params and len(v.args) == len(params) - 1 - len(bm.node.args.defaults or []) + 0 or \
                            (simple and params and len(params) - 1 - len(bm.node.args.defaults) <= len(v.args) <= len(params) - 1):
                        mapping = {params[0]: ast.Name(id=self_name, ctx=ast.Load())}
                        for p_, a_ in zip(params[1:], v.args):
                            mapping[p_] = a_
                        defaults = dict(zip(params[len(params) - len(bm.node.args.defaults):], bm.node.args.defaults))
                        for p_ in params[1:]:
                            if p_ not in mapping and p_ in defaults:
                                mapping[p_] = defaults[p_]
                        if all(p_ in mapping for p_ in params) and all(_simple_arg(a_) for a_ in mapping.values()):
                            sub = _Subst(mapping, {})
                            new = [sub.visit(copy.deepcopy(x)) for x in body] or [ast.Pass()]
                            for x in new:
                                ast.copy_location(x, st)
                                ast.fix_missing_locations(x)
                            out.extend(new)
                            continue
            out.append(st)
        return out

    m.node.body = walk(m.node.body)


def normalise_expressions(prog):
    """N0: expression-level normal forms in every function (after the swap, so reference forms get them too): `not a in b` ->
    `a not in b`, `not a is b` -> `a is not b`, double negation of tests, flattened and/or, getattr(x, 'name') -> x.name,
    folded constant string pieces.  Statement structure, names and literals are left alone: these are the spellings a rule that
    compares a small expression must not depend on."""
    from .canon import _Expr

    class N0(_Expr):
        # only the rewrites that keep the familiar spelling of the reference code
        PAIR_SOURCES = ("product", "itertools.product")   # the reference writes p[0] / p[1] over product(...) only
        def visit_Compare(self, node):
            self.generic_visit(node)
            g = self._getattr_compare(node)
            return g if g is not None else node

        def visit_Call(self, node):
            self.generic_visit(node)
            from .canon import _getattr_const
            return _getattr_const(node)

        def visit_Raise(self, node):
            self.generic_visit(node)
            return node

    def split_tuple_assignments(stmts):
        """`a, b = (e1, e2)` -> `a = e1; b = e2` when no later right-hand side reads an earlier target (then evaluating all
        right-hand sides first and assigning one by one are the same)"""
        out = []
        for st in stmts:
            for fld in ("body", "orelse", "finalbody"):
                sub = getattr(st, fld, None)
                if isinstance(sub, list) and sub and isinstance(sub[0], ast.stmt) and not isinstance(st, (ast.FunctionDef, ast.ClassDef)):
                    setattr(st, fld, split_tuple_assignments(sub))
            if isinstance(st, ast.Try):
                for h in st.handlers:
                    h.body = split_tuple_assignments(h.body)
            if isinstance(st, ast.Assign) and len(st.targets) == 1 and isinstance(st.targets[0], ast.Tuple) and isinstance(st.value, ast.Tuple) \
                    and len(st.targets[0].elts) == len(st.value.elts) and not any(isinstance(x, ast.Starred) for x in st.targets[0].elts + st.value.elts) \
                    and all(isinstance(t, ast.Name) or (isinstance(t, ast.Attribute) and isinstance(t.value, ast.Name)) for t in st.targets[0].elts):
                tg, vs = st.targets[0].elts, st.value.elts
                texts = [ast.unparse(t) for t in tg]
                safe = len(set(texts)) == len(texts)
                for i, t in enumerate(texts):
                    base = t.split(".")[0]
                    for v in vs[i + 1:]:
                        vt = ast.unparse(v)
                        if t in vt or (isinstance(tg[i], ast.Name) and any(isinstance(n, ast.Name) and n.id == base for n in ast.walk(v))):
                            safe = False
                    # a call on the right may read anything
                    if any(isinstance(n, ast.Call) for v in vs[i + 1:] for n in ast.walk(v)) and isinstance(tg[i], ast.Attribute):
                        safe = False
                if safe:
                    for t, v in zip(tg, vs):
                        out.append(ast.copy_location(ast.Assign(targets=[t], value=v), st))
                    continue
            # `return (not C) and E`  ->  `if C: return False` + `return E`   (`not C` is a bool, so the conjunction is False or E)
            if isinstance(st, ast.Return) and isinstance(st.value, ast.BoolOp) and isinstance(st.value.op, ast.And) and len(st.value.values) >= 2 \
                    and all(isinstance(v, ast.UnaryOp) and isinstance(v.op, ast.Not) for v in st.value.values[:-1]):
                for v in st.value.values[:-1]:
                    guard = ast.If(test=v.operand, body=[ast.Return(value=ast.Constant(value=False))], orelse=[])
                    out.append(ast.copy_location(guard, st))
                out.append(ast.copy_location(ast.Return(value=st.value.values[-1]), st))
                continue
            out.append(st)
        return out

    # marker classes: no state of their own at construction (`__init__(self)`), equal to every instance of their type
    markers = set()
    for c in prog.classes.values():
        ini, eq = c.methods.get("__init__"), c.methods.get("__eq__")
        if ini is not None and eq is not None and len(ini.params) == 1 and not ini.node.args.vararg and not ini.node.args.kwarg and len(eq.params) == 2:
            b = strip_docstring(eq.node.body)
            if len(b) == 1 and isinstance(b[0], ast.Return) and b[0].value is not None \
                    and unparse(b[0].value) == f"isinstance({eq.params[1]}, type({eq.params[0]}))":
                markers.add(c.name)

    def forward_markers(fnode):
        """`i = Intercept()` bound once at the top of a function and only compared / searched / inserted afterwards: every use is
        the constructor call again (instances of a marker class are interchangeable as long as none is modified)"""
        cands = {}
        for st in fnode.body:
            if isinstance(st, ast.Assign) and len(st.targets) == 1 and isinstance(st.targets[0], ast.Name) and isinstance(st.value, ast.Call) \
                    and isinstance(st.value.func, ast.Name) and st.value.func.id in markers and not st.value.args and not st.value.keywords:
                cands[st.targets[0].id] = st
        if not cands:
            return
        parents = {}
        for par in ast.walk(fnode):
            for ch in ast.iter_child_nodes(par):
                parents[id(ch)] = par
        for name, st in list(cands.items()):
            uses = [n for n in ast.walk(fnode) if isinstance(n, ast.Name) and n.id == name]
            stores = [n for n in uses if not isinstance(n.ctx, ast.Load)]
            loads = [n for n in uses if isinstance(n.ctx, ast.Load)]
            if len(stores) != 1 or any(isinstance(parents.get(id(n)), ast.Attribute) for n in loads) \
                    or sum(1 for n in loads if isinstance(parents.get(id(n)), ast.Call) and n in parents[id(n)].args
                           and isinstance(parents[id(n)].func, ast.Attribute) and parents[id(n)].func.attr in ("append", "insert", "add")) > 1 \
                    or any(isinstance(parents.get(id(n)), (ast.Return, ast.Yield, ast.Starred, ast.keyword)) for n in loads):
                del cands[name]
        if not cands:
            return

        class F(ast.NodeTransformer):
            def visit_Name(self, n):
                if isinstance(n.ctx, ast.Load) and n.id in cands:
                    return ast.copy_location(copy.deepcopy(cands[n.id].value), n)
                return n

        drop = {id(st) for st in cands.values()}
        fnode.body = [F().visit(st) for st in fnode.body if id(st) not in drop]

    inv_ = load_inventory() or {"functions": []}
    ref_known = set(inv_["functions"])

    def split_chains_and_merge_tails(fnode):
        """(1) a = X.attr = CALL  ->  X.attr = CALL ; a = X.attr   (plain attributes: the local reads what was just stored)
        (2) if c: ...; T  else: ...; T   with the same simple assignment T last in both arms  ->  if c: ... else: ... ; T"""
        props = getattr(fnode, "_props", set())

        def walk(stmts):
            out = []
            for st in stmts:
                for fld in ("body", "orelse", "finalbody"):
                    sub = getattr(st, fld, None)
                    if isinstance(sub, list) and sub and isinstance(sub[0], ast.stmt) and not isinstance(st, (ast.FunctionDef, ast.ClassDef)):
                        setattr(st, fld, walk(sub))
                if isinstance(st, ast.Assign) and len(st.targets) == 2 and isinstance(st.targets[0], ast.Name) and isinstance(st.targets[1], ast.Attribute) \
                        and isinstance(st.targets[1].value, ast.Name) and isinstance(st.value, ast.Call) and st.targets[1].attr not in props \
                        and not st.targets[1].attr.startswith("__"):
                    a1 = ast.Assign(targets=[st.targets[1]], value=st.value)
                    load = copy.deepcopy(st.targets[1])
                    load.ctx = ast.Load()
                    a2 = ast.Assign(targets=[st.targets[0]], value=load)
                    for x_ in (a1, a2):
                        ast.copy_location(x_, st)
                        ast.fix_missing_locations(x_)
                    out.extend([a1, a2])
                    continue
                if isinstance(st, ast.If) and st.body and st.orelse and isinstance(st.body[-1], ast.Assign) and isinstance(st.orelse[-1], ast.Assign) \
                        and unparse(st.body[-1]) == unparse(st.orelse[-1]) and len(st.body[-1].targets) == 1 and isinstance(st.body[-1].targets[0], ast.Name) \
                        and isinstance(st.body[-1].value, (ast.Attribute, ast.Name)):
                    tail = st.body[-1]
                    st.body = st.body[:-1] or [ast.Pass()]
                    st.orelse = st.orelse[:-1]
                    if st.body == [] or all(isinstance(b_, ast.Pass) for b_ in st.body) and st.orelse:
                        st.test = ast.UnaryOp(op=ast.Not(), operand=st.test)
                        st.body, st.orelse = st.orelse, []
                    out.extend([st, tail])
                    continue
                out.append(st)
            return out

        fnode.body = walk(fnode.body)

    def prealloc_to_comprehension(fnode):
        """T = [None] * len(F) ; for i, x in enumerate(F): T[i] = E            ->  T = [E for x in F]
        n = len(F) ; T = [None] * (2 * n) ; for i, x in enumerate(F): T[i] = A ; T[n + i] = B   ->  T = [A for x in F] + [B for x in F]
        (a result list pre-allocated and filled by position: the positions are exactly those of the comprehension)"""
        def walk(stmts):
            out = list(stmts)
            for st in out:
                for fld in ("body", "orelse", "finalbody"):
                    sub = getattr(st, fld, None)
                    if isinstance(sub, list) and sub and isinstance(sub[0], ast.stmt) and not isinstance(st, (ast.FunctionDef, ast.ClassDef)):
                        setattr(st, fld, walk(sub))
            i = 0
            while i < len(out) - 1:
                a, lp = out[i], out[i + 1]
                ok = isinstance(a, ast.Assign) and len(a.targets) == 1 and isinstance(a.targets[0], ast.Name) and isinstance(a.value, ast.BinOp) \
                    and isinstance(a.value.op, ast.Mult) and unparse(a.value.left) == "[None]" and isinstance(lp, ast.For) and not lp.orelse \
                    and isinstance(lp.iter, ast.Call) and unparse(lp.iter.func) == "enumerate" and len(lp.iter.args) == 1 and not lp.iter.keywords \
                    and isinstance(lp.target, ast.Tuple) and len(lp.target.elts) == 2 and all(isinstance(e, ast.Name) for e in lp.target.elts)
                if ok:
                    T, F = a.targets[0].id, lp.iter.args[0]
                    iv, xv = lp.target.elts[0].id, lp.target.elts[1]
                    size = unparse(a.value.right)
                    ftxt = unparse(F)
                    # `n = len(F)` aliases defined just before
                    nal = {unparse(b.targets[0]): unparse(b.value) for b in out[:i] if isinstance(b, ast.Assign) and len(b.targets) == 1 and isinstance(b.targets[0], ast.Name)}
                    def res(t):
                        return nal.get(t, t)
                    stores = [b for b in lp.body if isinstance(b, ast.Assign) and len(b.targets) == 1 and isinstance(b.targets[0], ast.Subscript)
                              and unparse(b.targets[0].value) == T]
                    clean = len(stores) == len(lp.body) and not any(isinstance(n, ast.Name) and n.id in (T, iv) for b in stores for n in ast.walk(b.value))
                    idx = [unparse(b.targets[0].slice) for b in stores]
                    n1 = f"len({ftxt})"
                    new_val = None
                    if clean and len(stores) == 1 and idx == [iv] and res(size) == n1:
                        new_val = ast.ListComp(elt=stores[0].value, generators=[ast.comprehension(target=xv, iter=F, ifs=[], is_async=0)])
                    elif clean and len(stores) == 2 and idx[0] == iv and res(size.strip("()")) in (f"2 * {n1}", f"{n1} * 2") or \
                            (clean and len(stores) == 2 and idx[0] == iv and size.strip("()") in tuple(f"2 * {k}" for k, v in nal.items() if v == n1)):
                        second = idx[1]
                        nn = [k for k, v in nal.items() if v == n1] + [n1]
                        if any(second in (f"{k} + {iv}", f"{iv} + {k}") for k in nn):
                            new_val = ast.BinOp(
                                left=ast.ListComp(elt=stores[0].value, generators=[ast.comprehension(target=copy.deepcopy(xv), iter=copy.deepcopy(F), ifs=[], is_async=0)]),
                                op=ast.Add(),
                                right=ast.ListComp(elt=stores[1].value, generators=[ast.comprehension(target=copy.deepcopy(xv), iter=copy.deepcopy(F), ifs=[], is_async=0)]))
                    if new_val is not None:
                        new = ast.Assign(targets=a.targets, value=new_val)
                        ast.copy_location(new, a)
                        ast.fix_missing_locations(new)
                        out[i:i + 2] = [new]
                        continue
                i += 1
            return out

        if any(isinstance(n, ast.BinOp) and isinstance(n.op, ast.Mult) and isinstance(n.left, ast.List) and unparse(n.left) == "[None]" for n in ast.walk(fnode)):
            fnode.body = walk(fnode.body)

    def test_temporaries(fnode):
        """t1 = <side-effect free test> ; t2 = ... ; if <chain over t1, t2>: ...   with the temporaries used only in the tests of that
        one if / elif chain: the tests are the expressions themselves (every test of a chain is evaluated before any of its bodies
        runs, so nothing can have changed in between).  Marker constructors (Intercept()) count as side-effect free.
        Also drops `n = len(X)` left without any use."""
        def pure(e):
            for n in ast.walk(e):
                if isinstance(n, ast.Call) and not (isinstance(n.func, ast.Name) and (n.func.id in markers or n.func.id in ("len", "isinstance")) and not n.keywords):
                    return False
                if isinstance(n, (ast.NamedExpr, ast.Await, ast.Yield, ast.YieldFrom, ast.Lambda)):
                    return False
            return True

        def walk(stmts):
            out = list(stmts)
            for st in out:
                for fld in ("body", "orelse", "finalbody"):
                    sub = getattr(st, fld, None)
                    if isinstance(sub, list) and sub and isinstance(sub[0], ast.stmt) and not isinstance(st, (ast.FunctionDef, ast.ClassDef)):
                        setattr(st, fld, walk(sub))
            changed = True
            while changed:
                changed = False
                for i, st in enumerate(out):
                    if not (isinstance(st, ast.Assign) and len(st.targets) == 1 and isinstance(st.targets[0], ast.Name) and pure(st.value)):
                        continue
                    t = st.targets[0].id
                    uses = [n for n in ast.walk(fnode) if isinstance(n, ast.Name) and n.id == t]
                    if len(uses) == 1 and isinstance(st.value, ast.Call) and unparse(st.value.func) == "len":
                        del out[i]          # an unused length
                        changed = True
                        break
                    if not isinstance(st.value, (ast.Compare, ast.BoolOp, ast.UnaryOp)):
                        continue
                    # the chain: next non-temporary statement
                    j = i + 1
                    while j < len(out) and isinstance(out[j], ast.Assign) and len(out[j].targets) == 1 and isinstance(out[j].targets[0], ast.Name) \
                            and isinstance(out[j].value, (ast.Compare, ast.BoolOp, ast.UnaryOp)) and pure(out[j].value) \
                            and not any(isinstance(n, ast.Name) and n.id == t for n in ast.walk(out[j].value)):
                        j += 1
                    if j >= len(out) or not isinstance(out[j], ast.If):
                        continue
                    tests, cur = [], out[j]
                    while True:
                        tests.append(cur)
                        if len(cur.orelse) == 1 and isinstance(cur.orelse[0], ast.If):
                            cur = cur.orelse[0]
                        else:
                            break
                    in_tests = [n for c_ in tests for n in ast.walk(c_.test) if isinstance(n, ast.Name) and n.id == t and isinstance(n.ctx, ast.Load)]
                    stores = [n for n in uses if isinstance(n.ctx, ast.Store)]
                    if len(stores) != 1 or len(in_tests) != len(uses) - 1 or not in_tests:
                        continue
                    val = st.value

                    class R(ast.NodeTransformer):
                        def visit_Name(s_, n):
                            return ast.copy_location(copy.deepcopy(val), n) if n.id == t and isinstance(n.ctx, ast.Load) else n

                    for c_ in tests:
                        c_.test = R().visit(c_.test)
                    del out[i]
                    changed = True
                    break
            return out

        fnode.body = walk(fnode.body)
        ast.fix_missing_locations(fnode)

    def local_accumulator_to_attribute(f):
        """__init__ only: `acc = []` ... (acc filled) ... `self.A = acc` as the only use of the attribute A in the function and acc not
        used after it except as a plain read: the list is the attribute from the start (`self.A = []`, then filled)"""
        fnode = f.node
        if fnode.name != "__init__" or not f.params:
            return
        me = f.params[0]
        for i, st in enumerate(fnode.body):
            if isinstance(st, ast.Assign) and len(st.targets) == 1 and isinstance(st.targets[0], ast.Attribute) and isinstance(st.targets[0].value, ast.Name) \
                    and st.targets[0].value.id == me and isinstance(st.value, ast.Name):
                acc, attr = st.value.id, st.targets[0].attr
                inits = [b for b in fnode.body[:i] if isinstance(b, ast.Assign) and len(b.targets) == 1 and isinstance(b.targets[0], ast.Name) and b.targets[0].id == acc
                         and isinstance(b.value, ast.List) and not b.value.elts]
                n_stores = sum(1 for n in ast.walk(fnode) if isinstance(n, ast.Name) and n.id == acc and isinstance(n.ctx, ast.Store))
                attr_uses = [n for n in ast.walk(fnode) if isinstance(n, ast.Attribute) and n.attr == attr and n is not st.targets[0]]
                if len(inits) != 1 or n_stores != 1 or attr_uses or acc in f.params:
                    continue
                init = inits[0]
                # every other statement: replace the local by the attribute
                load = ast.Attribute(value=ast.Name(id=me, ctx=ast.Load()), attr=attr, ctx=ast.Load())

                class R(ast.NodeTransformer):
                    def visit_Name(s_, n):
                        return ast.copy_location(copy.deepcopy(load), n) if n.id == acc and isinstance(n.ctx, ast.Load) else n

                new_init = ast.Assign(targets=[copy.deepcopy(st.targets[0])], value=init.value)
                ast.copy_location(new_init, init)
                body = []
                for b in fnode.body:
                    if b is init:
                        body.append(new_init)
                    elif b is st:
                        continue
                    else:
                        body.append(R().visit(b))
                fnode.body = body
                ast.fix_missing_locations(fnode)
                return

    def attribute_aliases(f, keep):
        """`slices = self.slices` / `terms = self.terms` / `name = term.name`: a local bound ONCE to a plain attribute chain of a
        parameter or loop variable, in a function that stores no attribute of that name (and calls no method of its own class
        that does), is the attribute itself: every later read of the local is the chain again (micro-optimisations that cache
        attribute look-ups; the containers are shared objects, so a store through the alias is a store into the attribute)."""
        fnode = f.node
        stores = {}
        for n in ast.walk(fnode):
            if isinstance(n, ast.Name) and isinstance(n.ctx, (ast.Store, ast.Del)):
                stores[n.id] = stores.get(n.id, 0) + 1
        params = set(f.params) | {a.arg for a in fnode.args.kwonlyargs}
        attr_stores = {n.attr for n in ast.walk(fnode) if isinstance(n, ast.Attribute) and isinstance(n.ctx, (ast.Store, ast.Del))}
        # attributes stored by methods of the own class that this function calls on its first parameter
        if f.cls is not None and f.params:
            me = f.params[0]
            for c in ast.walk(fnode):
                if isinstance(c, ast.Call) and isinstance(c.func, ast.Attribute) and isinstance(c.func.value, ast.Name) and c.func.value.id == me:
                    m = f.cls.methods.get(c.func.attr)
                    if m is not None:
                        attr_stores |= {n.attr for n in ast.walk(m.node) if isinstance(n, ast.Attribute) and isinstance(n.ctx, (ast.Store, ast.Del))}
                    else:
                        attr_stores.add("*")

        def chain(e):
            names = []
            while isinstance(e, ast.Attribute):
                names.append(e.attr)
                e = e.value
            return (e.id, names) if isinstance(e, ast.Name) and names else (None, None)

        def blocks(stmts):
            yield stmts
            for st in stmts:
                if isinstance(st, (ast.FunctionDef, ast.ClassDef)):
                    continue
                for fld in ("body", "orelse", "finalbody"):
                    sub = getattr(st, fld, None)
                    if isinstance(sub, list) and sub and isinstance(sub[0], ast.stmt):
                        yield from blocks(sub)
                for h in getattr(st, "handlers", []) or []:
                    yield from blocks(h.body)

        changed = True
        rounds = 0
        while changed and rounds < 6:
            changed = False
            rounds += 1
            for blk in blocks(fnode.body):
                for i, st in enumerate(blk):
                    view = isinstance(st, ast.Assign) and isinstance(st.value, ast.Call) and isinstance(st.value.func, ast.Attribute) \
                        and st.value.func.attr in ("values", "items", "keys") and not st.value.args and not st.value.keywords \
                        and isinstance(st.value.func.value, ast.Attribute)
                    # G["KEY"] of a module-level object (the configuration): read once or at every use - nothing in this function
                    # writes to G
                    gkey = isinstance(st, ast.Assign) and isinstance(st.value, ast.Subscript) and isinstance(st.value.value, ast.Name) \
                        and isinstance(st.value.slice, ast.Constant) and st.value.value.id not in stores and st.value.value.id not in params \
                        and not any(isinstance(n, ast.Subscript) and isinstance(n.ctx, (ast.Store, ast.Del)) and isinstance(n.value, ast.Name)
                                    and n.value.id == st.value.value.id for n in ast.walk(fnode))
                    if not (isinstance(st, ast.Assign) and len(st.targets) == 1 and isinstance(st.targets[0], ast.Name) and (isinstance(st.value, ast.Attribute) or view or gkey)):
                        continue
                    name = st.targets[0].id
                    # a dict view (D.values()) is a live view of the dict: reading it later is reading D.values() later
                    base, attrs = (st.value.value.id, ["<item>"]) if gkey else chain(st.value.func.value if view else st.value)
                    if unparse(st) in keep:
                        continue
                    if base is None or name in params or stores.get(name) != 1 or base == name:
                        continue
                    if "*" in attr_stores and len(attrs) >= 1 and base == (f.params[0] if f.params else None) and False:
                        continue
                    rest = blk[i + 1:]
                    # stores of that attribute only matter while the alias is live (in what follows the definition)
                    later_stores = {n.attr for r_ in rest for n in ast.walk(r_) if isinstance(n, ast.Attribute) and isinstance(n.ctx, (ast.Store, ast.Del))}
                    called_stores = attr_stores - {n.attr for n in ast.walk(fnode) if isinstance(n, ast.Attribute) and isinstance(n.ctx, (ast.Store, ast.Del))}
                    if any(a in later_stores or a in called_stores for a in attrs):
                        continue
                    # the base must keep its value while the alias is live
                    if any(isinstance(n, ast.Name) and n.id == base and isinstance(n.ctx, (ast.Store, ast.Del)) for r_ in rest for n in ast.walk(r_)):
                        continue
                    loads = [n for n in ast.walk(fnode) if isinstance(n, ast.Name) and n.id == name and isinstance(n.ctx, ast.Load)]
                    inside = {id(n) for r_ in rest for n in ast.walk(r_)}
                    if not loads or not all(id(n) in inside for n in loads):
                        continue
                    # not captured by a nested function / lambda (late binding)
                    if any(isinstance(n, (ast.FunctionDef, ast.Lambda)) and any(isinstance(x, ast.Name) and x.id == name for x in ast.walk(n)) for r_ in rest for n in ast.walk(r_)):
                        continue
                    # kinds of attributes that are containers / plain fields; a chain ending in a call-like property is left alone
                    value = st.value

                    class R(ast.NodeTransformer):
                        def visit_Name(s_, n):
                            if n.id == name and isinstance(n.ctx, ast.Load):
                                return ast.copy_location(copy.deepcopy(value), n)
                            return n

                    blk[i + 1:] = [R().visit(r_) for r_ in rest]
                    del blk[i]
                    stores[name] = 0
                    changed = True
                    break
                if changed:
                    break

    for f in prog.functions.values():
        if f.parent is not None:
            continue
        try:
            N0(f.node).visit(f.node)
            f.node.body = split_tuple_assignments(f.node.body)
            from .canon import _unreachable as _fold_constant_ifs
            if any(isinstance(n, ast.If) and isinstance(n.test, ast.Constant) for n in ast.walk(f.node)):
                f.node.body = _fold_constant_ifs(f.node.body) or [ast.Pass()]
            if markers:
                forward_markers(f.node)
            # only in functions that differ from the reference (or are new), and never an alias the reference itself has
            if f.qual in getattr(prog, "differing", []) or f.qual not in ref_known:
                split_chains_and_merge_tails(f.node)
                prealloc_to_comprehension(f.node)
                local_accumulator_to_attribute(f)
                test_temporaries(f.node)
                attribute_aliases(f, getattr(prog, "ref_aliases", {}).get(f.qual, set()))
            ast.fix_missing_locations(f.node)
        except Exception:  # noqa: BLE001
            pass


def undo_renames(prog):
    """N4: a function / method / class of the reference inventory that is missing from the current tree is looked for
    (a) under the same name in another module (moved): it is registered under its old qualified name as well;
    (b) under another name in the same module / class, with a canonically identical body (renamed): the new name is renamed
        back throughout the program model.
    Anything else stays missing and the rule that needs it reports ANALYSIS-ERROR (anchor not found)."""
    inv = load_inventory()
    if inv is None:
        return
    inv_funcs = set(inv["functions"])
    top = [q for q in inv_funcs if q not in prog.functions]
    if not top:
        return
    from .core import Program
    from .canon import canon
    from .refswap import REF_ROOT

    if not os.path.isdir(os.path.join(REF_ROOT, "formulae")):
        return
    ref = Program(REF_ROOT, normalise=False)

    def rename_params(fnode, mapping):
        for a in fnode.args.posonlyargs + fnode.args.args + fnode.args.kwonlyargs:
            if a.arg in mapping:
                a.arg = mapping[a.arg]
        for n in ast.walk(fnode):
            if isinstance(n, ast.Name) and n.id in mapping:
                n.id = mapping[n.id]

    def nameless(fnode):
        # the name and the spelling of the parameters do not count (callers of a private helper pass them by position; keyword
        # callers are renamed back together with the parameters below)
        f = copy.deepcopy(fnode)
        f.name = "F"
        params = [a.arg for a in f.args.posonlyargs + f.args.args + f.args.kwonlyargs]
        bound = {n.id for n in ast.walk(f) if isinstance(n, ast.Name)} | set(params)
        if not any(f"_p{i}" in bound for i in range(len(params))):
            rename_params(f, {p_: f"_p{i}" for i, p_ in enumerate(params)})
        return canon(f)

    renames = {}
    method_renames = set()   # renamed methods: only attribute accesses and the def itself are renamed, never plain names
    for q in sorted(top):
        r = ref.functions.get(q)
        if r is None or r.parent is not None:
            continue
        container = q.rsplit(".", 1)[0]
        # (b) renamed inside the same container
        cands = [f for fq, f in prog.functions.items() if f.parent is None and fq not in inv_funcs and fq.rsplit(".", 1)[0] == container
                 and f.is_setter == r.is_setter and f.is_property == r.is_property]
        same = []
        for f in cands:
            try:
                if nameless(f.node) == nameless(r.node):
                    same.append(f)
            except Exception:  # noqa: BLE001
                pass
        if len(same) == 1 and same[0].name != r.name:
            new, old = same[0].name, r.name
            used_old = any(isinstance(n, (ast.FunctionDef, ast.ClassDef)) and n.name == old for m in prog.modules.values() for n in ast.walk(m.tree)
                           if (m.name == container or container.startswith(m.name + ".")))
            if new not in renames and not (used_old and r.cls is None):
                renames[new] = old
                if r.cls is not None:
                    method_renames.add(new)
                prog.renamed.append((f"{container}.{new}", q))
                # parameters renamed along with the function: back to the reference spelling (inside the function, and as
                # keywords at its call sites)
                fn_ = same[0].node
                cur_p = [a.arg for a in fn_.args.posonlyargs + fn_.args.args + fn_.args.kwonlyargs]
                ref_p = [a.arg for a in r.node.args.posonlyargs + r.node.args.args + r.node.args.kwonlyargs]
                pm = {c_: r_ for c_, r_ in zip(cur_p, ref_p) if c_ != r_}
                names_in_fn = {n.id for n in ast.walk(fn_) if isinstance(n, ast.Name)}
                if pm and len(cur_p) == len(ref_p) and not (set(pm.values()) & (names_in_fn - set(pm))):
                    rename_params(fn_, pm)
                    for m_ in prog.modules.values():
                        for n in ast.walk(m_.tree):
                            if isinstance(n, ast.Call) and (isinstance(n.func, ast.Attribute) and n.func.attr == new or isinstance(n.func, ast.Name) and n.func.id == new):
                                for k in n.keywords:
                                    if k.arg in pm:
                                        k.arg = pm[k.arg]
    if renames:
        for m in prog.modules.values():
            for n in ast.walk(m.tree):
                if isinstance(n, (ast.FunctionDef, ast.AsyncFunctionDef)) and n.name in renames:
                    n.name = renames[n.name]
                elif isinstance(n, ast.Name) and n.id in renames and n.id not in method_renames:
                    n.id = renames[n.id]
                elif isinstance(n, ast.Attribute) and n.attr in renames:
                    n.attr = renames[n.attr]
                elif isinstance(n, ast.alias):
                    if n.name in renames:
                        n.name = renames[n.name]
                    if n.asname in renames:
                        n.asname = renames[n.asname]
        prog._reindex()
    # (a) moved: same simple name, same kind, elsewhere
    for q in sorted(x for x in inv_funcs if x not in prog.functions):
        r = ref.functions.get(q)
        if r is None or r.parent is not None:
            continue
        cands = [f for fq, f in prog.functions.items() if f.parent is None and fq not in inv_funcs and f.name == r.name
                 and ((f.cls is None) == (r.cls is None)) and (r.cls is None or f.cls.name == r.cls.name)]
        if len(cands) == 1:
            prog.functions[q] = cands[0]
            prog.relocated.append((cands[0].qual, q))
            if r.cls is None:
                oldmod = q.rsplit(".", 1)[0]
                if oldmod in prog.modules:
                    prog.modules[oldmod].functions.setdefault(r.name, cands[0])
    ref_classes = {c for c in ref.classes}
    for cq in sorted(c for c in ref_classes if c not in prog.classes):
        name = cq.rsplit(".", 1)[1]
        cands = [c for q2, c in prog.classes.items() if c.name == name and q2 not in ref_classes]
        if len(cands) == 1:
            prog.classes[cq] = cands[0]
            prog.relocated.append((cands[0].qual, cq))
            oldmod = cq.rsplit(".", 1)[0]
            if oldmod in prog.modules:
                prog.modules[oldmod].classes.setdefault(name, cands[0])
            for mn, mf in list(cands[0].methods.items()) + [(k + ".setter", v) for k, v in cands[0].setters.items()]:
                prog.functions.setdefault(f"{cq}.{mn}", mf)


def _instance_attrs(prog):
    """{class qual: {attr: frozenset of (method name, 'S'|'L')}} for attributes of the first parameter stored in some method"""
    out = {}
    for cq, c in prog.classes.items():
        if cq != c.qual:
            continue
        occ = {}
        stored = set()
        for mname, m in list(c.methods.items()) + [(k + ".setter", v) for k, v in c.setters.items()]:
            if not m.params or m.is_staticmethod:
                continue
            me = m.params[0]
            for n in ast.walk(m.node):
                if isinstance(n, ast.Attribute) and isinstance(n.value, ast.Name) and n.value.id == me:
                    kind = "L" if isinstance(n.ctx, ast.Load) else "S"
                    occ.setdefault(n.attr, set()).add((mname, kind))
                    if kind == "S":
                        stored.add(n.attr)
        out[cq] = {a: frozenset(v) for a, v in occ.items() if a in stored}
    return out


def undo_attribute_renames(prog):
    """N4(c): an instance attribute of the reference that no method of the class stores any more, while the class stores a new
    attribute in exactly the same methods and reads it in exactly the same methods (same (method, store/load) set, unique on both
    sides): a rename.  The new name is renamed back in the whole program model - only if the old name is used nowhere in the
    current tree and the new name nowhere in the reference (no clash), and all classes agree on the pair."""
    from .core import Program
    from .refswap import REF_ROOT

    if not os.path.isdir(os.path.join(REF_ROOT, "formulae")):
        return
    cur = _instance_attrs(prog)
    global _REF_ATTRS
    try:
        ref, ref_names = _REF_ATTRS
    except NameError:
        rp = Program(REF_ROOT, normalise=False)
        ref = _instance_attrs(rp)
        ref_names = {n.attr for m in rp.modules.values() for n in ast.walk(m.tree) if isinstance(n, ast.Attribute)} | \
            {n.value for m in rp.modules.values() for n in ast.walk(m.tree) if isinstance(n, ast.Constant) and isinstance(n.value, str)}
        _REF_ATTRS = (ref, ref_names)
    pairs = {}
    bad = set()
    for cq, rattrs in ref.items():
        cattrs = cur.get(cq)
        if cattrs is None:
            continue
        # methods that exist on one side only (renamed themselves, or new helpers) count as one anonymous method
        rmeth = {mn for sig in rattrs.values() for mn, _k in sig}
        cmeth = {mn for sig in cattrs.values() for mn, _k in sig}

        def anon(sig, known):
            return frozenset((mn if mn in known else "?", k) for mn, k in sig)

        missing = {a: anon(sig, cmeth) for a, sig in rattrs.items() if a not in cattrs}
        fresh = {a: anon(sig, rmeth) for a, sig in cattrs.items() if a not in rattrs}
        for old, sig in missing.items():
            same = [a for a, s2 in fresh.items() if s2 == sig]
            if len(same) == 1 and sum(1 for s2 in missing.values() if s2 == sig) == 1:
                new = same[0]
                if pairs.setdefault(new, old) != old:
                    bad.add(new)
    cur_names = {n.attr for m in prog.modules.values() for n in ast.walk(m.tree) if isinstance(n, ast.Attribute)}
    renames = {new: old for new, old in pairs.items() if new not in bad and old not in cur_names and new not in ref_names}
    if len(set(renames.values())) != len(renames):
        return
    if not renames:
        return
    for m in prog.modules.values():
        for n in ast.walk(m.tree):
            if isinstance(n, ast.Attribute) and n.attr in renames:
                n.attr = renames[n.attr]
            elif isinstance(n, ast.Call) and isinstance(n.func, ast.Name) and n.func.id in ("getattr", "hasattr", "setattr", "delattr") and len(n.args) >= 2 \
                    and isinstance(n.args[1], ast.Constant) and n.args[1].value in renames:
                n.args[1] = ast.copy_location(ast.Constant(value=renames[n.args[1].value]), n.args[1])
    for new, old in sorted(renames.items()):
        prog.renamed.append((f"attribute .{new}", f".{old}"))
    prog._reindex()


def normalise(prog):
    inv = load_inventory()
    if inv is None:
        return None
    prog.flattened = flatten_new_bases(prog, inv)
    inl = Inliner(prog, inv).run()
    prog.inlined = inl.inlined
    prog.const_subst = inl.const_subst
    from . import refswap

    refswap.swap(prog, inv)
    if not os.environ.get("VERIF_NO_EXPR_NORMAL"):
        normalise_expressions(prog)
    return inl

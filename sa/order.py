"""Order algebra: major-to-minor order of the column index produced by the idioms the
repository uses to combine factors (nested loops + append, multi-for comprehensions,
itertools.product, functools.reduce as a left fold, scipy.linalg.khatri_rao of transposes).
Anything else is an AnalysisError (fail closed).
"""
import ast

from .core import AnalysisError, dotted, unparse, walk_local, calls_in


def pairwise_major(fn):
    """For a 2-argument column-combining function: which parameter is MAJOR (varies slowest).
    Recognised: nested `for` over range(<p>.shape[1]) with append of <p>[:, i] * <q>[:, j] and
    np.column_stack of the list; a two-`for` comprehension; linalg.khatri_rao(<p>.T, <q>.T).T.
    returns (index of the major parameter, explanation)"""
    params = fn.params
    if len(params) != 2:
        raise AnalysisError(f"order algebra: {fn.qual} is not a 2-parameter combinator")
    rets = [n for n in walk_local(fn.node) if isinstance(n, ast.Return)]
    if not rets:
        raise AnalysisError(f"order algebra: {fn.qual} has no return")
    if len(rets) > 1:
        # several code paths (e.g. a fast path): every one must follow the same convention
        results = [_major_of_return(fn, params, r.value) for r in rets]
        majors = {m for m, _ in results}
        if len(majors) == 1:
            return results[0][0], "; ".join(w for _, w in results)
        return -1, "the return paths disagree: " + "; ".join(f"`{unparse(r.value)[:60]}`: {w}" for r, (m, w) in zip(rets, results))
    return _major_of_return(fn, params, rets[0].value)


def _broadcast_major(r, params, shapes):
    """`(A[:, None, :] * B[:, :, None]).reshape(n, k)`: after a C-order reshape the operand whose column
    axis comes first (after the row axis) is major.  returns (param index, why) or None"""
    if not (isinstance(r, ast.Call) and isinstance(r.func, ast.Attribute) and r.func.attr == "reshape"):
        return None
    prod = r.func.value
    if not (isinstance(prod, ast.BinOp) and isinstance(prod.op, ast.Mult)):
        return None
    pos = {}
    for side in (prod.left, prod.right):
        if not (isinstance(side, ast.Subscript) and isinstance(side.value, ast.Name) and side.value.id in params and isinstance(side.slice, ast.Tuple)):
            return None
        elts = side.slice.elts
        if len(elts) != 3 or not isinstance(elts[0], ast.Slice):
            return None
        axes = []
        for k, e in enumerate(elts[1:], start=1):
            if isinstance(e, ast.Slice) and e.lower is None and e.upper is None:
                axes.append(k)
            elif unparse(e) in ("None", "np.newaxis"):
                pass
            else:
                return None
        if len(axes) != 1:
            return None
        pos[side.value.id] = axes[0]
    if len(pos) != 2 or len(set(pos.values())) != 2:
        return None
    major = min(pos, key=pos.get)
    return params.index(major), f"broadcast product reshaped in C order: the column axis of `{major}` comes first, so `{major}` is major"


def _column_lists(fn, params):
    """locals bound once to the list of the columns of an operand: `cols = [x[:, j] for j in range(x.shape[1])]`, also guarded by
    an emptiness shortcut (`... if other_cols else []`: an empty list where nothing would be produced anyway) -> {local: param}"""
    out = {}
    al = _shape_aliases(fn)
    for st in fn.body:
        if isinstance(st, ast.Assign) and len(st.targets) == 1 and isinstance(st.targets[0], ast.Name):
            v = st.value
            if isinstance(v, ast.IfExp) and isinstance(v.orelse, ast.List) and not v.orelse.elts and isinstance(v.test, ast.Name):
                v = v.body
            if isinstance(v, ast.ListComp) and len(v.generators) == 1 and not v.generators[0].ifs and isinstance(v.generators[0].target, ast.Name):
                g_ = v.generators[0]
                p_ = _range_param(g_.iter, params, al)
                if p_ is not None and unparse(v.elt) == f"{p_}[:, {g_.target.id}]" \
                        and sum(1 for n in ast.walk(fn.node) if isinstance(n, ast.Name) and n.id == st.targets[0].id and isinstance(n.ctx, ast.Store)) == 1:
                    out[st.targets[0].id] = p_
    return out


def _over_columns(fn, params, gens, elt):
    """generators that run over column lists (see _column_lists) rewritten to index generators: (targets, iters, element)"""
    import copy as _copy
    colsof = _column_lists(fn, params)
    if not colsof:
        return None
    new_t, new_i, sub = [], [], {}
    for k, g in enumerate(gens):
        if isinstance(g.iter, ast.Name) and g.iter.id in colsof and isinstance(g.target, ast.Name):
            p_ = colsof[g.iter.id]
            iv = f"j__{k}"
            sub[g.target.id] = ast.parse(f"{p_}[:, {iv}]", mode="eval").body
            new_t.append(iv)
            new_i.append(ast.parse(f"range({p_}.shape[1])", mode="eval").body)
        else:
            new_t.append(unparse(g.target))
            new_i.append(g.iter)
    if not sub:
        return None

    class S(ast.NodeTransformer):
        def visit_Name(self, n):
            return _copy.deepcopy(sub[n.id]) if n.id in sub and isinstance(n.ctx, ast.Load) else n

    return new_t, new_i, S().visit(_copy.deepcopy(elt))


def _major_of_return(fn, params, r):
    b = _broadcast_major(r, params, None)
    if b is not None:
        return b
    # khatri_rao(a.T, b.T).T
    kr = _khatri(r)
    if kr is not None:
        a, b = kr
        if a in params and b in params and a != b:
            return params.index(a), f"khatri_rao({a}.T, {b}.T).T: first argument is major"
        raise AnalysisError(f"order algebra: khatri_rao operands {kr} are not the parameters of {fn.qual}")
    if isinstance(r, ast.Name):
        pre = _preallocated(fn, params, r.id)
        if pre is not None:
            return pre
    if not (isinstance(r, ast.Call) and dotted(r.func) in ("np.column_stack", "np.hstack") and len(r.args) == 1):
        raise AnalysisError(f"order algebra: unmodelled return `{unparse(r)}` in {fn.qual}")
    arg = r.args[0]
    # comprehension form
    if isinstance(arg, (ast.ListComp, ast.GeneratorExp)) and len(arg.generators) == 2:
        outer, inner = arg.generators
        oc = _over_columns(fn, params, arg.generators, arg.elt) if not (outer.ifs or inner.ifs) else None
        if oc is not None:
            (ot, it_), (oi, ii), elt_ = oc[0], oc[1], oc[2]
            return _from_loops(fn, params, ot, oi, it_, ii, elt_)
        return _from_loops(fn, params, unparse(outer.target), outer.iter, unparse(inner.target), inner.iter, arg.elt)
    if isinstance(arg, ast.Name):
        # a local bound once to a two-generator comprehension
        ds = [st for st in walk_local(fn.node) if isinstance(st, ast.Assign) and len(st.targets) == 1 and isinstance(st.targets[0], ast.Name)
              and st.targets[0].id == arg.id]
        if len(ds) == 1 and isinstance(ds[0].value, (ast.ListComp, ast.GeneratorExp)) and len(ds[0].value.generators) == 2:
            touched = [x for x in calls_in(fn.node) if isinstance(x.func, ast.Attribute) and unparse(x.func.value) == arg.id
                       and x.func.attr in ("append", "insert", "extend", "reverse", "sort", "pop", "remove")]
            if touched:
                raise AnalysisError(f"order algebra: list `{arg.id}` is modified after its comprehension in {fn.qual}")
            outer, inner = ds[0].value.generators
            if outer.ifs or inner.ifs:
                raise AnalysisError(f"order algebra: filtered comprehension in {fn.qual}")
            return _from_loops(fn, params, unparse(outer.target), outer.iter, unparse(inner.target), inner.iter, ds[0].value.elt)
        lst = arg.id
        loops = [n for n in fn.body if isinstance(n, ast.For)]
        if len(loops) != 1:
            raise AnalysisError(f"order algebra: expected one outer loop in {fn.qual}")
        outer = loops[0]
        # loops over the pre-sliced columns of an operand: `cols = [x[:, j] for j in range(x.shape[1])]` ... `for c in cols:` is
        # `for j in range(x.shape[1]):` with c = x[:, j]
        import copy as _copy
        colsof = {}
        for st in fn.body:
            if isinstance(st, ast.Assign) and len(st.targets) == 1 and isinstance(st.targets[0], ast.Name) and isinstance(st.value, ast.ListComp) \
                    and len(st.value.generators) == 1 and not st.value.generators[0].ifs and isinstance(st.value.generators[0].target, ast.Name):
                g_ = st.value.generators[0]
                p_ = _range_param(g_.iter, params, _shape_aliases(fn))
                if p_ is not None and unparse(st.value.elt) == f"{p_}[:, {g_.target.id}]" \
                        and sum(1 for n in ast.walk(fn.node) if isinstance(n, ast.Name) and n.id == st.targets[0].id and isinstance(n.ctx, ast.Store)) == 1:
                    colsof[st.targets[0].id] = p_

        def as_index_loop(lp, tag):
            if isinstance(lp.iter, ast.Name) and lp.iter.id in colsof and isinstance(lp.target, ast.Name):
                p_, cvar, ivar_ = colsof[lp.iter.id], lp.target.id, f"j__{tag}"
                col = ast.parse(f"{p_}[:, {ivar_}]", mode="eval").body

                class S(ast.NodeTransformer):
                    def visit_Name(self, n):
                        return _copy.deepcopy(col) if n.id == cvar and isinstance(n.ctx, ast.Load) else n

                new = ast.For(target=ast.Name(id=ivar_, ctx=ast.Store()), iter=ast.parse(f"range({p_}.shape[1])", mode="eval").body,
                              body=[S().visit(_copy.deepcopy(b_)) for b_ in lp.body], orelse=[])
                ast.copy_location(new, lp)
                ast.fix_missing_locations(new)
                return new
            return lp

        if colsof:
            outer = as_index_loop(outer, "o")
            outer.body = [as_index_loop(b_, "i") if isinstance(b_, ast.For) else b_ for b_ in outer.body]
        inners = [n for n in outer.body if isinstance(n, ast.For)]
        # in front of the inner loop: only locals bound once per outer iteration (`x_column = x[:, j1]`), read in the inner loop
        hoisted = {}
        lead = outer.body[:-1] if inners and outer.body[-1] is inners[0] else None
        if lead is not None:
            for st in lead:
                if isinstance(st, ast.Assign) and len(st.targets) == 1 and isinstance(st.targets[0], ast.Name) and st.targets[0].id not in hoisted \
                        and st.targets[0].id != lst and not any(isinstance(c, ast.Call) for c in ast.walk(st.value)):
                    hoisted[st.targets[0].id] = _subst(st.value, hoisted)
                else:
                    lead = None
                    break
        if len(inners) != 1 or lead is None:
            raise AnalysisError(f"order algebra: expected exactly one inner loop directly inside the outer loop in {fn.qual}")
        inner = inners[0]
        if any(isinstance(n, ast.Name) and isinstance(n.ctx, ast.Store) and n.id in hoisted for n in ast.walk(inner)):
            raise AnalysisError(f"order algebra: a local of the outer loop is re-bound in the inner loop of {fn.qual}")
        apps = [x for x in calls_in(inner) if unparse(x.func) == f"{lst}.append"]
        local = dict(hoisted)
        rest = []
        for st in inner.body:
            if isinstance(st, ast.Assign) and len(st.targets) == 1 and isinstance(st.targets[0], ast.Name) and st.targets[0].id not in local:
                local[st.targets[0].id] = _subst(st.value, local)
            else:
                rest.append(st)
        if len(apps) != 1 or len(rest) != 1 or not (isinstance(rest[0], ast.Expr) and rest[0].value is apps[0]):
            raise AnalysisError(f"order algebra: expected a single `{lst}.append(...)` in the inner loop of {fn.qual}")
        all_apps = [x for x in calls_in(fn.node) if isinstance(x.func, ast.Attribute) and unparse(x.func.value) == lst and x.func.attr in ("append", "insert", "extend")]
        if len(all_apps) != 1:
            raise AnalysisError(f"order algebra: list `{lst}` is filled at several places in {fn.qual}")
        post = [x for x in calls_in(fn.node) if isinstance(x.func, ast.Attribute) and unparse(x.func.value) == lst and x.func.attr in ("reverse", "sort")]
        if post or "reversed(" in unparse(r) or "[::-1]" in unparse(r):
            raise AnalysisError(f"order algebra: list `{lst}` is reordered before stacking in {fn.qual}")
        return _from_loops(fn, params, unparse(outer.target), outer.iter, unparse(inner.target), inner.iter, _subst(apps[0].args[0], local))
    raise AnalysisError(f"order algebra: unmodelled stacking argument `{unparse(arg)}` in {fn.qual}")


ALLOCATORS = ("np.zeros", "np.empty", "np.ones", "np.full", "np.empty_like", "np.zeros_like", "np.full_like", "np.ones_like")


def _preallocated(fn, params, res):
    """`R = np.zeros(...)`; two nested loops over range(<p>.shape[1]) / range(<q>.shape[1]); `R[<rows>, <column>] = E` in the
    inner body; `return R`.  The column index is `a * W + b` with W the column count of b's operand (then a's operand is major),
    or a counter advanced by one per store (then the outer loop's operand is major).  <rows> other than `:` is a data-dependent
    selection of rows: the element is then not a plain product (rows not selected keep the allocator's value).
    returns (major index, why) or None when the function does not have this shape."""
    import copy
    ds = [st for st in walk_local(fn.node) if isinstance(st, ast.Assign) and len(st.targets) == 1 and isinstance(st.targets[0], ast.Name) and st.targets[0].id == res]
    if len(ds) != 1 or not (isinstance(ds[0].value, ast.Call) and dotted(ds[0].value.func) in ALLOCATORS):
        return None
    al = _shape_aliases(fn)
    loops = [n for n in fn.body if isinstance(n, ast.For)]
    if len(loops) != 1:
        raise AnalysisError(f"order algebra: expected one outer loop filling `{res}` in {fn.qual}")
    outer = loops[0]
    inners = [n for n in outer.body if isinstance(n, ast.For)]
    if not inners:
        blk = _block_fill(fn, params, res, outer, al)
        if blk is not None:
            return blk
    if len(inners) != 1:
        raise AnalysisError(f"order algebra: expected exactly one inner loop inside the loop filling `{res}` in {fn.qual}")
    inner = inners[0]
    op, ip = _range_param(outer.iter, params, al), _range_param(inner.iter, params, al)
    if op is None or ip is None or op == ip or not isinstance(outer.target, ast.Name) or not isinstance(inner.target, ast.Name):
        raise AnalysisError(f"order algebra: loop ranges `{unparse(outer.iter)}` / `{unparse(inner.iter)}` are not range(<param>.shape[1]) in {fn.qual}")
    ovar, ivar = outer.target.id, inner.target.id
    var_param = {ovar: op, ivar: ip}
    local = {}
    for st in [x for x in outer.body if x is not inner] + list(inner.body):
        if isinstance(st, ast.Assign) and len(st.targets) == 1 and isinstance(st.targets[0], ast.Name) and st.targets[0].id not in local:
            local[st.targets[0].id] = _subst(st.value, local)
    stores = [st for st in ast.walk(outer) if isinstance(st, (ast.Assign, ast.AugAssign))
              and isinstance((st.targets[0] if isinstance(st, ast.Assign) else st.target), ast.Subscript)
              and unparse((st.targets[0] if isinstance(st, ast.Assign) else st.target).value) == res]
    all_stores = [st for st in ast.walk(fn.node) if isinstance(st, (ast.Assign, ast.AugAssign))
                  and isinstance((st.targets[0] if isinstance(st, ast.Assign) else st.target), ast.Subscript)
                  and unparse((st.targets[0] if isinstance(st, ast.Assign) else st.target).value) == res]
    if len(stores) != 1 or len(all_stores) != 1 or stores[0] not in inner.body or not isinstance(stores[0], ast.Assign):
        raise AnalysisError(f"order algebra: `{res}` is not filled by a single subscript store in the inner loop of {fn.qual}")
    tg = stores[0].targets[0]
    if not (isinstance(tg.slice, ast.Tuple) and len(tg.slice.elts) == 2):
        raise AnalysisError(f"order algebra: unmodelled store target `{unparse(tg)}` in {fn.qual}")
    rows, colx = tg.slice.elts
    colx = _subst(colx, {k: v for k, v in local.items() if k not in (ovar, ivar)})

    def width_of(e):
        t = unparse(e)
        t = al.get(t, t)
        for p_ in params:
            if t == f"{p_}.shape[1]":
                return p_
        return None

    major = None
    # a * W + b   /   b + a * W   /   W * a + b
    if isinstance(colx, ast.BinOp) and isinstance(colx.op, ast.Add):
        for mul, add in ((colx.left, colx.right), (colx.right, colx.left)):
            if isinstance(mul, ast.BinOp) and isinstance(mul.op, ast.Mult) and isinstance(add, ast.Name) and add.id in var_param:
                for a, w in ((mul.left, mul.right), (mul.right, mul.left)):
                    if isinstance(a, ast.Name) and a.id in var_param and a.id != add.id and width_of(w) == var_param[add.id]:
                        major = var_param[a.id]
    elif isinstance(colx, ast.Name) and colx.id not in var_param:
        # a running counter: bound to 0 before the loops, `k += 1` right after the store, touched nowhere else
        k = colx.id
        inits = [st for st in fn.body if isinstance(st, ast.Assign) and unparse(st.targets[0]) == k and unparse(st.value) == "0"]
        steps = [st for st in ast.walk(fn.node) if isinstance(st, ast.AugAssign) and unparse(st.target) == k]
        other = [n for n in ast.walk(fn.node) if isinstance(n, ast.Name) and n.id == k and isinstance(n.ctx, ast.Store)]
        if len(inits) == 1 and len(steps) == 1 and len(other) == 2 and steps[0] in inner.body and isinstance(steps[0].op, ast.Add) and unparse(steps[0].value) == "1" \
                and inner.body.index(steps[0]) > inner.body.index(stores[0]):
            major = op
    if major is None:
        raise AnalysisError(f"order algebra: unmodelled column index `{unparse(tg.slice.elts[1])}` in {fn.qual}")
    full_rows = isinstance(rows, ast.Slice) and rows.lower is None and rows.upper is None and rows.step is None
    elt = _subst(stores[0].value, {k: v for k, v in local.items() if k not in (ovar, ivar)})
    if not full_rows:
        # the same row selection on both operands: look at the product with the selection removed
        rtxt = unparse(rows)

        class Full(ast.NodeTransformer):
            def visit_Subscript(self, n):
                self.generic_visit(n)
                if isinstance(n.slice, ast.Tuple) and len(n.slice.elts) == 2 and unparse(n.slice.elts[0]) == rtxt:
                    n = copy.deepcopy(n)
                    n.slice.elts[0] = ast.Slice(lower=None, upper=None, step=None)
                return n

        elt = Full().visit(copy.deepcopy(elt))
    idx = {}
    for n in ast.walk(elt):
        if isinstance(n, ast.Subscript) and isinstance(n.value, ast.Name) and n.value.id in params:
            c = n.slice.elts[-1] if isinstance(n.slice, ast.Tuple) else n.slice
            if isinstance(c, ast.Name):
                idx.setdefault(c.id, set()).add(n.value.id)
    if idx.get(ovar) != {op} or idx.get(ivar) != {ip}:
        return (-1, f"index/range mismatch: `{ovar}` ranges over {op} but indexes {sorted(idx.get(ovar, []))}; `{ivar}` ranges over {ip} but indexes {sorted(idx.get(ivar, []))}")
    kind = product_element(elt, params)
    if kind is None:
        raise AnalysisError(f"order algebra: stored element `{unparse(stores[0].value)}` is not a product of one column of each operand in {fn.qual}")
    if not full_rows:
        kind = "masked"
    fn._pairwise_element = (kind, unparse(stores[0]))
    return params.index(major), f"column index `{unparse(tg.slice.elts[1])}` of the preallocated result: `{major}` is major"


def _block_fill(fn, params, res, loop, al):
    """for j in range(<p>.shape[1]):  R[:, j * W:(j + 1) * W] = p[:, [j]] * q   (W = q.shape[1]): one block of q-many columns per
    column of p, so p is major and every column is a plain product (broadcast of a single column against all columns of q)"""
    op = _range_param(loop.iter, params, al)
    if op is None or not isinstance(loop.target, ast.Name):
        return None
    j = loop.target.id
    other = [p_ for p_ in params if p_ != op][0]
    body = [st for st in loop.body if not (isinstance(st, ast.Expr) and isinstance(st.value, ast.Constant))]
    if len(body) != 1 or not isinstance(body[0], ast.Assign) or len(body[0].targets) != 1:
        return None
    tg, val = body[0].targets[0], body[0].value
    if not (isinstance(tg, ast.Subscript) and unparse(tg.value) == res and isinstance(tg.slice, ast.Tuple) and len(tg.slice.elts) == 2):
        return None
    rows, cols = tg.slice.elts
    if not (isinstance(rows, ast.Slice) and rows.lower is None and rows.upper is None and isinstance(cols, ast.Slice) and cols.step is None):
        return None

    def norm(e):
        t = unparse(e)
        for k, v in al.items():
            t = t.replace(k, v) if t == k else t
        return t

    def is_width(e):
        t = unparse(e)
        return al.get(t, t) == f"{other}.shape[1]"

    lo, hi = cols.lower, cols.upper
    ok_lo = isinstance(lo, ast.BinOp) and isinstance(lo.op, ast.Mult) and ((unparse(lo.left) == j and is_width(lo.right)) or (unparse(lo.right) == j and is_width(lo.left)))
    ok_hi = isinstance(hi, ast.BinOp) and isinstance(hi.op, ast.Mult) and any(
        unparse(a) in (f"{j} + 1", f"1 + {j}") and is_width(b) for a, b in ((hi.left, hi.right), (hi.right, hi.left)))
    if not ok_hi and isinstance(hi, ast.BinOp) and isinstance(hi.op, ast.Add) and lo is not None:
        ok_hi = any(unparse(a) == unparse(lo) and is_width(b) for a, b in ((hi.left, hi.right), (hi.right, hi.left)))
    if not (ok_lo and ok_hi):
        raise AnalysisError(f"order algebra: unmodelled block bounds `{unparse(cols)}` in {fn.qual}")
    # element: <op>[:, [j]] * <other>   (either order) / <op>[:, j, None] / <op>[:, j][:, None] / <op>[:, j:j + 1]
    single = {f"{op}[:, [{j}]]", f"{op}[:, {j}, None]", f"{op}[:, {j}, np.newaxis]", f"{op}[:, {j}][:, None]", f"{op}[:, {j}][:, np.newaxis]", f"{op}[:, {j}:{j} + 1]"}
    if not (isinstance(val, ast.BinOp) and isinstance(val.op, ast.Mult) and {unparse(val.left), unparse(val.right)} & single
            and other in (unparse(val.left), unparse(val.right))):
        kind = "masked" if any(isinstance(n, ast.Call) and (dotted(n.func) or "") in MASKING_CALLS for n in ast.walk(val)) else None
        if kind is None:
            raise AnalysisError(f"order algebra: stored block `{unparse(val)}` is not one column of `{op}` times `{other}` in {fn.qual}")
    else:
        kind = "product"
    stores = [st for st in ast.walk(fn.node) if isinstance(st, (ast.Assign, ast.AugAssign))
              and isinstance((st.targets[0] if isinstance(st, ast.Assign) else st.target), ast.Subscript)
              and unparse((st.targets[0] if isinstance(st, ast.Assign) else st.target).value) == res]
    if len(stores) != 1:
        raise AnalysisError(f"order algebra: `{res}` is stored into at several places in {fn.qual}")
    fn._pairwise_element = (kind, unparse(body[0]))
    return params.index(op), f"one block of `{other}`-many columns per column of `{op}`: `{op}` is major"


def _subst(e, local):
    """replace the names bound in the loop body by their defining expressions"""
    import copy
    if not local:
        return e

    class S(ast.NodeTransformer):
        def visit_Name(self, n):
            if isinstance(n.ctx, ast.Load) and n.id in local:
                return copy.deepcopy(local[n.id])
            return n

    return S().visit(copy.deepcopy(e))


MASKING_CALLS = ("np.where", "np.nan_to_num", "np.select", "np.choose", "np.putmask", "np.place", "np.nanprod", "np.nansum", "np.fmax", "np.fmin",
                 "np.nanmax", "np.nanmin")


def product_element(elt, params):
    """classification of the element a pairwise combinator stacks: 'product' (one column of each operand multiplied),
    'masked' (the product is post-processed / selected by a data-dependent condition), or None (not recognised)"""
    def col(e):
        return isinstance(e, ast.Subscript) and isinstance(e.value, ast.Name) and e.value.id in params

    if isinstance(elt, ast.BinOp) and isinstance(elt.op, ast.Mult) and col(elt.left) and col(elt.right) and elt.left.value.id != elt.right.value.id:
        return "product"
    if isinstance(elt, ast.Call) and dotted(elt.func) == "np.multiply" and len(elt.args) == 2 and all(col(a) for a in elt.args) and not elt.keywords:
        return "product"
    for n in ast.walk(elt):
        if isinstance(n, ast.Call) and ((dotted(n.func) or "") in MASKING_CALLS or (isinstance(n.func, ast.Attribute) and n.func.attr in ("fillna", "clip", "round", "astype"))):
            return "masked"
        if isinstance(n, ast.Call) and any(k.arg == "where" for k in n.keywords):
            return "masked"
    return None


def _khatri(node):
    if isinstance(node, ast.Attribute) and node.attr == "T" and isinstance(node.value, ast.Call) \
            and dotted(node.value.func) in ("linalg.khatri_rao", "scipy.linalg.khatri_rao") and len(node.value.args) == 2:
        names = []
        for a in node.value.args:
            if isinstance(a, ast.Attribute) and a.attr == "T" and isinstance(a.value, ast.Name):
                names.append(a.value.id)
            else:
                return None
        return names
    return None


def _range_param(it, params, aliases=None):
    """`range(<p>.shape[1])` (or a local alias of it) -> p"""
    if isinstance(it, ast.Call) and dotted(it.func) == "range" and len(it.args) == 1:
        s = unparse(it.args[0])
        if aliases and s in aliases:
            s = aliases[s]
        for p in params:
            if s == f"{p}.shape[1]":
                return p
    return None


def _shape_aliases(fn):
    out = {}
    for s in walk_local(fn.node):
        if isinstance(s, ast.Assign) and len(s.targets) == 1:
            t, v = s.targets[0], s.value
            if isinstance(t, ast.Name) and isinstance(v, ast.Subscript) and unparse(v).endswith(".shape[1]"):
                out[t.id] = unparse(v)
            if isinstance(t, ast.Tuple) and len(t.elts) == 2 and isinstance(v, ast.Attribute) and v.attr == "shape" and isinstance(t.elts[1], ast.Name):
                out[t.elts[1].id] = f"{unparse(v.value)}.shape[1]"
            if isinstance(t, ast.Tuple) and isinstance(v, ast.Tuple) and len(t.elts) == len(v.elts):
                for t1, v1 in zip(t.elts, v.elts):
                    if isinstance(t1, ast.Name) and isinstance(v1, ast.Subscript) and unparse(v1).endswith(".shape[1]"):
                        out[t1.id] = unparse(v1)
    return out


def _from_loops(fn, params, ovar, oiter, ivar, iiter, elt):
    al = _shape_aliases(fn)
    op = _range_param(oiter, params, al)
    ip = _range_param(iiter, params, al)
    if op is None or ip is None or op == ip:
        raise AnalysisError(f"order algebra: loop ranges `{unparse(oiter)}` / `{unparse(iiter)}` are not range(<param>.shape[1]) in {fn.qual}")
    # which parameter does each loop variable index?
    idx = {}
    for n in ast.walk(elt):
        if isinstance(n, ast.Subscript) and isinstance(n.value, ast.Name) and n.value.id in params:
            s = n.slice
            col = s.elts[-1] if isinstance(s, ast.Tuple) else s
            if isinstance(col, ast.Name):
                idx.setdefault(col.id, set()).add(n.value.id)
    if idx.get(ovar) != {op} or idx.get(ivar) != {ip}:
        raise_v = f"outer variable `{ovar}` ranges over {op} but indexes {sorted(idx.get(ovar, []))}; inner `{ivar}` ranges over {ip} but indexes {sorted(idx.get(ivar, []))}"
        return (-1, "index/range mismatch: " + raise_v)
    kind = product_element(elt, params)
    if kind is None:
        raise AnalysisError(f"order algebra: appended element `{unparse(elt)}` is not a product of one column of each operand in {fn.qual}")
    fn._pairwise_element = (kind, unparse(elt))
    return params.index(op), f"outer loop runs over the columns of `{op}`, inner over `{ip}`: `{op}` is major"


def fold_operand(arg, fn=None):
    """the sequence a fold runs over, as a one-`for` comprehension node: a list comprehension / generator expression, possibly
    wrapped in list(...) / tuple(...), or a local bound once to one of these; None otherwise"""
    e = arg
    for _ in range(4):
        if isinstance(e, ast.Call) and dotted(e.func) in ("list", "tuple") and len(e.args) == 1 and not e.keywords:
            e = e.args[0]
            continue
        if isinstance(e, ast.Name) and fn is not None:
            ds = [st for st in walk_local(fn.node) if isinstance(st, ast.Assign) and len(st.targets) == 1 and unparse(st.targets[0]) == e.id]
            stores = [n for n in ast.walk(fn.node) if isinstance(n, ast.Name) and n.id == e.id and isinstance(n.ctx, ast.Store)]
            if len(ds) == 1 and len(stores) == 1:
                e = ds[0].value
                continue
        break
    if isinstance(e, (ast.ListComp, ast.GeneratorExp)) and len(e.generators) == 1 and not e.generators[0].ifs:
        return e
    return None


def fold_order(call, combinator_major, fn=None):
    """`reduce(f, [E(c) for c in XS])` -> ('XS', 'leftmost-major' | 'rightmost-major', element expr)"""
    if not (isinstance(call, ast.Call) and dotted(call.func) in ("reduce", "functools.reduce") and len(call.args) == 2):
        raise AnalysisError(f"order algebra: `{unparse(call)}` is not reduce(f, list)")
    lc = fold_operand(call.args[1], fn)
    if lc is None:
        raise AnalysisError(f"order algebra: unmodelled fold operand `{unparse(call.args[1])}`")
    src = unparse(lc.generators[0].iter)
    rev = False
    it = lc.generators[0].iter
    if isinstance(it, ast.Call) and dotted(it.func) == "reversed":
        src, rev = unparse(it.args[0]), True
    if isinstance(it, ast.Subscript) and unparse(it.slice) == "::-1":
        src, rev = unparse(it.value), True
    # left fold: acc = f(acc, next).  f first-param-major => earlier elements are major
    leftmost = (combinator_major == 0) != rev
    return src, "leftmost-major" if leftmost else "rightmost-major", unparse(lc.elt)


def product_order(node, defs):
    """`itertools.product(*L)` where L was filled in a loop over XS -> ('XS', 'leftmost-major')"""
    if not (isinstance(node, ast.Call) and dotted(node.func) in ("itertools.product", "product")):
        raise AnalysisError(f"order algebra: `{unparse(node)}` is not itertools.product")
    if len(node.args) != 1 or not isinstance(node.args[0], ast.Starred):
        raise AnalysisError(f"order algebra: unmodelled product arguments `{unparse(node)}`")
    inner = node.args[0].value
    rev = False
    if isinstance(inner, ast.Subscript) and unparse(inner.slice) == "::-1":
        inner, rev = inner.value, True
    if isinstance(inner, ast.Call) and dotted(inner.func) == "reversed":
        inner, rev = inner.args[0], True
    if not isinstance(inner, ast.Name):
        raise AnalysisError(f"order algebra: unmodelled product operand `{unparse(inner)}`")
    return inner.id, ("rightmost-major" if rev else "leftmost-major")


def list_fill_source(fn, listname):
    """the collection a list is filled from: `for c in XS: L.append(E(c))` (possibly under if/elif) -> XS"""
    loops = [n for n in walk_local(fn.node) if isinstance(n, ast.For) and any(
        isinstance(x, ast.Call) and unparse(x.func) == f"{listname}.append" for x in ast.walk(n))]
    if not loops:
        # the list is a comprehension / generator bound once to the name: [E(c) for c in XS]
        ds = [st for st in walk_local(fn.node) if isinstance(st, ast.Assign) and len(st.targets) == 1 and unparse(st.targets[0]) == listname]
        # the name may be re-bound afterwards to the joined labels (`labels = [":".join(t) for t in product(*labels)]`): the
        # collection that is handed to product(...) is the binding that does not read the name itself
        ds = [st for st in ds if not any(isinstance(n, ast.Name) and n.id == listname for n in ast.walk(st.value))
              and isinstance(st.value, (ast.ListComp, ast.GeneratorExp))]
        if len(ds) == 1 and isinstance(ds[0].value, (ast.ListComp, ast.GeneratorExp)) and len(ds[0].value.generators) == 1 \
                and not ds[0].value.generators[0].ifs:
            it = ds[0].value.generators[0].iter
            rev = (isinstance(it, ast.Call) and dotted(it.func) == "reversed") or (isinstance(it, ast.Subscript) and unparse(it.slice) == "::-1")
            src = unparse(it.args[0]) if rev and isinstance(it, ast.Call) else unparse(it.value) if rev else unparse(it)
            return src, rev
    if len(loops) != 1:
        raise AnalysisError(f"order algebra: list `{listname}` in {fn.qual} is not filled by exactly one loop")
    lp = loops[0]
    it = lp.iter
    rev = (isinstance(it, ast.Call) and dotted(it.func) == "reversed") or (isinstance(it, ast.Subscript) and unparse(it.slice) == "::-1")
    src = unparse(it.args[0]) if rev and isinstance(it, ast.Call) else unparse(it.value) if rev else unparse(it)
    ins = [x for x in ast.walk(lp) if isinstance(x, ast.Call) and unparse(x.func) == f"{listname}.insert"]
    if ins:
        rev = not rev
    return src, rev


def comprehension_order(lc):
    """multi-`for` comprehension: the first `for` is the outer (major) loop -> [(target, iter), ...] major to minor"""
    return [(unparse(g.target), unparse(g.iter)) for g in lc.generators]

"""Grammar extraction from formulae/parser.py.

`extract(prog)` translates every method of ``Parser`` that is not one of the seven
cursor primitives into a small structured IR (a normalised, restricted subset of
Python: nonterminal calls, token tests, node construction, if/while/break/
return/raise).  Anything outside the modelled idioms is an AnalysisError.

`paths(ir, name)` symbolically enumerates the paths of one production (loops
unrolled up to `UNROLL` iterations) and returns *path summaries*: the ordered list
of grammar events (tokens consumed, nonterminals called) plus the symbolic tree
that is returned.  The C01/C12 rules are decided on these summaries.

`Interp` runs the extracted IR as a generic recursive-descent engine on sequences
of abstract tokens (thorough tier: bounded comparison with a reference parser).
This executes the *extracted model*, never the repository.
"""
import ast

from .core import AnalysisError, dotted, unparse, strip_docstring

PRIMITIVES = ("at_end", "advance", "peek", "previous", "check", "match", "consume")
UNROLL = 2


# --------------------------------------------------------------------------------------
# extraction: Python AST -> IR
# --------------------------------------------------------------------------------------
class Extractor:
    def __init__(self, prog):
        self.prog = prog
        self.parser = prog.cls("parser.Parser")
        self.mod = self.parser.module
        self.exprmod = prog.mod("expr")
        self.expr_classes = {}
        for name, c in self.exprmod.classes.items():
            init = c.methods.get("__init__")
            if init is None:
                continue
            self.expr_classes[name] = self._fields(c, init)
        self.productions = {}
        for name, f in self.parser.methods.items():
            if name in PRIMITIVES or name == "__init__":
                continue
            self.fn = f
            params = f.params[1:]
            self.productions[name] = {
                "params": params,
                "body": self._block(f.body),
                "fn": f,
            }

    def _fields(self, c, init):
        """constructor parameter -> field name map for an expr node class."""
        params = init.params[1:]
        defaults = {}
        d = init.node.args.defaults
        for p, dv in zip(params[len(params) - len(d):], d):
            defaults[p] = ast.literal_eval(dv) if isinstance(dv, ast.Constant) else None
        fields = {}
        for s in init.body:
            if (
                isinstance(s, ast.Assign)
                and len(s.targets) == 1
                and isinstance(s.targets[0], ast.Attribute)
                and isinstance(s.targets[0].value, ast.Name)
                and s.targets[0].value.id == "self"
                and isinstance(s.value, ast.Name)
                and s.value.id in params
            ):
                fields[s.value.id] = s.targets[0].attr
            else:
                raise AnalysisError(
                    f"expr.{c.name}.__init__: unmodelled statement `{unparse(s)}` "
                    "(expected `self.<field> = <param>`)"
                )
        return {"params": params, "fields": fields, "defaults": defaults}

    def err(self, node, what):
        raise AnalysisError(
            f"grammar extractor: unmodelled {what} `{unparse(node)}` in "
            f"{self.fn.qual} ({self.fn.loc(node)})"
        )

    # ---- kinds ------------------------------------------------------------------------
    def _kinds(self, node):
        if isinstance(node, ast.Constant) and isinstance(node.value, str):
            return (node.value,)
        if isinstance(node, (ast.List, ast.Tuple)) and all(
            isinstance(e, ast.Constant) and isinstance(e.value, str) for e in node.elts
        ):
            return tuple(e.value for e in node.elts)
        # a module-level or class-level constant list of kinds
        if isinstance(node, ast.Name) and node.id in self.mod.globals:
            vals = [v for v in self.mod.globals[node.id] if v is not None]
            if len(vals) == 1:
                return self._kinds(vals[0])
        if isinstance(node, ast.Attribute) and isinstance(node.value, ast.Name) and node.value.id in ("self", "Parser", "cls") \
                and node.attr in self.parser.class_attrs:
            return self._kinds(self.parser.class_attrs[node.attr])
        if isinstance(node, ast.BinOp) and isinstance(node.op, ast.Add):
            return self._kinds(node.left) + self._kinds(node.right)
        # a local of the production that is bound once to a constant list of kinds
        if isinstance(node, ast.Name):
            defs = [st.value for st in ast.walk(self.fn.node) if isinstance(st, ast.Assign) and len(st.targets) == 1
                    and isinstance(st.targets[0], ast.Name) and st.targets[0].id == node.id]
            stores = [x for x in ast.walk(self.fn.node) if isinstance(x, ast.Name) and x.id == node.id and isinstance(x.ctx, ast.Store)]
            if len(defs) == 1 and len(stores) == 1 and isinstance(defs[0], (ast.List, ast.Tuple, ast.Constant)):
                return self._kinds(defs[0])
        self.err(node, "token-kind argument")

    # ---- values -----------------------------------------------------------------------
    def _self_call(self, node):
        if (
            isinstance(node, ast.Call)
            and isinstance(node.func, ast.Attribute)
            and isinstance(node.func.value, ast.Name)
            and node.func.value.id == "self"
        ):
            return node.func.attr
        return None

    def _value(self, node):
        m = self._self_call(node)
        if m is not None:
            if m == "previous":
                return ("prev",)
            if m == "peek":
                return ("peek",)
            if m == "consume":
                return ("consume", self._kinds(node.args[0]))
            if m == "advance":
                return ("advance",)
            if m in PRIMITIVES:
                self.err(node, "use of primitive as value")
            if m not in self.parser.methods:
                self.err(node, "call to unknown Parser method")
            if node.keywords:
                self.err(node, "keyword arguments in nonterminal call")
            return ("nt", m, [self._value(a) for a in node.args])
        if isinstance(node, ast.Call) and isinstance(node.func, ast.Name):
            kind, q = self.prog.resolve(self.mod, node.func.id)
            if kind == "class" and q.startswith("formulae.expr."):
                cname = q.rsplit(".", 1)[1]
                info = self.expr_classes[cname]
                args = {}
                for p, a in zip(info["params"], node.args):
                    args[p] = self._value(a)
                for kw in node.keywords:
                    if kw.arg not in info["params"]:
                        self.err(node, "keyword of node constructor")
                    args[kw.arg] = self._value(kw.value)
                for p in info["params"]:
                    if p not in args:
                        if p in info["defaults"]:
                            args[p] = ("const", info["defaults"][p])
                        else:
                            self.err(node, "missing constructor argument")
                return ("node", cname, args)
            if kind == "class" and q == "formulae.token.Token":
                vals = [self._value(a) for a in node.args]
                if not all(v[0] == "const" for v in vals) or len(vals) < 2:
                    self.err(node, "non-constant Token construction")
                return ("ctok", vals[0][1], vals[1][1])
            self.err(node, "call")
        if isinstance(node, ast.Name):
            return ("var", node.id)
        if isinstance(node, ast.Attribute):
            return ("attr", self._value(node.value), node.attr)
        if isinstance(node, ast.Constant):
            return ("const", node.value)
        if isinstance(node, ast.List):
            return ("list", [self._value(e) for e in node.elts])
        self.err(node, "expression")

    # ---- conditions -------------------------------------------------------------------
    def _cond(self, node):
        m = self._self_call(node)
        if m == "match":
            return ("match", self._kinds(node.args[0]))
        if m == "check":
            return ("check", self._kinds(node.args[0]))
        if m == "at_end":
            return ("at_end",)
        if isinstance(node, ast.UnaryOp) and isinstance(node.op, ast.Not):
            return ("not", self._cond(node.operand))
        if isinstance(node, ast.BoolOp):
            op = "and" if isinstance(node.op, ast.And) else "or"
            return (op, [self._cond(v) for v in node.values])
        if isinstance(node, ast.Constant) and node.value is True:
            return ("true",)
        if isinstance(node, ast.Call) and isinstance(node.func, ast.Name) and node.func.id == "isinstance":
            classes = node.args[1].elts if isinstance(node.args[1], ast.Tuple) else [node.args[1]]
            names = []
            for c in classes:
                if not isinstance(c, ast.Name):
                    self.err(node, "isinstance class")
                names.append(c.id)
            return ("isinstance", self._value(node.args[0]), tuple(names))
        if (
            isinstance(node, ast.Compare)
            and len(node.ops) == 1
            and isinstance(node.ops[0], (ast.Is, ast.IsNot))
            and isinstance(node.comparators[0], ast.Constant)
            and node.comparators[0].value is None
        ):
            c = ("isnone", self._value(node.left))
            return ("not", c) if isinstance(node.ops[0], ast.IsNot) else c
        # <token value>.kind == "K" / != "K" / in ("K1", "K2") / not in (...): a test on the kind of a token taken earlier
        if isinstance(node, ast.Compare) and len(node.ops) == 1 and isinstance(node.ops[0], (ast.Eq, ast.NotEq, ast.In, ast.NotIn)) \
                and ((isinstance(node.left, ast.Attribute) and node.left.attr == "kind") or isinstance(node.left, ast.Name)):
            comp = node.comparators[0]
            kinds = None
            if isinstance(comp, ast.Constant) and isinstance(comp.value, str) and isinstance(node.ops[0], (ast.Eq, ast.NotEq)):
                kinds = (comp.value,)
            elif isinstance(comp, (ast.Tuple, ast.List, ast.Set)) and all(isinstance(e, ast.Constant) and isinstance(e.value, str) for e in comp.elts) \
                    and isinstance(node.ops[0], (ast.In, ast.NotIn)):
                kinds = tuple(e.value for e in comp.elts)
            if kinds is not None:
                c = ("kindin", self._value(node.left), kinds)
                return ("not", c) if isinstance(node.ops[0], (ast.NotEq, ast.NotIn)) else c
        self.err(node, "condition")

    # ---- statements -------------------------------------------------------------------
    def _block(self, stmts):
        out = []
        for s in strip_docstring(stmts):
            out.append(self._stmt(s))
        return out

    def _stmt(self, s):
        ln = s.lineno
        if isinstance(s, ast.Assign):
            if len(s.targets) != 1 or not isinstance(s.targets[0], ast.Name):
                self.err(s, "assignment target")
            return ("assign", s.targets[0].id, self._value(s.value), ln)
        if isinstance(s, ast.Expr):
            v = s.value
            if (
                isinstance(v, ast.Call)
                and isinstance(v.func, ast.Attribute)
                and v.func.attr == "append"
                and isinstance(v.func.value, ast.Name)
                and len(v.args) == 1
            ):
                return ("append", v.func.value.id, self._value(v.args[0]), ln)
            m = self._self_call(v)
            if m == "consume":
                return ("expr", ("consume", self._kinds(v.args[0])), ln)
            if m == "advance":
                return ("expr", ("advance",), ln)
            if m == "match":
                # result ignored: the token is consumed only if present
                return ("if", ("match", self._kinds(v.args[0])), [], [], ln)
            if m is not None and m not in PRIMITIVES:
                return ("expr", self._value(v), ln)
            self.err(s, "expression statement")
        if isinstance(s, ast.If):
            return ("if", self._cond(s.test), self._block(s.body), self._block(s.orelse), ln)
        if isinstance(s, ast.While):
            if s.orelse:
                self.err(s, "while-else")
            return ("while", self._cond(s.test), self._block(s.body), ln)
        if isinstance(s, ast.Break):
            return ("break", ln)
        if isinstance(s, ast.Return):
            if s.value is None:
                return ("return", ("const", None), ln)
            return ("return", self._value(s.value), ln)
        if isinstance(s, ast.Raise):
            return ("raise", dotted(s.exc.func) if isinstance(s.exc, ast.Call) else unparse(s.exc), ln)
        if isinstance(s, ast.Pass):
            return ("pass", ln)
        self.err(s, "statement")


def extract(prog):
    return Extractor(prog)


# --------------------------------------------------------------------------------------
# symbolic path enumeration
# --------------------------------------------------------------------------------------
class Path:
    __slots__ = ("events", "env", "facts", "truncated")

    def __init__(self, events=None, env=None, facts=None):
        self.events = list(events or [])  # ('tok', kinds, how, line) | ('nt', name, args, line)
        self.env = dict(env or {})
        self.facts = list(facts or [])  # (position, fact)
        self.truncated = False

    def clone(self):
        p = Path(self.events, self.env, self.facts)
        p.truncated = self.truncated
        return p


class PathEnum:
    """Enumerate symbolic paths of one production."""

    def __init__(self, ex, name):
        self.ex = ex
        self.name = name
        prod = ex.productions[name]
        p = Path()
        for i, a in enumerate(prod["params"]):
            p.env[a] = ("param", a)
        self.results = []  # (path, status, value)
        for path, status, val in self._block(prod["body"], p):
            if status == "normal":
                status, val = "return", ("const", None)
                path.facts.append((len(path.events), ("falloff",)))
            self.results.append((path, status, val))

    # values ----------------------------------------------------------------------------
    def _last_tok(self, path):
        if path.events and path.events[-1][0] == "tok":
            return ("tokv", len(path.events) - 1, path.events[-1][1])
        return None

    def _eval(self, v, path):
        t = v[0]
        if t == "var":
            if v[1] not in path.env:
                raise AnalysisError(f"grammar: use of unbound local `{v[1]}` in production {self.name}")
            return path.env[v[1]]
        if t == "prev":
            tv = self._last_tok(path)
            if tv is None:
                raise AnalysisError(
                    f"grammar: `self.previous()` in production {self.name} not directly after a token test"
                )
            return tv
        if t == "peek":
            return ("peek",)
        if t == "consume":
            path.events.append(("tok", v[1], "consume", None))
            return ("tokv", len(path.events) - 1, v[1])
        if t == "advance":
            kinds = ("*",)
            for pos, fact in reversed(path.facts):
                if pos == len(path.events) and fact[0] == "next":
                    kinds = tuple(fact[1])
                    break
                if pos < len(path.events):
                    break
            how = "advance" if kinds == ("*",) else "match"
            path.events.append(("tok", kinds, how, None))
            return ("tokv", len(path.events) - 1, kinds)
        if t == "nt":
            args = [self._eval(a, path) for a in v[2]]
            path.events.append(("nt", v[1], args, None))
            return ("hole", len(path.events) - 1, v[1])
        if t == "node":
            return ("node", v[1], {k: self._eval(a, path) for k, a in v[2].items()})
        if t == "attr":
            base = self._eval(v[1], path)
            if base == ("peek",) and v[2] == "kind":
                return ("peekkind", len(path.events))
            return ("attr", base, v[2])
        if t == "list":
            return ("list", [self._eval(e, path) for e in v[1]])
        if t in ("const", "ctok"):
            return v
        raise AnalysisError(f"grammar: cannot evaluate {v}")

    # conditions: returns list of (path, truth) -------------------------------------------
    def _cond(self, c, path):
        t = c[0]
        if t == "match":
            yes = path.clone()
            yes.events.append(("tok", c[1], "match", None))
            no = path.clone()
            no.facts.append((len(no.events), ("nomatch", c[1])))
            return [(yes, True), (no, False)]
        if t == "check":
            yes = path.clone()
            yes.facts.append((len(yes.events), ("next", c[1])))
            no = path.clone()
            no.facts.append((len(no.events), ("nonext", c[1])))
            return [(yes, True), (no, False)]
        if t == "at_end":
            yes = path.clone()
            yes.facts.append((len(yes.events), ("at_end", True)))
            no = path.clone()
            no.facts.append((len(no.events), ("at_end", False)))
            return [(yes, True), (no, False)]
        if t == "true":
            return [(path, True)]
        if t == "not":
            return [(p, not b) for p, b in self._cond(c[1], path)]
        if t in ("and", "or"):
            outs = [(path, t == "and")]
            for sub in c[1]:
                new = []
                for p, b in outs:
                    if (t == "and" and not b) or (t == "or" and b):
                        new.append((p, b))
                    else:
                        new.extend(self._cond(sub, p))
                outs = new
            return outs
        if t == "isinstance":
            val = self._eval(c[1], path.clone())
            if val[0] == "node":
                return [(path, val[1] in c[2])]
            if val[0] == "const":
                ty = type(val[1]).__name__
                return [(path, ty in c[2])]
            yes, no = path.clone(), path.clone()
            yes.facts.append((len(yes.events), ("isinstance", val, c[2], True)))
            no.facts.append((len(no.events), ("isinstance", val, c[2], False)))
            return [(yes, True), (no, False)]
        if t == "kindin":
            val = self._eval(c[1], path.clone())
            if val[0] == "peekkind":
                # the kind of the NEXT token, read with peek(): the same split as check(kinds), valid while no token was taken since
                if val[1] != len(path.events):
                    raise AnalysisError(f"grammar: the kind read with peek() is tested after another token was taken, in production {self.name}")
                yes, no = path.clone(), path.clone()
                yes.facts.append((len(yes.events), ("next", c[2])))
                no.facts.append((len(no.events), ("nonext", c[2])))
                return [(yes, True), (no, False)]
            if val[0] == "attr" and val[2] == "kind":
                val = val[1]
            if val[0] == "ctok":
                return [(path, val[1] in c[2])]
            if val[0] != "tokv":
                raise AnalysisError(f"grammar: `.kind` of something that is not a token taken on this path, in production {self.name}")
            idx, kinds = val[1], tuple(val[2])
            if kinds == ("*",):
                raise AnalysisError(f"grammar: `.kind` test on a token taken by advance() in production {self.name}")
            yes_k = tuple(k for k in kinds if k in c[2])
            no_k = tuple(k for k in kinds if k not in c[2])
            outs = []
            for ks, truth in ((yes_k, True), (no_k, False)):
                if not ks:
                    continue
                p2 = path.clone()
                ev = p2.events[idx]
                p2.events[idx] = (ev[0], ks) + tuple(ev[2:])
                # every value that refers to this token sees the refined kinds
                def refine(v):
                    if isinstance(v, tuple) and v and v[0] == "tokv" and v[1] == idx:
                        return ("tokv", idx, ks)
                    if isinstance(v, tuple):
                        return tuple(refine(x) for x in v)
                    if isinstance(v, list):
                        return [refine(x) for x in v]
                    if isinstance(v, dict):
                        return {k: refine(x) for k, x in v.items()}
                    return v
                p2.env = {k: refine(x) for k, x in p2.env.items()}
                outs.append((p2, truth))
            return outs
        if t == "isnone":
            val = self._eval(c[1], path.clone())
            if val[0] == "const":
                return [(path, val[1] is None)]
            if val[0] in ("node", "tokv", "hole", "list"):
                return [(path, False)]
            return [(path.clone(), True), (path.clone(), False)]
        raise AnalysisError(f"grammar: cannot evaluate condition {c}")

    # blocks ------------------------------------------------------------------------------
    def _block(self, stmts, path):
        """yield (path, status, value) with status in normal/break/return/raise."""
        states = [path]
        out = []
        for s in stmts:
            nxt = []
            for p in states:
                for p2, status, val in self._stmt(s, p):
                    if status == "normal":
                        nxt.append(p2)
                    else:
                        out.append((p2, status, val))
            states = nxt
            if not states:
                break
        out.extend((p, "normal", None) for p in states)
        return out

    def _stmt(self, s, path):
        t = s[0]
        if t == "assign":
            p = path.clone()
            p.env[s[1]] = self._eval(s[2], p)
            return [(p, "normal", None)]
        if t == "append":
            p = path.clone()
            cur = p.env.get(s[1])
            if cur is None or cur[0] != "list":
                raise AnalysisError(f"grammar: append to non-list `{s[1]}` in {self.name}")
            p.env[s[1]] = ("list", cur[1] + [self._eval(s[2], p)])
            return [(p, "normal", None)]
        if t == "expr":
            p = path.clone()
            self._eval(s[1], p)
            return [(p, "normal", None)]
        if t == "pass":
            return [(path, "normal", None)]
        if t == "return":
            p = path.clone()
            return [(p, "return", self._eval(s[1], p))]
        if t == "raise":
            return [(path, "raise", s[1])]
        if t == "break":
            return [(path, "break", None)]
        if t == "if":
            out = []
            for p, truth in self._cond(s[1], path):
                out.extend(self._block(s[2] if truth else s[3], p))
            return out
        if t == "while":
            out = []
            frontier = [path]
            for it in range(UNROLL + 1):
                nxt = []
                for p in frontier:
                    for p2, truth in self._cond(s[1], p):
                        if not truth:
                            out.append((p2, "normal", None))
                            continue
                        if it == UNROLL:
                            p2.truncated = True
                            continue
                        for p3, status, val in self._block(s[2], p2):
                            if status == "normal":
                                nxt.append(p3)
                            elif status == "break":
                                out.append((p3, "normal", None))
                            else:
                                out.append((p3, status, val))
                frontier = nxt
                if not frontier:
                    break
            return out
        raise AnalysisError(f"grammar: unknown IR statement {t}")


def summaries(ex):
    return {name: PathEnum(ex, name).results for name in ex.productions}


# ---- helpers on symbolic values ---------------------------------------------------------
def leaves(val):
    """In-order list of event indices (holes and token values) referenced by a symbolic tree."""
    t = val[0]
    if t in ("hole", "tokv"):
        return [val[1]]
    if t == "node":
        out = []
        for a in val[2].values():
            out.extend(leaves(a))
        return out
    if t == "attr":
        return leaves(val[1])
    if t == "list":
        out = []
        for e in val[1]:
            out.extend(leaves(e))
        return out
    return []


def show(val):
    t = val[0]
    if t == "hole":
        return f"<{val[2]}#{val[1]}>"
    if t == "tokv":
        return "tok" + str(val[1]) + "{" + "|".join(val[2]) + "}"
    if t == "node":
        return f"{val[1]}(" + ", ".join(f"{k}={show(a)}" for k, a in val[2].items()) + ")"
    if t == "attr":
        return f"{show(val[1])}.{val[2]}"
    if t == "list":
        return "[" + ", ".join(show(e) for e in val[1]) + "]"
    if t == "const":
        return repr(val[1])
    if t == "ctok":
        return f"Token({val[1]!r},{val[2]!r})"
    if t == "param":
        return f"${val[1]}"
    return str(val)


# --------------------------------------------------------------------------------------
# generic interpreter of the extracted IR (thorough tier)
# --------------------------------------------------------------------------------------
class ParseFail(Exception):
    pass


class ModelCrash(Exception):
    """The modelled parser would raise something else than ParseError (e.g. AttributeError)."""


class Interp:
    """Runs the IR on a list of abstract tokens (kind, lexeme, literal)."""

    def __init__(self, ex, eof_kind="EOF", fuel=20000):
        self.ex = ex
        self.eof = eof_kind
        self.fuel = fuel

    def parse(self, tokens, start="parse"):
        self.toks = tokens
        self.cur = 0
        self.steps = 0
        return self._call(start, [])

    # primitives (contracts of the seven cursor methods are checked separately, R1.5)
    def at_end(self):
        return self.toks[self.cur][0] == self.eof

    def check(self, kinds):
        return (not self.at_end()) and self.toks[self.cur][0] in kinds

    def advance(self):
        if not self.at_end():
            self.cur += 1
        return self.toks[self.cur - 1]

    def _call(self, name, args):
        prod = self.ex.productions[name]
        env = dict(zip(prod["params"], args))
        status, val = self._block(prod["body"], env)
        if status == "return":
            return val
        return None

    def _val(self, v, env):
        t = v[0]
        if t == "var":
            return env[v[1]]
        if t == "prev":
            return self.toks[self.cur - 1]
        if t == "peek":
            return self.toks[self.cur]
        if t == "consume":
            if self.check(v[1]):
                return self.advance()
            raise ParseFail()
        if t == "advance":
            return self.advance()
        if t == "nt":
            self.steps += 1
            if self.steps > self.fuel:
                raise ModelCrash("fuel exhausted (non-terminating model)")
            return self._call(v[1], [self._val(a, env) for a in v[2]])
        if t == "node":
            return (v[1],) + tuple(self._val(a, env) for a in v[2].values())
        if t == "attr":
            base = self._val(v[1], env)
            return self._attr(base, v[2])
        if t == "list":
            return [self._val(e, env) for e in v[1]]
        if t == "const":
            return v[1]
        if t == "ctok":
            return (v[1], v[2], None)
        raise ModelCrash(str(v))

    def _attr(self, base, name):
        if isinstance(base, tuple) and base and isinstance(base[0], str) and base[0] in self.ex.expr_classes:
            info = self.ex.expr_classes[base[0]]
            for i, p in enumerate(info["params"]):
                if info["fields"].get(p) == name:
                    return base[1 + i]
            raise ModelCrash(f"AttributeError {base[0]}.{name}")
        if isinstance(base, tuple) and len(base) == 3:
            if name in ("kind", "lexeme", "literal"):
                return base[("kind", "lexeme", "literal").index(name)]
        raise ModelCrash(f"AttributeError .{name}")

    def _cond(self, c, env):
        t = c[0]
        if t == "match":
            if self.check(c[1]):
                self.advance()
                return True
            return False
        if t == "check":
            return self.check(c[1])
        if t == "at_end":
            return self.at_end()
        if t == "true":
            return True
        if t == "not":
            return not self._cond(c[1], env)
        if t == "and":
            return all(self._cond(s, env) for s in c[1])
        if t == "or":
            return any(self._cond(s, env) for s in c[1])
        if t == "isinstance":
            val = self._val(c[1], env)
            if isinstance(val, tuple) and val and isinstance(val[0], str) and val[0] in self.ex.expr_classes:
                return val[0] in c[2]
            return type(val).__name__ in c[2]
        if t == "isnone":
            return self._val(c[1], env) is None
        raise ModelCrash(str(c))

    def _block(self, stmts, env):
        for s in stmts:
            t = s[0]
            if t == "assign":
                env[s[1]] = self._val(s[2], env)
            elif t == "append":
                env[s[1]].append(self._val(s[2], env))
            elif t == "expr":
                self._val(s[1], env)
            elif t == "pass":
                pass
            elif t == "return":
                return ("return", self._val(s[1], env))
            elif t == "raise":
                raise ParseFail()
            elif t == "break":
                return ("break", None)
            elif t == "if":
                st = self._block(s[2] if self._cond(s[1], env) else s[3], env)
                if st[0] != "normal":
                    return st
            elif t == "while":
                while self._cond(s[1], env):
                    self.steps += 1
                    if self.steps > self.fuel:
                        raise ModelCrash("fuel exhausted (non-terminating model)")
                    st = self._block(s[2], env)
                    if st[0] == "break":
                        break
                    if st[0] != "normal":
                        return st
            else:
                raise ModelCrash(t)
        return ("normal", None)

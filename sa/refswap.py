"""Translation-validation layer: a function of the reference inventory whose current version is canonically
equal (sa/canon.py, after helper inlining and constant propagation) to its reference version is analysed in its
reference form.  New helper functions that are no longer referenced after inlining are dropped from the program
model.  A function that differs canonically is analysed as it is - by the rules, which then decide.
The reference sources live in sa/reference_src/ (a copy of /repo/formulae at the reference commit, regenerated
by tools/gen_inventory.py after every fix: commit)."""
import ast
import copy
import os

from .core import VERIF, unparse
from .canon import canon

REF_ROOT = os.path.join(VERIF, "sa", "reference_src")


def swap(prog, inventory):
    from .core import Program

    if not os.path.isdir(os.path.join(REF_ROOT, "formulae")):
        return
    ref = Program(REF_ROOT, normalise=False)
    from . import canon as _canon

    _canon.PROPERTY_NAMES.clear()
    for pr in (prog, ref):
        for fi in pr.functions.values():
            if fi.is_property or any("setter" in unparse(d) or "getter" in unparse(d) for d in fi.node.decorator_list):
                _canon.PROPERTY_NAMES.add(fi.name)
        for ci in pr.classes.values():
            # properties of this class and of its program base classes
            props = set()
            work, seen_ = [ci], set()
            while work:
                k = work.pop()
                if k.qual in seen_:
                    continue
                seen_.add(k.qual)
                props |= {mn for mn, mi in k.methods.items() if mi.is_property} | set(k.setters)
                for b in k.bases:
                    kind_, q_ = pr.resolve(k.module, b.split(".")[0]) if b and "." not in b else (None, None)
                    if kind_ == "class" and q_ in pr.classes:
                        work.append(pr.classes[q_])
                    elif b not in ("object", "ABC", "Exception"):
                        props.add("*unknown-base*")
            for mi in list(ci.methods.values()) + list(ci.setters.values()):
                mi.node._props = (props | _canon.PROPERTY_NAMES) if "*unknown-base*" in props else props
            if any(mn in ci.methods for mn in ("__setattr__", "__getattr__", "__getattribute__")) or "__slots__" in ci.class_attrs:
                _canon.PROPERTY_NAMES.add("*")
                for mi in ci.methods.values():
                    mi.node._hooked = True
    swapped, differing = [], []
    inv = set(inventory["functions"])
    for q, f in list(prog.functions.items()):
        if f.parent is not None or q not in ref.functions:
            continue
        r = ref.functions[q]
        try:
            if unparse(f.node) == unparse(r.node):
                continue
            if canon(f.node) == canon(r.node):
                new = copy.deepcopy(r.node)
                _install(prog, f, new)
                swapped.append(q)
            else:
                differing.append(q)
        except Exception:  # noqa: BLE001  (canonicaliser must never break the analysis)
            differing.append(q)
    prog.swapped = swapped
    prog.differing = differing
    # the plain local = attribute-chain assignments of the reference version of every differing function (N0 keeps those aliases)
    prog.ref_aliases = {}
    for q in differing:
        r = ref.functions.get(q)
        if r is not None:
            prog.ref_aliases[q] = {unparse(st) for st in ast.walk(r.node) if isinstance(st, ast.Assign) and isinstance(st.value, ast.Attribute)}
    _drop_dead_helpers(prog, inv)


def _install(prog, f, new_node):
    """replace f.node by new_node inside its parent container (module tree / class body) and re-index nested defs"""
    old = f.node
    container = f.cls.node.body if f.cls is not None else f.module.tree.body
    for i, s in enumerate(container):
        if s is old:
            container[i] = new_node
            break
    else:
        # nested inside if/try at module level: search
        for parent in ast.walk(f.module.tree):
            for fld, val in ast.iter_fields(parent):
                if isinstance(val, list):
                    for i, x in enumerate(val):
                        if x is old:
                            val[i] = new_node
    f.node = new_node
    # nested function infos
    for name in list(f.nested):
        nq = f.nested[name].qual
        prog.functions.pop(nq, None)
    f.nested = {}
    for n in prog._nested_defs(new_node):
        prog._add_function(f.module, n, f.cls, f, f.qual)


def _drop_dead_helpers(prog, inv):
    names_used = set()
    for q, f in prog.functions.items():
        for n in ast.walk(f.node):
            if isinstance(n, ast.Name):
                names_used.add(n.id)
            elif isinstance(n, ast.Attribute):
                names_used.add(n.attr)
    for m in prog.modules.values():
        for node in m.tree.body:
            if not isinstance(node, (ast.FunctionDef, ast.ClassDef)):
                for n in ast.walk(node):
                    if isinstance(n, ast.Name):
                        names_used.add(n.id)
                    elif isinstance(n, ast.Attribute):
                        names_used.add(n.attr)
    dropped = []
    keep = {new for new, _old in getattr(prog, "relocated", [])}
    for q, f in list(prog.functions.items()):
        if q in inv or q in keep or f.qual in keep or f.parent is not None:
            continue
        if f.name in names_used or (f.name.startswith("__") and f.name.endswith("__")):
            continue
        # not referenced anywhere after normalisation: dead for the package
        prog.functions.pop(q, None)
        for nq in [x for x in prog.functions if x.startswith(q + ".")]:
            prog.functions.pop(nq, None)
        if f.cls is not None:
            f.cls.methods.pop(f.name, None)
            f.cls.setters.pop(f.name, None)
            f.cls.node.body = [s for s in f.cls.node.body if s is not f.node] or [ast.Pass()]
        else:
            f.module.functions.pop(f.name, None)
            f.module.tree.body = [s for s in f.module.tree.body if s is not f.node]
        dropped.append(q)
    prog.dropped_helpers = dropped

"""Token-table extraction from formulae/scanner.py (Scanner.scan_token).

Result: ScanModel with
  table   : lexeme -> kind  for the fixed lexemes (one and two characters)
  helpers : first-character class -> helper method name
  skips   : set of characters that produce no token
  default : 'raise' | 'pass' | other      (what happens to an unknown character)
Anything outside the modelled idioms is an AnalysisError.
"""
import ast

from .core import AnalysisError, unparse, is_str_const, strip_docstring, block_raises


class ScanModel:
    def __init__(self):
        self.table = {}  # lexeme -> (kind, line)
        self.helpers = []  # (classifier, helper, line); classifier: ('chars', (..)) | ('isdigit',) | ('isalpha',) ...
        self.skips = []  # (char, line)
        self.default = None
        self.default_line = None
        self.branches = []  # ordered list of (classifier, action) for reporting
        self.conflicts = []
        self.side_statements = []  # (line, text): bookkeeping on non-cursor fields met in branch bodies


def _self_call(node, name=None):
    if (
        isinstance(node, ast.Call)
        and isinstance(node.func, ast.Attribute)
        and isinstance(node.func.value, ast.Name)
        and node.func.value.id == "self"
        and (name is None or node.func.attr == name)
    ):
        return node.func.attr
    return None


CURSOR_FIELDS = {"tokens", "start", "current", "code"}


def _side_statement(st):
    """`self.<field> = ...` / `self.<field> += ...` / `self.<field>.append(...)` on a field that is not part of the cursor"""
    if isinstance(st, (ast.Assign, ast.AugAssign)):
        tgt = st.target if isinstance(st, ast.AugAssign) else st.targets[0]
        base = tgt
        while isinstance(base, ast.Subscript):
            base = base.value
        ok = isinstance(base, ast.Attribute) and isinstance(base.value, ast.Name) and base.value.id == "self" and base.attr not in CURSOR_FIELDS
        return ok and not any(isinstance(n, ast.Call) and _self_call(n) in ("advance", "match", "add_token") for n in ast.walk(st))
    if isinstance(st, ast.Expr) and isinstance(st.value, ast.Call) and isinstance(st.value.func, ast.Attribute) and st.value.func.attr in ("append", "add") \
            and isinstance(st.value.func.value, ast.Attribute) and isinstance(st.value.func.value.value, ast.Name) and st.value.func.value.value.id == "self" \
            and st.value.func.value.attr not in CURSOR_FIELDS:
        return not any(isinstance(n, ast.Call) and _self_call(n) in ("advance", "match", "add_token") for n in ast.walk(st.value.args[0] if st.value.args else st))
    return False


def extract_scan_token(prog):
    fn = prog.fn("scanner.Scanner.scan_token")
    body = fn.body
    sm = ScanModel()

    def err(node, what):
        raise AnalysisError(f"scanner extractor: unmodelled {what} `{unparse(node)}` ({fn.loc(node)})")

    if not (
        body
        and isinstance(body[0], ast.Assign)
        and len(body[0].targets) == 1
        and isinstance(body[0].targets[0], ast.Name)
        and _self_call(body[0].value, "advance")
    ):
        err(body[0] if body else fn.node, "first statement (expected `<c> = self.advance()`)")
    cvar = body[0].targets[0].id
    if len(body) != 2 or not isinstance(body[1], ast.If):
        err(fn.node, "body shape (expected one if/elif chain)")

    def classify(test):
        # char == "x"
        if (
            isinstance(test, ast.Compare)
            and len(test.ops) == 1
            and isinstance(test.left, ast.Name)
            and test.left.id == cvar
        ):
            op, rhs = test.ops[0], test.comparators[0]
            if isinstance(op, ast.Eq) and is_str_const(rhs):
                return ("chars", (rhs.value,))
            if isinstance(op, ast.In) and isinstance(rhs, (ast.List, ast.Tuple, ast.Set)) and all(
                is_str_const(e) for e in rhs.elts
            ):
                return ("chars", tuple(e.value for e in rhs.elts))
            if isinstance(op, ast.In) and is_str_const(rhs):
                return ("chars", tuple(rhs.value))
        if (
            isinstance(test, ast.Call)
            and isinstance(test.func, ast.Attribute)
            and isinstance(test.func.value, ast.Name)
            and test.func.value.id == cvar
            and not test.args
        ):
            return (test.func.attr,)
        err(test, "character test")

    def add_token_kind(stmt):
        if isinstance(stmt, ast.Expr) and _self_call(stmt.value, "add_token"):
            a = stmt.value.args
            if len(a) >= 1 and is_str_const(a[0]):
                return a[0].value
        return None

    def action(cls, stmts, line):
        stmts = strip_docstring(stmts)
        # bookkeeping on other scanner fields (counters, position lists) does not change which token is produced: it is
        # recorded (sm.side_statements) and skipped here; the rules that depend on such fields look at them themselves
        kept = []
        for st in stmts:
            tgt = st.target if isinstance(st, ast.AugAssign) else (st.targets[0] if isinstance(st, ast.Assign) and len(st.targets) == 1 else None)
            if isinstance(st, ast.If) and not st.orelse and all(_side_statement(x) for x in st.body) and not any(
                    isinstance(n, ast.Call) and _self_call(n) in ("advance", "match", "add_token") for n in ast.walk(st.test)):
                sm.side_statements.append((line, unparse(st)))
                continue
            if tgt is not None and _side_statement(st):
                sm.side_statements.append((line, unparse(st)))
                continue
            kept.append(st)
        stmts = kept
        if len(stmts) == 1 and isinstance(stmts[0], ast.Pass):
            return ("skip",)
        if len(stmts) == 1 and isinstance(stmts[0], ast.Expr) and _self_call(stmts[0].value, "add_token") and stmts[0].value.args \
                and isinstance(stmts[0].value.args[0], ast.IfExp) and len(stmts[0].value.args) == 1:
            # self.add_token(A if test else B)  ==  if test: self.add_token(A) else: self.add_token(B)
            ie = stmts[0].value.args[0]

            def mk(e):
                c = ast.Call(func=stmts[0].value.func, args=[e], keywords=[])
                return ast.copy_location(ast.Expr(value=ast.copy_location(c, stmts[0])), stmts[0])

            stmts = [ast.copy_location(ast.If(test=ie.test, body=[mk(ie.body)], orelse=[mk(ie.orelse)]), stmts[0])]
        if len(stmts) == 1:
            k = add_token_kind(stmts[0])
            if k is not None:
                return ("token", k)
            if isinstance(stmts[0], ast.Expr):
                h = _self_call(stmts[0].value)
                if h and not stmts[0].value.args:
                    return ("helper", h)
            if isinstance(stmts[0], ast.If) and stmts[0].orelse:
                t = stmts[0].test
                if _self_call(t, "match") and len(t.args) == 1 and is_str_const(t.args[0]):
                    a1 = action(cls, stmts[0].body, line)
                    a2 = action(cls, stmts[0].orelse, line)
                    return ("lookahead", t.args[0].value, a1, a2)
                # if self.peek().isdigit(): helper else token
                if (
                    isinstance(t, ast.Call)
                    and isinstance(t.func, ast.Attribute)
                    and _self_call(t.func.value, "peek")
                    and not t.args
                ):
                    a1 = action(cls, stmts[0].body, line)
                    a2 = action(cls, stmts[0].orelse, line)
                    return ("peekclass", t.func.attr, a1, a2)
            if isinstance(stmts[0], ast.Raise):
                return ("raise",)
        if block_raises(stmts):
            return ("raise",)
        if not stmts:
            return ("skip",)
        err(stmts[0], "branch body")

    def table_of(test):
        """`<c> in TABLE` with TABLE a module-level dict display keyed by characters: the dict, else None"""
        if isinstance(test, ast.Compare) and len(test.ops) == 1 and isinstance(test.ops[0], ast.In) and isinstance(test.left, ast.Name) \
                and test.left.id == cvar:
            c = test.comparators[0]
            if isinstance(c, ast.Name):
                vals = [v for v in fn.module.globals.get(c.id, []) if v is not None]
                if len(vals) == 1 and isinstance(vals[0], ast.Dict) and vals[0].keys and all(is_str_const(k) for k in vals[0].keys):
                    return c.id, vals[0]
            if isinstance(c, ast.Dict) and c.keys and all(k is not None and is_str_const(k) for k in c.keys):
                return unparse(c), c  # the table was propagated into the test as a display
        return None

    def specialise_branch(stmts, tname, key, value):
        """the branch body for one key of the table: TABLE[c] -> its entry, tuple unpacking of a literal entry propagated"""
        import copy

        class T(ast.NodeTransformer):
            def __init__(self):
                self.env = {}

            def visit_Subscript(self, n):
                self.generic_visit(n)
                if ((isinstance(n.value, ast.Name) and n.value.id == tname) or (isinstance(n.value, ast.Dict) and unparse(n.value) == tname)) \
                        and isinstance(n.slice, ast.Name) and n.slice.id == cvar:
                    return copy.deepcopy(value)
                return n

            def visit_Name(self, n):
                if isinstance(n.ctx, ast.Load) and n.id in self.env:
                    return copy.deepcopy(self.env[n.id])
                return n

        tr = T()
        out = []
        for st in copy.deepcopy(stmts):
            st = tr.visit(st)
            if isinstance(st, ast.Assign) and len(st.targets) == 1 and isinstance(st.targets[0], (ast.Tuple, ast.List)) \
                    and isinstance(st.value, (ast.Tuple, ast.List)) and len(st.value.elts) == len(st.targets[0].elts) \
                    and all(isinstance(t_, ast.Name) for t_ in st.targets[0].elts) and all(isinstance(v_, ast.Constant) for v_ in st.value.elts):
                for t_, v_ in zip(st.targets[0].elts, st.value.elts):
                    tr.env[t_.id] = v_
                continue
            if isinstance(st, ast.Assign) and len(st.targets) == 1 and isinstance(st.targets[0], ast.Name) and isinstance(st.value, ast.Constant):
                tr.env[st.targets[0].id] = st.value
                continue
            out.append(st)
        return out

    node = body[1]
    seen_chars = {}
    pending = []  # extra (classifier, body, line) entries produced by expanding a table-driven branch
    while True:
        tb = table_of(node.test)
        if tb is not None:
            tname, table = tb
            entries = [(("chars", (k.value,)), specialise_branch(node.body, tname, k.value, v), node.lineno) for k, v in zip(table.keys, table.values)]
        else:
            entries = [(classify(node.test), node.body, node.lineno)]
        for cls, nbody, nline in entries:
            act = action(cls, nbody, nline)
            sm.branches.append((cls, act, nline))
            _branch_entry(sm, cls, act, nline, seen_chars, err, node)
        if len(node.orelse) == 1 and isinstance(node.orelse[0], ast.If):
            node = node.orelse[0]
            continue
        if node.orelse:
            a = action(None, node.orelse, node.orelse[0].lineno)
            sm.default = a[0]
            sm.default_line = node.orelse[0].lineno
        else:
            sm.default = "fallthrough"
            sm.default_line = node.lineno
        break
    return sm, fn


def _branch_entry(sm, cls, act, line, seen_chars, err, node):
    if cls[0] == "chars":
        for ch in cls[1]:
            if ch in seen_chars:
                sm.conflicts.append((ch, seen_chars[ch], line))
                continue
            seen_chars[ch] = line
            _record(sm, ch, act, line)
    else:
        if act[0] == "helper":
            sm.helpers.append((cls, act[1], line))
        elif act[0] == "skip":
            sm.skips.append((cls, line))
        elif act[0] == "token":
            sm.helpers.append((cls, "token:" + act[1], line))
        elif act[0] != "raise":
            err(node.test, "class branch action")


def _record(sm, ch, act, line):
    if act[0] == "token":
        sm.table[ch] = (act[1], line)
    elif act[0] == "skip":
        sm.skips.append((("chars", (ch,)), line))
    elif act[0] == "helper":
        sm.helpers.append((("chars", (ch,)), act[1], line))
    elif act[0] == "lookahead":
        _record(sm, ch + act[1], act[2], line)
        _record(sm, ch, act[3], line)
    elif act[0] == "peekclass":
        # e.g. '.' followed by a digit -> helper, else token
        if act[2][0] == "helper":
            sm.helpers.append((("chars+peek", (ch,), act[1]), act[2][1], line))
        else:
            raise AnalysisError(f"scanner extractor: unmodelled peek-class action at line {line}")
        _record(sm, ch, act[3], line)
    elif act[0] == "raise":
        sm.table[ch] = ("<raise>", line)
    else:
        raise AnalysisError(f"scanner extractor: unmodelled action {act} at line {line}")

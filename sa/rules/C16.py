"""C16 - built-in helpers and aliases: synonymy, recomputation at prediction, guards (R16.1 .. R16.8)."""
import ast

from ..core import (
    AnalysisError,
    obl,
    unparse,
    short,
    dotted,
    is_self_attr,
    walk_local,
    calls_in,
    block_raises,
)
from ..cfg import cfg_of
from .. import predpath
from ..types import extract_registry
from . import C06

EXPLANATION = (
    "R16.1 aliases are the same object or the same construction: in the statically extracted registry B/binary, "
    "p/prop/proportion and scale/standardize bind one function/class; T(x, r, levels) and S(x, o, levels) build "
    "exactly the CategoricalBox that C(x, Treatment(r), levels) / C(x, Sum(o), levels) builds, every parameter of "
    "C/T/S reaches the box and Call.eval_categorical_box reads all three box fields. R16.2 I is the identity. "
    "R16.3 offset and prop are recomputed from the NEW frame at prediction (constant broadcast to the new row "
    "count, variable looked up / re-evaluated on the new frame); ResponseMatrix.evaluate_new_data refuses other "
    "kinds. R16.4 guards dominate effects (Offset refuses non-numeric input before storing, offset refuses to be "
    "a response, prop refuses to be a predictor, binary raises when no row equals the success value). R16.5 "
    "binary() at prediction aggregates the new frame (known finding shared with C06). R16.6 binary is 1 where the "
    "comparison with the success value holds and 0 elsewhere; Offset.eval returns the stored values unchanged / "
    "broadcasts the constant."
    " R16.7 no dtype-narrowing store of real-valued blocks. R16.8 T(x, ref) / S(x, omit) code the requested level for every level value (C04's R4.2)."
)
ASSUMPTIONS = [
    "np.where(mask, 1, 0) is 1 exactly where mask is true; np.ones(n) * c broadcasts the constant",
    "point-wise values beyond these structural facts are not decided",
]


def run(prog, rep, tier):
    reg = extract_registry(prog)
    r16_1(prog, rep, reg)
    r16_2(prog, rep, reg)
    r16_3(prog, rep)
    r16_4(prog, rep)
    r16_5(prog, rep)
    r16_6(prog, rep)
    # the aliases are synonyms only as long as the built-in names are resolved before anything the caller defines
    # (a user variable called p, T or B must not capture them): C11's R11.2, reported here as R16.2
    from . import C11
    from ..core import reuse_rule
    reuse_rule(rep, C11.r11_2, "R16.2", prog)
    # ... which also needs the order of the namespace list itself (with_outer_namespace appends, lookups take the first hit):
    # C11's R11.1
    reuse_rule(rep, C11.r11_1, "R16.2", prog)
    # the values a helper returns (offset(e), I(e), binary(...)) reach the design unchanged in kind: no function of the package
    # stores real-valued blocks into an integer / borrowed-dtype buffer (a dtype-narrowing store truncates 0.5 to 0)
    from . import shared
    shared.dtype_narrowing(prog, rep, "R16.7")
    # T(x, ref) / S(x, omit): the requested level is the one coded as reference / omitted - for every level value, also the
    # falsy ones (0, '', False): the contrast obligations of C04's R4.2
    from . import C04
    reuse_rule(rep, C04.r4_2, "R16.8", prog, keep=lambda it: it.get("function", "").startswith("formulae.categorical."))
    rep.floor("R16.8", 6)
    rep.floor("R16.1", 10)
    rep.floor("R16.3", 6)
    rep.floor("R16.4", 5)


def _rets(f):
    return [n for n in walk_local(f.node) if isinstance(n, ast.Return)]


def r16_1(prog, rep, reg):
    t = reg["transforms"]
    tm = prog.mod("transforms")
    where = f"{tm.relpath}:1"
    for group in (("B", "binary"), ("p", "prop", "proportion"), ("scale", "standardize")):
        targets = {t.get(n) for n in group}
        rep.check(len(targets) == 1 and None not in targets, "R16.1", where, "formulae.transforms.TRANSFORMS",
                  f"{' = '.join(group)} bind one object", str(sorted(x[1] for x in targets if x)),
                  f"aliases {group} are bound to different objects {sorted(str(x) for x in targets)}")
    for name in ("center", "scale", "bs", "poly", "C", "T", "S", "I", "offset", "binary", "proportion"):
        rep.check(name in t, "R16.1", where, "formulae.transforms.TRANSFORMS", f"built-in `{name}` is registered", str(t.get(name)), f"`{name}` is missing from TRANSFORMS", nontrivial=False)
    enc = reg["encodings"]
    rep.check(enc.get("Treatment", (None, ""))[1].endswith("categorical.Treatment") and enc.get("Sum", (None, ""))[1].endswith("categorical.Sum"),
              "R16.1", f"{prog.mod('categorical').relpath}:1", "formulae.categorical.ENCODINGS", "ENCODINGS binds Treatment and Sum to their classes", str(enc))
    C = prog.functions[t["C"][1]]
    T = prog.functions[t["T"][1]]
    S = prog.functions[t["S"][1]]
    # C: non-box path returns CategoricalBox(data, contrast, levels) with its own parameters
    rets = _rets(C)
    ok = len(rets) == 1 and unparse(rets[0].value) == f"CategoricalBox({', '.join(C.params)})" and len(C.params) == 3
    obl(rep, C, rets[0] if rets else C.node, "R16.1", ok, "C(data, contrast, levels) -> CategoricalBox(data, contrast, levels)", "",
        f"C returns `{unparse(rets[0].value) if rets else None}`: an option does not reach the box")
    # box-unwrapping branch only fills in missing options
    unwrap = [i for i in walk_local(C.node) if isinstance(i, ast.If) and unparse(i.test) == f"isinstance({C.params[0]}, CategoricalBox)"]
    if unwrap:
        body = unwrap[0].body
        forms = [unparse(s) for s in body]
        ok = forms == [f"if {C.params[1]} is None:\n    {C.params[1]} = {C.params[0]}.contrast", f"if {C.params[2]} is None:\n    {C.params[2]} = {C.params[0]}.levels",
                       f"{C.params[0]} = {C.params[0]}.data"]
        obl(rep, C, unwrap[0], "R16.1", ok, "C(box, ...) keeps explicit options and inherits only the missing ones from the box")
    for f, enc_cls, what in ((T, "Treatment", "ref"), (S, "Sum", "omit")):
        rets = _rets(f)
        ps = f.params
        ok = len(rets) == 1 and len(ps) == 3 and unparse(rets[0].value) == f"CategoricalBox({ps[0]}, {enc_cls}({ps[1]}), {ps[2]})"
        obl(rep, f, rets[0] if rets else f.node, "R16.1", ok,
            f"{f.name}(x, {ps[1] if len(ps) > 1 else '?'}, levels) builds the box C(x, {enc_cls}({ps[1] if len(ps) > 1 else '?'}), levels) builds",
            "", f"{f.name} returns `{unparse(rets[0].value) if rets else None}`: not the same construction as C(x, {enc_cls}(...), levels)")
        obl(rep, f, f.node, "R16.1", not [s for s in walk_local(f.node) if isinstance(s, (ast.Assign, ast.AugAssign))],
            f"{f.name} does not rewrite its arguments before boxing", nontrivial=False)
        defaults = [unparse(d) for d in f.node.args.defaults]
        obl(rep, f, f.node, "R16.1", defaults == ["None", "None"], f"{f.name}: {what} and levels default to None (first level / last level is chosen by the encoding)", str(defaults))
    for cq, attr in (("categorical.Treatment", "reference"), ("categorical.Sum", "omit")):
        init = prog.fn(f"{cq}.__init__")
        st = [s for s in walk_local(init.node) if isinstance(s, ast.Assign) and is_self_attr(s.targets[0], attr)]
        obl(rep, init, init.node, "R16.1", len(st) == 1 and unparse(st[0].value) == init.params[1], f"{cq.split('.')[1]} stores its option as self.{attr}")
    ecb = prog.fn("terms.call.Call.eval_categorical_box")
    b = ecb.params[1]
    reads = {n.attr for n in ast.walk(ecb.node) if isinstance(n, ast.Attribute) and isinstance(n.value, ast.Name) and n.value.id == b}
    obl(rep, ecb, ecb.node, "R16.1", {"data", "levels", "contrast"} <= reads, "eval_categorical_box honours all three box fields (data, levels, contrast)", str(sorted(reads)),
        f"eval_categorical_box reads only {sorted(reads)}: an option of C/T/S is ignored")
    # decided on the abstract values stored by the method (names of temporaries and statement order do not matter)
    from .C04 import _attr_stores
    try:
        _f, st = _attr_stores(prog, "terms.call.Call.eval_categorical_box")
    except AnalysisError as e:
        rep.defer(f"R16.1: {e}")
        return
    lv = [x for x in st if x[0] == "self.levels"]
    V = ast.parse(lv[0][1], mode="eval").body if len(lv) == 1 else None
    ok = False
    shown = lv[0][1] if lv else ""
    if isinstance(V, ast.IfExp) and unparse(V.test) in (f"{b}.levels is None", f"{b}.levels is not None"):
        given, derived = (V.orelse, V.body) if unparse(V.test).endswith("is None") else (V.body, V.orelse)
        from .C04 import order_kind
        ok = unparse(given) == f"{b}.levels" and order_kind(derived) == "canonical" and f"{b}.data" in unparse(derived)
    obl(rep, ecb, lv[0][4] if lv else ecb.node, "R16.1", ok,
        "explicit levels reach the categories unchanged (levels fix the order); otherwise sorted observed values", shown[:120])
    cm = [x for x in st if x[0] == "self.contrast_matrix"]
    recv = set()
    for x in cm:
        e = ast.parse(x[1], mode="eval").body
        if isinstance(e, ast.Call) and isinstance(e.func, ast.Attribute) and e.func.attr.startswith("code_"):
            recv.add(unparse(e.func.value))
    r0 = ast.parse(next(iter(recv)), mode="eval").body if len(recv) == 1 else None
    ok = isinstance(r0, ast.IfExp) and unparse(r0.test) in (f"{b}.contrast is None", f"{b}.contrast is not None")
    if ok:
        dflt, given = (r0.body, r0.orelse) if unparse(r0.test).endswith("is None") else (r0.orelse, r0.body)
        ok = unparse(dflt) == "Treatment()" and unparse(given) == f"{b}.contrast"
    obl(rep, ecb, cm[0][4] if cm else ecb.node, "R16.1", ok, "no contrast given -> Treatment() (first level is the reference)", str(sorted(recv))[:120])
    obl(rep, ecb, cm[0][4] if cm else ecb.node, "R16.1", ok and len(cm) == 2,
        "the box's own contrast object codes the factor", str(sorted(recv))[:120])


def r16_2(prog, rep, reg):
    from . import C12
    from .. import grammar as G
    from ..scanmodel import extract_scan_token
    from . import C01

    ctx = C01.Ctx()
    ctx.prog = prog
    ctx.ex = G.extract(prog)
    ctx.S = G.summaries(ctx.ex)
    sub = rep.sub()
    C12.r12_4(ctx, sub)
    for it in sub.items:
        it = dict(it)
        it["rule"] = "R16.2"
        rep.items.append(it)
        rep.counts["R16.2"] = rep.counts.get("R16.2", 0) + 1


def _is_broadcast(stmts, shapes, value, kind="result"):
    """the block is the single statement `result = <array of one of `shapes` filled with `value`>` (or `return ...`)"""
    from . import shared as _sh
    if len(stmts) != 1:
        return False
    st = stmts[0]
    if kind == "result":
        if not (isinstance(st, ast.Assign) and unparse(st.targets[0]) == "result"):
            return False
        e = st.value
    else:
        if not (isinstance(st, ast.Return) and st.value is not None):
            return False
        e = st.value
    bc = _sh.broadcast_of(e)
    return bc is not None and bc[0] in shapes and bc[1] == value and bc[2] in (None, "float", "'float'", "np.float64", "'float64'")


def r16_3(prog, rep):
    f = prog.fn("terms.call.Call.eval_new_data_offset")
    dm = f.params[1]
    ifs = [i for i in walk_local(f.node) if isinstance(i, ast.If) and unparse(i.test) == "self._intermediate_data.kind == 'constant'"]
    ok = len(ifs) == 1
    obl(rep, f, ifs[0] if ifs else f.node, "R16.3", ok, "offset: the remembered kind (constant / variable) selects the branch")
    if ok:
        # every result comes out of one of the two branches: no return in front of the decision (a remembered training value
        # handed back for a frame that "looks like" the training frame is not a recomputation)
        cf_ = cfg_of(f)
        early = [r_ for r_ in walk_local(f.node) if isinstance(r_, ast.Return) and not cf_.dominates(cf_.node_of(ifs[0]), cf_.node_of(r_))]
        obl(rep, f, early[0] if early else ifs[0], "R16.3", not early, "offset: every return follows the constant / variable decision (no shortcut returning stored values)", "",
            f"`{short(early[0], 60) if early else ''}` returns before the offset is recomputed from the new frame")
    if ok:
        cb = [unparse(s) for s in ifs[0].body]
        obl(rep, f, ifs[0], "R16.3", _is_broadcast(ifs[0].body, (f"len({dm}.index)", f"{dm}.shape[0]", f"len({dm})"), "self.call.args[0].value"),
            "constant offset: the literal argument broadcast to the row count of the NEW frame", str(cb),
            f"constant branch is {cb}")
        vb = " ; ".join(unparse(s) for s in ifs[0].orelse)
        ok = f"self.call.eval({dm}, self.env)" in vb and ".eval()" in vb
        obl(rep, f, ifs[0], "R16.3", ok, "variable offset: the call is re-evaluated on the NEW frame", "",
            "variable offset is not re-evaluated on the new frame")
    f = prog.fn("terms.call.Call.eval_new_data_proportion")
    dm = f.params[1]
    ifs = [i for i in walk_local(f.node) if isinstance(i, ast.If) and unparse(i.test) == "self._intermediate_data.trials_type == 'constant'"]
    ok = len(ifs) == 1
    obl(rep, f, ifs[0] if ifs else f.node, "R16.3", ok, "prop: the remembered trials type selects the branch")
    if ok:
        cf_ = cfg_of(f)
        early = [r_ for r_ in walk_local(f.node) if isinstance(r_, ast.Return) and not cf_.dominates(cf_.node_of(ifs[0]), cf_.node_of(r_))]
        obl(rep, f, early[0] if early else ifs[0], "R16.3", not early, "prop: every return follows the trials-type decision (no shortcut returning stored values)", "",
            f"`{short(early[0], 60) if early else ''}` returns before the proportion is recomputed from the new frame")
    if ok:
        cb = [unparse(s) for s in ifs[0].body]
        obl(rep, f, ifs[0], "R16.3", _is_broadcast(ifs[0].body, (f"len({dm}.index)", f"{dm}.shape[0]", f"len({dm})"), "self.call.args[1].value"),
            "constant trials: broadcast to the row count of the NEW frame", str(cb), f"constant branch is {cb}")
        vb = [unparse(s) for s in ifs[0].orelse]
        first2 = ifs[0].orelse[:2]
        ok = len(first2) == 2 and all(isinstance(s_, ast.Assign) and len(s_.targets) == 1 and isinstance(s_.targets[0], ast.Name) for s_ in first2) \
            and unparse(first2[0].value) == "self.call.args[1].name" and unparse(first2[1].value) == f"{dm}[{first2[0].targets[0].id}]"
        obl(rep, f, ifs[0], "R16.3", ok, "variable trials: the trials column of the NEW frame, by name", str(vb[:2]), f"variable branch is {vb}")
    en = prog.fn("terms.call.Call.eval_new_data")
    m = {}
    for i in walk_local(en.node):
        if isinstance(i, ast.If) and isinstance(i.test, ast.Compare) and unparse(i.test.left) == "self.kind" and isinstance(i.test.ops[0], ast.Eq):
            calls = [unparse(x.func) for s in i.body for x in ast.walk(s) if isinstance(x, ast.Call)]
            m[unparse(i.test.comparators[0])] = calls
    ok = m.get("'offset'") == ["self.eval_new_data_offset"] and m.get("'proportion'") == ["self.eval_new_data_proportion"]
    obl(rep, en, en.node, "R16.3", ok, "eval_new_data dispatches offset / proportion terms to their prediction-time code", str(m))
    rm = prog.fn("matrices.ResponseMatrix.evaluate_new_data")
    ifs = [i for i in walk_local(rm.node) if isinstance(i, ast.If) and unparse(i.test) == "self.kind == 'proportion'"]
    ok = len(ifs) == 1 and [unparse(s) for s in ifs[0].body] == [f"return self.term.term.eval_new_data({rm.params[1]})"] \
        and isinstance(rm.body[-1], ast.Raise)
    obl(rep, rm, rm.node, "R16.3", ok, "ResponseMatrix.evaluate_new_data: proportion -> trials of the new frame; every other kind is refused")
    off = prog.fn("transforms.Offset.eval")
    forms = {unparse(i.test): ([unparse(s) for s in i.body], [unparse(s) for s in i.orelse]) for i in walk_local(off.node) if isinstance(i, ast.If)}
    got = forms.get("self.kind == 'variable'")
    okf = False
    for i in walk_local(off.node):
        if isinstance(i, ast.If) and unparse(i.test) == "self.kind == 'variable'":
            okf = [unparse(s) for s in i.body] == ["return self.x.flatten()"] and _is_broadcast(i.orelse, ("(self.size, 1)",), "self.x", kind="return")
    obl(rep, off, off.node, "R16.3", okf, "Offset.eval: the stored values unchanged / the constant broadcast", str(forms))


def r16_4(prog, rep):
    f = prog.fn("transforms.Offset.__init__")
    c = cfg_of(f)
    guards = [i for i in walk_local(f.node) if isinstance(i, ast.If) and block_raises(i.body) and "is_numeric_dtype" in unparse(i.test)]
    stores = [s for s in walk_local(f.node) if isinstance(s, ast.Assign) and is_self_attr(s.targets[0], "x")]
    ok = len(guards) == 1 and bool(stores) and all(c.dominates(c.node_of(guards[0]), c.node_of(s)) for s in stores)
    obl(rep, f, guards[0] if guards else f.node, "R16.4", ok, "Offset refuses non-numeric input before storing anything")
    f = prog.fn("terms.call.Call.eval_offset")
    g = [i for i in walk_local(f.node) if isinstance(i, ast.If) and unparse(i.test) == "self.is_response" and block_raises(i.body)]
    st = [s for s in walk_local(f.node) if isinstance(s, ast.Assign)]
    ok = len(g) == 1 and bool(st) and all(cfg_of(f).dominates(cfg_of(f).node_of(g[0]), cfg_of(f).node_of(s)) for s in st)
    obl(rep, f, g[0] if g else f.node, "R16.4", ok, "offset() as a response is refused before evaluation")
    f = prog.fn("terms.call.Call.eval_proportion")
    g = [i for i in walk_local(f.node) if isinstance(i, ast.If) and unparse(i.test) == "not self.is_response" and block_raises(i.body)]
    st = [s for s in walk_local(f.node) if isinstance(s, ast.Assign)]
    ok = len(g) == 1 and bool(st) and all(cfg_of(f).dominates(cfg_of(f).node_of(g[0]), cfg_of(f).node_of(s)) for s in st)
    obl(rep, f, g[0] if g else f.node, "R16.4", ok, "prop() as a predictor is refused before evaluation")
    f = prog.fn("transforms.binary")
    c = cfg_of(f)
    g = [i for i in walk_local(f.node) if isinstance(i, ast.If) and block_raises(i.body) and "booleans" in unparse(i.test)]
    rets = _rets(f)
    ok = len(g) == 1 and unparse(g[0].test) in ("not sum(booleans)", "not booleans.any()", "not any(booleans)", "sum(booleans) == 0") \
        and bool(rets) and all(c.dominates(c.node_of(g[0]), c.node_of(r)) for r in rets)
    obl(rep, f, g[0] if g else f.node, "R16.4", ok, "binary refuses a success value that never occurs, before returning")
    f = prog.fn("transforms.proportion")
    g = [i for i in walk_local(f.node) if isinstance(i, ast.If) and block_raises(i.body) and unparse(i.test) == f"not isinstance({f.params[0]}, pd.Series)"]
    obl(rep, f, g[0] if g else f.node, "R16.4", len(g) == 1, "prop requires a column name for the successes")
    p = prog.fn("transforms.Proportion.__init__")
    c = cfg_of(p)
    guards = [i for i in walk_local(p.node) if isinstance(i, ast.If) and block_raises(i.body)]
    stores = [s for s in walk_local(p.node) if isinstance(s, ast.Assign) and is_self_attr(s.targets[0])]
    tests = [unparse(i.test) for i in guards]
    ok = len(guards) == 3 and all(c.dominates(c.node_of(g_), c.node_of(s)) for g_ in guards for s in stores) \
        and any("np.mod(successes, 1) == 0" in t for t in tests) and any("np.mod(trials, 1) == 0" in t for t in tests) \
        and any("np.less_equal(successes, trials)" in t for t in tests)
    obl(rep, p, p.node, "R16.4", ok, "Proportion validates integer successes, integer trials and successes <= trials before storing", str(tests))


def r16_5(prog, rep):
    pp = predpath.get(prog)
    n = C06.aggregate_obligations(prog, rep, pp, "R16.5", restrict={"formulae.transforms.binary", "formulae.transforms.offset",
                                                                    "formulae.transforms.proportion", "formulae.transforms.I",
                                                                    "formulae.transforms.Offset.__init__", "formulae.transforms.Offset.eval",
                                                                    "formulae.transforms.Proportion.__init__", "formulae.transforms.Proportion.eval"})
    if n < 3:
        raise AnalysisError("R16.5: aggregate analysis of the helper functions found fewer than 3 sites")


def r16_6(prog, rep):
    f = prog.fn("transforms.binary")
    x, s = f.params[0], f.params[1]
    defs = {unparse(a.targets[0]): a.value for a in walk_local(f.node) if isinstance(a, ast.Assign) and len(a.targets) == 1}
    rets = _rets(f)
    ok = len(rets) == 1 and isinstance(rets[0].value, ast.Call) and dotted(rets[0].value.func) == "np.where" and len(rets[0].value.args) == 3 \
        and [unparse(a) for a in rets[0].value.args[1:]] == ["1", "0"]
    mask = rets[0].value.args[0] if ok else None
    if ok and isinstance(mask, ast.Name):
        mask = defs.get(mask.id)
    ok = ok and mask is not None and unparse(mask) in (f"{x} == {s}", f"{s} == {x}")
    obl(rep, f, rets[0] if rets else f.node, "R16.6", ok, "binary(x, s) = np.where(x == s, 1, 0): 1 exactly where x equals the success value",
        "", f"binary returns `{unparse(rets[0].value) if rets else None}` with mask `{unparse(mask) if mask is not None else None}`")
    d = [i for i in walk_local(f.node) if isinstance(i, ast.If) and unparse(i.test) == f"{s} is None"]
    ok = len(d) == 1
    if ok:
        body = [unparse(b) for b in d[0].body]
        ok = body == [f"categories = sorted({x}.unique().tolist())", f"{s} = categories[0]"]
    obl(rep, f, d[0] if d else f.node, "R16.6", ok, "omitted success value = the smallest value (first of the sorted unique values)", "",
        "default success is not the first of the sorted unique values")
    pe = prog.fn("transforms.Proportion.eval")
    rets = _rets(pe)
    # two 1-D columns side by side: vstack(...).T, column_stack / stack(axis=1) of the same two attributes in the same order
    TWO_COLS = {"np.vstack([self.successes, self.trials]).T", "np.vstack((self.successes, self.trials)).T", "np.column_stack([self.successes, self.trials])",
                "np.column_stack((self.successes, self.trials))", "np.stack([self.successes, self.trials], axis=1)", "np.stack((self.successes, self.trials), axis=1)",
                "np.array([self.successes, self.trials]).T"}
    shown = None
    if len(rets) == 1:
        # single-use locals of the return expression are read through (rows = (...); return np.concatenate(rows, axis=0).T)
        import copy as _copy
        from ..desugar import _Synonyms
        e = _copy.deepcopy(rets[0].value)
        for _ in range(3):
            names = [n for n in ast.walk(e) if isinstance(n, ast.Name) and isinstance(n.ctx, ast.Load)]
            done = True
            for n in names:
                ds_ = [s_ for s_ in walk_local(pe.node) if isinstance(s_, ast.Assign) and len(s_.targets) == 1 and unparse(s_.targets[0]) == n.id]
                uses_ = [u for u in ast.walk(pe.node) if isinstance(u, ast.Name) and u.id == n.id and isinstance(u.ctx, ast.Load)]
                if len(ds_) == 1 and len(uses_) == 1:
                    class _S(ast.NodeTransformer):
                        def visit_Name(s_, x):
                            return _copy.deepcopy(ds_[0].value) if x.id == n.id and isinstance(x.ctx, ast.Load) else x
                    e = _S().visit(e)
                    done = False
                    break
            if done:
                break
        e = _Synonyms().visit(e)
        ast.fix_missing_locations(e)
        shown = unparse(e)
    obl(rep, pe, pe.node, "R16.6", shown in TWO_COLS,
        "prop(y, n) -> the two columns successes, trials in that order", unparse(rets[0].value) if rets else "")
    pr = prog.fn("transforms.proportion")
    rets = _rets(pr)
    obl(rep, pr, pr.node, "R16.6", len(rets) == 1 and unparse(rets[0].value) == "Proportion(successes, trials, trials_type)", "proportion() hands successes, trials to Proportion in order")
    # "validates integer successes not exceeding trials": the validation must see the values the user gave - no conversion to an
    # integer dtype of a column (3.5 successes would become 3 and pass) in proportion() or the package helpers it calls
    from .shared import _int_like_dtype
    scope_ = [pr]
    for c_ in calls_in(pr.node):
        kind_, q_ = prog.resolve(pr.module, (dotted(c_.func) or "").split(".")[0]) if dotted(c_.func) else (None, None)
        if kind_ == "func" and q_ in prog.functions and prog.functions[q_].module is pr.module and prog.functions[q_] not in scope_:
            scope_.append(prog.functions[q_])
    narrowing = []
    for f_ in scope_:
        for c_ in calls_in(f_.node):
            last = c_.func.attr if isinstance(c_.func, ast.Attribute) else (c_.func.id if isinstance(c_.func, ast.Name) else "")
            dt = next((k.value for k in c_.keywords if k.arg == "dtype"), None)
            if last in ("to_numpy", "asarray", "array", "astype", "asanyarray") and (
                    _int_like_dtype(dt) == "int" or (last == "astype" and c_.args and _int_like_dtype(c_.args[0]) == "int")):
                narrowing.append((f_, c_))
            if isinstance(c_.func, ast.Name) and c_.func.id == "int" and c_.args and not isinstance(c_.args[0], ast.Constant) and f_ is not pr:
                narrowing.append((f_, c_))
    obl(rep, narrowing[0][0] if narrowing else pr, narrowing[0][1] if narrowing else pr.node, "R16.6", not narrowing,
        "proportion() hands the column values to the validation unconverted (no cast to an integer dtype)", "",
        f"`{short(narrowing[0][1], 60) if narrowing else ''}` truncates fractional values before Proportion checks that they are integers")
    from . import shared as _sh
    const = [s_ for s_ in ast.walk(pr.node) if isinstance(s_, ast.Assign) and unparse(s_.targets[0]) == "trials" and _sh.broadcast_of(s_.value) is not None]
    bc = _sh.broadcast_of(const[0].value) if len(const) == 1 else None
    obl(rep, pr, const[0] if const else pr.node, "R16.6", bc is not None and bc[0] in ("len(successes)", "successes.shape[0]", "successes.shape", "successes.size")
        and bc[1] == "trials" and bc[2] in ("int", "'int'", "np.int64", "'int64'"),
        "constant trials are broadcast to the length of the successes", str(bc))
    of = prog.fn("transforms.offset")
    rets = _rets(of)
    obl(rep, of, of.node, "R16.6", len(rets) == 1 and unparse(rets[0].value) == f"Offset({of.params[0]})", "offset(v) wraps v unchanged")
    oi = prog.fn("transforms.Offset.__init__")
    forms = [(unparse(i.test), [unparse(s_) for s_ in i.body]) for i in walk_local(oi.node) if isinstance(i, ast.If) and not block_raises(i.body)]
    ok = any(t == "isinstance(x, pd.Series)" and "self.x = x.values" in b for t, b in forms) and \
        any(t == "isinstance(x, (int, float))" and "self.x = x" in b for t, b in forms)
    obl(rep, oi, oi.node, "R16.6", ok, "Offset stores the column's values / the constant unchanged", str(forms))


from ..core import guard_rules  # noqa: E402

guard_rules(globals())

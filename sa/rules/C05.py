"""C05 - group-specific blocks: block structure and ordering (R5.1 .. R5.6)."""
import ast

from ..core import (
    AnalysisError,
    obl,
    unparse,
    short,
    dotted,
    is_self_attr,
    walk_local,
    calls_in,
)
from ..cfg import cfg_of
from .. import order as O
from .. import dataflow as DF
from . import shared

EXPLANATION = (
    "R5.1 block order: both GroupSpecificTerm.set_data and eval_new_data build khatri_rao(Ji.T, Xi.T).T with the "
    "factor's indicator matrix first (order algebra: factor-major, effect-minor); labels iterate groups in the "
    "outer `for` and effect levels in the inner; self.groups is the product of the factor components' contrast "
    "labels in component order, the order in which Term.set_data folds the factor's indicator matrices - group "
    "slowest, effect fastest at all sites. R5.2 the factor is always coded with complete indicators "
    "(set_data(True), kind forced to categoric after typing). R5.3 the new-group block is trailing and "
    "conditional. R5.4 the implemented coding rule for effects is the one the anchor names (reduced iff "
    "(1|same factor) is in the model). R5.5 implicit intercept logic of `|` decided by finite-state abstract "
    "interpretation of Model.__or__ over (Intercept present, NegatedIntercept present), and every factor term is "
    "paired. R5.6 no effect object is placed under two factors. Not decided: rank/span on crossed data and the "
    "equality of the effect coding with the common-effects rule (the anchor itself calls it a simplification)."
    " R5.8 the contrast obligations of C04's R4.2 (reduced coding drops exactly the reference level, full coding is the identity)."
)
ASSUMPTIONS = [
    "scipy.linalg.khatri_rao(A, B) is the column-wise Kronecker product with A's row index major",
    "values inside the blocks are runtime facts",
]


def run(prog, rep, tier):
    r5_1(prog, rep)
    r5_2(prog, rep)
    # the levels of a grouping factor are those of a categorical term: sorted unless the data declares an order
    # (C04's R4.3, reported here as R5.2)
    from . import C04
    sub = rep.sub()
    C04.r4_3(prog, sub)
    for it in sub.items:
        it = dict(it)
        it["rule"] = "R5.2"
        rep.items.append(it)
        rep.counts["R5.2"] = rep.counts.get("R5.2", 0) + 1
    # "linearly independent and spanning": the reduced coding of a factor drops exactly the reference level (one zero / -1 row at
    # the position whose label is removed) and the full coding is the identity - the contrast obligations of C04's R4.2,
    # reported here as R5.8
    from ..core import reuse_rule
    reuse_rule(rep, C04.r4_2, "R5.8", prog, keep=lambda it: it.get("function", "").startswith("formulae.categorical."))
    rep.floor("R5.8", 6)
    shared.new_group_block(prog, rep, "R5.3")
    r5_4(prog, rep)
    r5_5(prog, rep)
    n = shared.ownership_rule(prog, rep, "R5.6", which=("GroupSpecificTerm",))
    if n is not None and n < 5:
        raise AnalysisError(f"R5.6: only {n} GroupSpecificTerm(...) constructor sites found (floor 5)")
    shared.dtype_narrowing(prog, rep, "R5.7")
    rep.floor("R5.1", 7)
    rep.floor("R5.2", 4)
    rep.floor("R5.3", 6)
    rep.floor("R5.5", 8)


def _matrix_bases(node):
    """the matrices an expression is made of when only shape changes are undone: .T, [:, np.newaxis], both arms of a
    conditional, and the trailing new-group column appended by column_stack / hstack"""
    if isinstance(node, ast.Attribute) and node.attr == "T":
        return _matrix_bases(node.value)
    if isinstance(node, ast.IfExp):
        return _matrix_bases(node.body) | _matrix_bases(node.orelse)
    if isinstance(node, ast.Subscript) and unparse(node.slice) in ("(slice(None, None, None), np.newaxis)", "(slice(None, None, None), None)") or \
            (isinstance(node, ast.Subscript) and unparse(node).endswith(("[:, np.newaxis]", "[:, None]"))):
        return _matrix_bases(node.value)
    if isinstance(node, ast.Call) and dotted(node.func) in ("np.column_stack", "np.hstack") and len(node.args) == 1 \
            and isinstance(node.args[0], (ast.List, ast.Tuple)) and len(node.args[0].elts) == 2:
        return _matrix_bases(node.args[0].elts[0])
    return {unparse(node)}


def r5_1(prog, rep):
    from .. import symexec as SX

    for q, fac, eff in (("terms.terms.GroupSpecificTerm.set_data", "self.factor.data", "self.expr.data"),
                        ("terms.terms.GroupSpecificTerm.eval_new_data", "self.factor.eval_new_data({d})", "self.expr.eval_new_data({d})")):
        f = prog.fn(q)
        kr = [x for x in calls_in(f.node) if dotted(x.func) in ("linalg.khatri_rao", "scipy.linalg.khatri_rao")]
        if len(kr) != 1:
            obl(rep, f, f.node, "R5.1", False, f"{f.name}: the block is the row-wise Kronecker product khatri_rao(<factor>.T, <effect>.T).T", "",
                f"{f.name} contains {len(kr)} khatri_rao call(s): the group-specific block is not built as indicators(factor) x effect columns by the "
                "library product any more (a hand-written replacement has to be re-confirmed against the slot order and the treatment of missing values)")
            continue
        d = f.params[1] if len(f.params) > 1 else "data"
        fac, eff = fac.format(d=d), eff.format(d=d)
        # the product is transposed back
        parent_T = any(isinstance(n, ast.Attribute) and n.attr == "T" and n.value is kr[0] for n in ast.walk(f.node))
        try:
            ex = SX.SymExec(watch={dotted(kr[0].func)}, inline_displays=False).run(f.body)
        except AnalysisError as e:
            rep.defer(f"R5.1: {q}: {e}")
            continue
        w = [e for e in ex.effects if e[0] == "watch"]
        if len(w) != 1 or len(w[0][1][1]) != 2:
            rep.defer(f"R5.1: {q}: the khatri_rao call is evaluated {len(w)} time(s) in the abstract run")
            continue
        a0, a1 = (ast.parse(SX.render(v), mode="eval").body for v in w[0][1][1])
        for label, node, want in (("factor indicator", a0, fac), ("effect", a1, eff)):
            bases = _matrix_bases(node)
            obl(rep, f, kr[0], "R5.1", bases == {want},
                f"{f.name}: the {label} operand of the product is `{want}` itself (only reshaped)", str(sorted(bases)),
                f"the {label} operand of the product is made of {sorted(bases)}: the block is no longer indicators(factor) x effect columns "
                "in the order of the labels")
        tr = [isinstance(n, ast.Attribute) and n.attr == "T" for n in (a0, a1)]
        obl(rep, f, kr[0], "R5.1", all(tr) and parent_T and _matrix_bases(a0) == {fac},
            f"{f.name}: Z = khatri_rao(<factor>.T, <effect>.T).T - group index major, effect column minor", "",
            f"{f.name} builds khatri_rao({', '.join(unparse(a) for a in kr[0].args)}): the slot order (group slowest, effect fastest) is transposed "
            "relative to the labels")
    lb = prog.fn("terms.terms.GroupSpecificTerm.labels")
    lcs = [n for n in ast.walk(lb.node) if isinstance(n, ast.ListComp) and len(n.generators) == 2]
    ok = len(lcs) == 1
    if ok:
        order = O.comprehension_order(lcs[0])
        elt = unparse(lcs[0].elt)
        ok = order[0][1] == "self.factor.labels" and order[1][1] == "levels" and elt == f"f'{{{order[1][0]}}}|{{{order[0][0]}}}'"
        obl(rep, lb, lcs[0], "R5.1", ok, "labels: outer loop over the groups, inner loop over the effect's labels; text is effect|group",
            str(order), f"label loops are {order} with element {elt}: labels no longer follow the column order of the block")
    else:
        raise AnalysisError("GroupSpecificTerm.labels: two-for comprehension not found")
    lv = [s for s in ast.walk(lb.node) if isinstance(s, ast.Assign) and unparse(s.targets[0]) == "levels"]
    ok = sorted(unparse(s.value) for s in lv) == ["['1']", "self.expr.labels"]
    obl(rep, lb, lb.node, "R5.1", ok, "effect labels are the effect term's own labels ('1' for an intercept)")
    # groups = product of the factor components' labels in component order
    f = prog.fn("terms.terms.GroupSpecificTerm.set_data")
    prods = [x for x in calls_in(f.node, local=False) if dotted(x.func) in ("itertools.product", "product")]
    if len(prods) != 1:
        raise AnalysisError("GroupSpecificTerm.set_data: itertools.product for the group names not found")
    lst, order = O.product_order(prods[0], None)
    src, rev = O.list_fill_source(f, lst)
    if rev:
        order = "rightmost-major"
    obl(rep, f, prods[0], "R5.1", src == "self.factor.components" and order == "leftmost-major",
        "group names: product of the factor components' contrast labels, in component order, leftmost-major (cells of g1:g2 in lexicographic order)",
        f"product(*{lst}), {lst} filled from {src}", f"group names are built {order} over {src}: they no longer match the factor's indicator columns")
    apps = [x for x in calls_in(f.node) if unparse(x.func) == f"{lst}.append"]
    elem = None
    if len(apps) == 1:
        lp_ = [n for n in walk_local(f.node) if isinstance(n, ast.For) and any(x is apps[0] for x in ast.walk(n))]
        if lp_ and isinstance(lp_[0].target, ast.Name):
            elem = (lp_[0].target.id, unparse(apps[0].args[0]))
    else:
        ds = [st for st in walk_local(f.node) if isinstance(st, ast.Assign) and len(st.targets) == 1 and unparse(st.targets[0]) == lst]
        if len(ds) == 1 and isinstance(ds[0].value, (ast.ListComp, ast.GeneratorExp)) and len(ds[0].value.generators) == 1 \
                and isinstance(ds[0].value.generators[0].target, ast.Name):
            elem = (ds[0].value.generators[0].target.id, unparse(ds[0].value.elt))
    obl(rep, f, apps[0] if apps else f.node, "R5.1", elem is not None and elem[1] == f"{elem[0]}.contrast_matrix.labels",
        "each component contributes its contrast labels (the labels of its indicator columns)", str(elem))
    # the factor's own matrix is folded in the same component order (R4.1)
    ts = prog.fn("terms.terms.Term.set_data")
    gim = prog.fn("utils.get_interaction_matrix")
    major, why = O.pairwise_major(gim)
    cs = [x for x in calls_in(ts.node) if dotted(x.func) in ("reduce", "functools.reduce")]
    src2, order2, _ = O.fold_order(cs[0], major if major in (0, 1) else 0, fn=f)
    obl(rep, ts, cs[0], "R5.1", src2 == "self.components" and order2 == "leftmost-major" and major == 0,
        "the factor's indicator matrix of an interaction g1:g2 is folded in the same component order, leftmost-major", why)
    fl = prog.fn("terms.terms.GroupSpecificTerm.labels")
    obl(rep, fl, fl.node, "R5.1", "self.factor.labels" in unparse(fl.node), "label groups come from the factor term's labels (same product order)", nontrivial=False)


def r5_2(prog, rep):
    f = prog.fn("terms.terms.GroupSpecificTerm.set_data")
    c = cfg_of(f)
    cs = [x for x in calls_in(f.node) if unparse(x.func) == "self.factor.set_data"]
    ok = len(cs) == 1 and [unparse(a) for a in cs[0].args] == ["True"] and c.must_pass([c.node_of(cs[0])])
    obl(rep, f, cs[0] if cs else f.node, "R5.2", ok, "the grouping factor is always coded with complete indicators: self.factor.set_data(True) on every path",
        "", "the grouping factor may be coded with a reduced contrast: rows of the reference group would fall into no slot")
    es = [x for x in calls_in(f.node) if unparse(x.func) == "self.expr.set_data"]
    obl(rep, f, es[0] if es else f.node, "R5.2", len(es) == 1 and [unparse(a) for a in es[0].args] == [f.params[1]], "the effect receives the coding decided by the model")
    st = prog.fn("terms.terms.GroupSpecificTerm.set_type")
    loops = [n for n in walk_local(st.node) if isinstance(n, ast.For) and unparse(n.iter) == "self.factor.components"]
    ok = len(loops) == 1
    if ok:
        lp = loops[0]
        forced = [s for s in lp.body if isinstance(s, ast.Assign) and unparse(s.targets[0]) == f"{unparse(lp.target)}.kind" and unparse(s.value) == "'categoric'"]
        typed = [i for i, s in enumerate(lp.body) if "set_type" in unparse(s)]
        ok = len(forced) == 1 and typed and lp.body.index(forced[0]) > max(typed)
    obl(rep, st, loops[0] if loops else st.node, "R5.2", ok,
        "every component of the grouping factor is forced to kind 'categoric' after it was typed (an integer grouping variable still yields indicators)",
        "", "a numeric grouping variable would be used as a number instead of group indicators")
    kinds = sorted(unparse(s.value) for s in walk_local(st.node) if isinstance(s, ast.Assign) and unparse(s.targets[0]) == "self.factor.kind")
    obl(rep, st, st.node, "R5.2", kinds == ["'categoric'", "'interaction'"], "the factor term itself is categoric / interaction")
    obl(rep, st, st.node, "R5.2", any(unparse(x) == f"self.expr.set_type({st.params[1]}, {st.params[2]})" for x in calls_in(st.node)), "the effect is typed with the same data and environment", nontrivial=False)


def r5_4(prog, rep):
    """coding of the effect of a group-specific term: full unless it is not an intercept and (1|same factor) is in the model.
    Decided on the truth table of the symbolic value handed to set_data."""
    from .. import symexec as SX

    f = prog.fn("terms.terms.Model.eval")
    # grouping the terms by factor with itertools.groupby needs them sorted by factor (they are in formula order)
    shared.groupby_needs_sorted(prog, rep, "R5.4", modules={"formulae.terms.terms"})
    loops = [n for n in walk_local(f.node) if isinstance(n, ast.For) and unparse(n.iter) == "self.group_terms" and isinstance(n.target, ast.Name)
             and any(isinstance(x, ast.Call) and isinstance(x.func, ast.Attribute) and x.func.attr == "set_data"
                     and unparse(x.func.value) == n.target.id for x in ast.walk(n))]
    if len(loops) != 1:
        rep.defer("R5.4: Model.eval: loop over self.group_terms with <term>.set_data(...) not found")
        return
    lp = loops[0]
    t = lp.target.id
    try:
        ex = SX.SymExec(inline_displays=True).run(lp.body)
    except AnalysisError as e:
        rep.defer(f"R5.4: Model.eval: {e}")
        return
    calls = [e for e in ex.effects if e[0] == "call" and e[1][0] == f"{t}.set_data"]
    ok = len(calls) == 1 and calls[0][2] == () and len(calls[0][1][1]) == 1
    obl(rep, f, calls[0][1][2] if calls else lp, "R5.4", ok, "every group-specific term is evaluated exactly once, unconditionally", "",
        f"set_data is called {len(calls)} time(s) / under a condition for a group-specific term")
    if not ok:
        return
    v = calls[0][1][1][0]
    try:
        atoms, table = SX.bool_table(v)
    except AnalysisError as e:
        rep.defer(f"R5.4: coding value `{SX.render(v)}`: {e}")
        return
    A = f"isinstance({t}.expr, Intercept)"
    E = f"any(_u.factor == {t}.factor and isinstance(_u.expr, Intercept) for _u in self.group_terms)"
    # membership in a list is the existence of an equal element: `X in L` == any(u == X for u in L); `not in` is its negation
    pol = {}
    atoms_n = []
    for a in atoms:
        txt, sign = a, 1
        try:
            ae = ast.parse(a, mode="eval").body
        except SyntaxError:
            ae = None
        if isinstance(ae, ast.Compare) and len(ae.ops) == 1 and isinstance(ae.ops[0], (ast.In, ast.NotIn)) and isinstance(ae.comparators[0], ast.Name):
            sign = -1 if isinstance(ae.ops[0], ast.NotIn) else 1
            txt = f"any(_u == {unparse(ae.left)} for _u in {ae.comparators[0].id})"
        if _exists_group_intercept(f, lp, txt, t):
            atoms_n.append(E)
            pol[E] = sign
        else:
            atoms_n.append(a)
    ok = sorted(atoms_n) == sorted([A, E])
    if ok:
        ia, ie = atoms_n.index(A), atoms_n.index(E)
        for vals, res in table.items():
            exists = vals[ie] if pol.get(E, 1) > 0 else not vals[ie]
            if res != (vals[ia] or not exists):
                ok = False
    obl(rep, f, calls[0][1][2], "R5.4", ok,
        "the effect is coded in full unless it is not an intercept and a group intercept (1|same factor) is in the model, searched over all group terms",
        f"coding = {SX.render(v)}",
        f"the coding handed to set_data is `{SX.render(v)}` (atoms {atoms}): not `intercept or no (1|same factor) among all group-specific terms`")


def _exists_group_intercept(f, lp, atom, t):
    """is `atom` the question 'some group-specific term has the factor of <t> and an Intercept expression', asked over ALL of
    self.group_terms?  Accepted: any(<conjunction> for u in self.group_terms), conjuncts in any order, `==` either way round; the
    search may go through a list computed once before the loop from self.group_terms
    (`fs = [u.factor for u in self.group_terms if isinstance(u.expr, Intercept)]` ... `any(x == t.factor for x in fs)`)."""
    import copy

    try:
        e = ast.parse(atom, mode="eval").body
    except SyntaxError:
        return False
    if not (isinstance(e, ast.Call) and unparse(e.func) == "any" and len(e.args) == 1 and not e.keywords
            and isinstance(e.args[0], (ast.GeneratorExp, ast.ListComp)) and len(e.args[0].generators) == 1):
        return False
    g = e.args[0].generators[0]
    if not isinstance(g.target, ast.Name) or g.is_async:
        return False
    var, src, conj = g.target.id, g.iter, [e.args[0].elt] + list(g.ifs)
    if isinstance(src, ast.Name):
        # a local bound once, in front of the loop (same block), to a comprehension over self.group_terms
        defs = [st for st in walk_local(f.node) if isinstance(st, ast.Assign) and any(isinstance(x, ast.Name) and x.id == src.id for tg in st.targets for x in ast.walk(tg))]
        stores = [n for n in walk_local(f.node) if isinstance(n, ast.Name) and n.id == src.id and isinstance(n.ctx, (ast.Store, ast.Del))]
        touched = [c for c in calls_in(f.node) if isinstance(c.func, ast.Attribute) and unparse(c.func.value) == src.id]
        if len(defs) != 1 or len(stores) != 1 or touched or defs[0] not in f.body or lp not in f.body or f.body.index(defs[0]) > f.body.index(lp):
            return False
        between = f.body[f.body.index(defs[0]) + 1: f.body.index(lp)]
        if any(isinstance(n, ast.Attribute) and n.attr == "group_terms" and isinstance(n.ctx, ast.Store) for st in between for n in ast.walk(st)) \
                or any(isinstance(c.func, ast.Attribute) and unparse(c.func.value) == "self.group_terms" for st in between for c in calls_in(st)):
            return False
        v = defs[0].value
        if isinstance(v, ast.Call) and unparse(v.func) in ("list", "tuple") and len(v.args) == 1:
            v = v.args[0]
        if not (isinstance(v, (ast.ListComp, ast.GeneratorExp, ast.SetComp)) and len(v.generators) == 1 and isinstance(v.generators[0].target, ast.Name)):
            return False
        if isinstance(defs[0].value, ast.GeneratorExp):
            return False   # a generator is exhausted by the first search
        inner = v.generators[0]

        class S(ast.NodeTransformer):
            def visit_Name(self, n):
                return copy.deepcopy(v.elt) if n.id == var and isinstance(n.ctx, ast.Load) else n

        conj = [S().visit(copy.deepcopy(c)) for c in conj] + list(inner.ifs)
        var, src = inner.target.id, inner.iter
    if unparse(src) != "self.group_terms" or var == t:
        return False
    flat = []
    for c in conj:
        flat.extend(c.values if isinstance(c, ast.BoolOp) and isinstance(c.op, ast.And) else [c])
    got = set()
    for c in flat:
        if isinstance(c, ast.Compare) and len(c.ops) == 1 and isinstance(c.ops[0], ast.Eq):
            got.add("==".join(sorted([unparse(c.left), unparse(c.comparators[0])])))
        else:
            got.add(unparse(c))
    return got == {"==".join(sorted([f"{var}.factor", f"{t}.factor"])), f"isinstance({var}.expr, Intercept)"}


def r5_5(prog, rep):
    f = prog.fn("terms.terms.Model.__or__")
    # find the if/elif chain on Intercept()/NegatedIntercept() membership
    chain = None
    for s in f.body:
        if isinstance(s, ast.If) and "Intercept() in self.common_terms" in unparse(s.test) and "NegatedIntercept() in self.common_terms" in unparse(s.test):
            chain = s
    if chain is None:
        raise AnalysisError("Model.__or__: intercept-handling chain not found")

    def ev_test(t, I, N):
        if isinstance(t, ast.BoolOp):
            vals = [ev_test(v, I, N) for v in t.values]
            return all(vals) if isinstance(t.op, ast.And) else any(vals)
        if isinstance(t, ast.UnaryOp) and isinstance(t.op, ast.Not):
            return not ev_test(t.operand, I, N)
        s = unparse(t)
        table = {"Intercept() in self.common_terms": I, "NegatedIntercept() in self.common_terms": N,
                 "Intercept() not in self.common_terms": not I, "NegatedIntercept() not in self.common_terms": not N}
        if s not in table:
            raise AnalysisError(f"Model.__or__: unmodelled intercept test `{s}`")
        return table[s]

    def run_body(body, I, N):
        for s in body:
            u = unparse(s)
            if u == "self.common_terms.remove(Intercept())":
                I = False
            elif u == "self.common_terms.remove(NegatedIntercept())":
                N = False
            elif u in ("self.common_terms.insert(0, Intercept())", "self.common_terms.append(Intercept())"):
                I = True
            elif isinstance(s, ast.Expr) and isinstance(s.value, ast.Constant):
                continue
            elif isinstance(s, ast.Pass):
                continue
            else:
                raise AnalysisError(f"Model.__or__: unmodelled intercept action `{u}`")
        return I, N

    for I0 in (False, True):
        for N0 in (False, True):
            node, I, N = chain, I0, N0
            while True:
                if ev_test(node.test, I0, N0):
                    I, N = run_body(node.body, I, N)
                    break
                if len(node.orelse) == 1 and isinstance(node.orelse[0], ast.If):
                    node = node.orelse[0]
                    continue
                I, N = run_body(node.orelse, I, N)
                break
            want_I = not N0
            obl(rep, f, chain, "R5.5", (N is False) and (I == want_I),
                f"state (Intercept in effect: {I0}, negated: {N0}) -> group intercept {'kept/added' if want_I else 'removed'}, negation consumed",
                f"after the chain: Intercept={I}, NegatedIntercept={N}",
                f"from (Intercept={I0}, Negated={N0}) the chain ends with Intercept={I}, Negated={N}; expected Intercept={want_I}, Negated=False "
                "(implicit group intercept unless the effect removes it with 0 / -1)")
    # the chain runs before the pairing, and the single-term shortcut delegates to the term's own `|`
    c = cfg_of(f)
    gsts = [x for x in calls_in(f.node, local=False) if dotted(x.func) == "GroupSpecificTerm"]
    ok = bool(gsts) and all(c.dominates(c.node_of(chain), c.node_of(x)) for x in gsts if id(x) in c.owner)
    obl(rep, f, chain, "R5.5", ok, "the intercept is settled before the (effect, factor) pairs are formed")
    sc = [i for i in f.body if isinstance(i, ast.If) and unparse(i.test) == "len(self.common_terms) == 1"]
    ok = len(sc) == 1 and [unparse(s) for s in sc[0].body] == [f"return self.common_terms[0] | {f.params[1]}"]
    obl(rep, f, sc[0] if sc else f.node, "R5.5", ok, "a one-term effect is delegated to that term's own `|` (Term adds the implicit intercept, NegatedIntercept refuses)")
    # pairing ranges over all terms of the factor expression
    for q in ("terms.terms.Term.__or__", "terms.terms.Intercept.__or__", "terms.terms.Model.__or__"):
        g = prog.fn(q)
        o = g.params[1]
        prods = [x for x in calls_in(g.node, local=False) if dotted(x.func) in ("product", "itertools.product")]
        for p in prods:
            args = [unparse(a) for a in p.args]
            full = all(a in ("[self]", f"[{o}]", "self.common_terms", f"{o}.common_terms") for a in args) and len(args) == 2
            obl(rep, g, p, "R5.5", full, f"{g.cls.name}.__or__: product({', '.join(args)}) pairs every effect term with every factor term", "",
                f"pairing ranges over {args}: some (effect, factor) pairs are skipped")
    t = prog.fn("terms.terms.Term.__or__")
    src = unparse(t.node)
    n_int = src.count("GroupSpecificTerm(Intercept(), ")
    obl(rep, t, t.node, "R5.5", n_int == 2, "Term.__or__ adds the implicit group intercept for a single factor and for every term of a sum of factors", f"{n_int} site(s)")
    ni = prog.fn("terms.terms.NegatedIntercept.__or__")
    obl(rep, ni, ni.node, "R5.5", isinstance(ni.body[-1], ast.Raise), "(0 | g) is refused", nontrivial=False)


from ..core import guard_rules  # noqa: E402

guard_rules(globals())

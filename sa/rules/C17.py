"""C17 - matrix containers are internally consistent (R17.1 .. R17.6)."""
import ast

from ..core import (
    AnalysisError,
    obl,
    unparse,
    short,
    dotted,
    is_self_attr,
    walk_local,
    calls_in,
    block_raises,
    strip_docstring,
)
from ..cfg import cfg_of

EXPLANATION = (
    "Slice bookkeeping is written three times (CommonEffectsMatrix.evaluate, GroupEffectsMatrix.evaluate, "
    "GroupEffectsMatrix.evaluate_new_data). R17.1 checks the running-offset idiom at each site: start = 0 "
    "dominates the loop, the loop iterates the very collection whose arrays are stacked, in the same order, the "
    "stored value is slice(start, start + delta) under the term's name, start += delta follows unconditionally, "
    "and delta is the column count of the array that is stacked for that term (training data at training, the "
    "freshly evaluated matrix at prediction). Hence slices are contiguous, start at zero, follow term order and "
    "cover the columns. R17.2 labels are flattened over the same iteration; R17.3 every view (np.array, [], "
    "as_dataframe, tuple unpacking) reads the one design_matrix, unknown names meet a raising guard; R17.4 the "
    "common matrix re-uses the training slices and stacks the same terms in the same order; R17.5 printing "
    "contains no assert/raise and reports the live shape; R17.6 one frame reaches all three matrices."
    " R17.8 one holder per component object (C06's R6.4)."
    ' R17.10 no axis-less squeeze on the evaluation path.'
)
ASSUMPTIONS = [
    "np.column_stack preserves list order and contributes shape[1] columns per 2-D block and one per 1-D block",
    "dict preserves insertion order (Python >= 3.7)",
    "width-safety of shared training slices for common terms relies on the C06/C10 rules (remembered contrasts, frozen transforms, zeroed rows)",
]


def run(prog, rep, tier):
    r17_1(prog, rep)
    r17_2(prog, rep)
    r17_2b(prog, rep)
    r17_3(prog, rep)
    r17_4(prog, rep)
    r17_5(prog, rep)
    r17_6(prog, rep)
    from . import shared
    shared.dtype_narrowing(prog, rep, "R17.7")
    # slices are computed from the evaluated term data, labels from the components' remembered coding: the two agree (equal
    # in number, slices cover the columns) only while every component object belongs to one term (C06's R6.4), here R17.8
    shared.ownership_rule(prog, rep, "R17.8")
    # "including when new groups widen the group matrix": the block is widened exactly when a row has no group at all, by one
    # trailing column (C10's R10.5 / C05's R5.3 model of the new-group block), here R17.9
    shared.new_group_block(prog, rep, "R17.9")
    # every block has one row per observation, also for a single observation: no axis-less squeeze on the evaluation path
    shared.no_axisless_squeeze(prog, rep, "R17.10")
    rep.floor("R17.1", 18)
    rep.floor("R17.3", 8)
    rep.floor("R17.5", 10)


def _fresh_instance_var(f):
    """the local bound to a fresh instance of the matrix class over the same terms (prediction): name or None"""
    for st in walk_local(f.node):
        if isinstance(st, ast.Assign) and len(st.targets) == 1 and isinstance(st.targets[0], ast.Name) and isinstance(st.value, ast.Call):
            if unparse(st.value.func) in ("self.__class__", "type(self)", f.cls.name if f.cls else ""):
                return st.targets[0].id, st
    return None, None


def _sequence_loops(body, loc):
    import copy

    V = "seq__v"
    counter = [0]

    def single_defs():
        stores = {}
        for st in body:
            for n in ast.walk(st):
                if isinstance(n, ast.Name) and isinstance(n.ctx, ast.Store):
                    stores[n.id] = stores.get(n.id, 0) + 1
        return {st.targets[0].id: st.value for st in body if isinstance(st, ast.Assign) and len(st.targets) == 1
                and isinstance(st.targets[0], ast.Name) and stores.get(st.targets[0].id) == 1}

    defs = single_defs()

    def subst(e, var, by):
        class R(ast.NodeTransformer):
            def visit_Name(self, n):
                return copy.deepcopy(by) if n.id == var and isinstance(n.ctx, ast.Load) else n
        return R().visit(copy.deepcopy(e))

    def simplify(e):
        class R(ast.NodeTransformer):
            def visit_Call(self, n):
                self.generic_visit(n)
                # f(*(a, b)) -> f(a, b)
                if len(n.args) == 1 and isinstance(n.args[0], ast.Starred) and isinstance(n.args[0].value, ast.Tuple) and not n.keywords:
                    n.args = list(n.args[0].value.elts)
                return n

            def visit_Subscript(self, n):
                self.generic_visit(n)
                if isinstance(n.value, ast.Tuple) and isinstance(n.slice, ast.Constant) and isinstance(n.slice.value, int) \
                        and -len(n.value.elts) <= n.slice.value < len(n.value.elts):
                    return n.value.elts[n.slice.value]
                return n
        return R().visit(e)

    BASES = ("values", "items", "keys")

    def seq_of(e, depth=0):
        """dict(base=text of the base iterable, node=its AST, elt=element AST over Name V, width=AST or None) or None"""
        if depth > 8:
            return None
        if isinstance(e, ast.Call) and dotted(e.func) in ("list", "tuple", "iter") and len(e.args) == 1 and not e.keywords:
            return seq_of(e.args[0], depth + 1)
        if isinstance(e, ast.Name) and e.id in defs:
            inner = seq_of(defs[e.id], depth + 1)
            if inner is not None and (inner["base"] != e.id):
                return inner
        if isinstance(e, (ast.ListComp, ast.GeneratorExp)) and len(e.generators) == 1 and not e.generators[0].ifs:
            g = e.generators[0]
            src = seq_of(g.iter, depth + 1)
            if src is None:
                return None
            bind = copy.deepcopy(src["elt"])
            if isinstance(g.target, ast.Name):
                elt = subst(e.elt, g.target.id, bind)
            elif isinstance(g.target, ast.Tuple) and all(isinstance(t, ast.Name) for t in g.target.elts):
                elt = copy.deepcopy(e.elt)
                for i, t in enumerate(g.target.elts):
                    elt = subst(elt, t.id, ast.Subscript(value=copy.deepcopy(bind), slice=ast.Constant(value=i), ctx=ast.Load()))
            else:
                return None
            return dict(base=src["base"], node=src["node"], elt=simplify(elt), width=src["width"])
        if isinstance(e, ast.Call) and dotted(e.func) == "zip" and len(e.args) >= 2 and not e.keywords:
            parts = [seq_of(a, depth + 1) for a in e.args]
            if any(p_ is None for p_ in parts) or len({p_["base"] for p_ in parts}) != 1:
                return None
            ws = [p_["width"] for p_ in parts if p_["width"] is not None]
            if len({unparse(w) for w in ws}) > 1:
                return None
            return dict(base=parts[0]["base"], node=parts[0]["node"], elt=ast.Tuple(elts=[p_["elt"] for p_ in parts], ctx=ast.Load()),
                        width=ws[0] if ws else None)
        if isinstance(e, ast.Call) and dotted(e.func) in ("pairwise", "itertools.pairwise") and len(e.args) == 1 and isinstance(e.args[0], ast.Call) \
                and dotted(e.args[0].func) in ("accumulate", "itertools.accumulate") and len(e.args[0].args) == 1 \
                and [(k.arg, unparse(k.value)) for k in e.args[0].keywords] == [("initial", "0")]:
            w = seq_of(e.args[0].args[0], depth + 1)
            if w is None or w["width"] is not None:
                return None
            off = ast.Name(id="seq__off", ctx=ast.Load())
            return dict(base=w["base"], node=w["node"], width=w["elt"],
                        elt=ast.Tuple(elts=[off, ast.BinOp(left=copy.deepcopy(off), op=ast.Add(), right=ast.Name(id="seq__w", ctx=ast.Load()))], ctx=ast.Load()))
        if isinstance(e, ast.Call) and dotted(e.func) in ("accumulate", "itertools.accumulate") and len(e.args) == 1 and not e.keywords:
            # running totals: element i is (sum of the widths before i) + width i
            w = seq_of(e.args[0], depth + 1)
            if w is None or w["width"] is not None:
                return None
            off = ast.Name(id="seq__off", ctx=ast.Load())
            return dict(base=w["base"], node=w["node"], width=w["elt"],
                        elt=ast.BinOp(left=off, op=ast.Add(), right=ast.Name(id="seq__w", ctx=ast.Load())))
        # a base iterable: a name that is not a derived sequence, or <expr>.values() / .items() / .keys() / an attribute
        if isinstance(e, ast.Name) or (isinstance(e, ast.Call) and isinstance(e.func, ast.Attribute) and e.func.attr in BASES and not e.args) \
                or isinstance(e, ast.Attribute):
            txt = unparse(e)
            if isinstance(e, ast.Name) and e.id in defs:
                # `terms = list(self.terms.values())`: the same sequence as the call it was bound to
                d = defs[e.id]
                while isinstance(d, ast.Call) and dotted(d.func) in ("list", "tuple") and len(d.args) == 1:
                    d = d.args[0]
                if isinstance(d, ast.Call) and isinstance(d.func, ast.Attribute) and d.func.attr in BASES and not d.args:
                    return dict(base=unparse(d), node=d, elt=ast.Name(id=V, ctx=ast.Load()), width=None)
            return dict(base=txt, node=e, elt=ast.Name(id=V, ctx=ast.Load()), width=None)
        return None

    def as_loop(target, seq, inner, at):
        counter[0] += 1
        v = f"seq__v{counter[0]}"
        offn, wn = f"seq__off{counter[0]}", f"seq__w{counter[0]}"
        ren = {V: v, "seq__off": offn, "seq__w": wn}

        def rn(e):
            e = copy.deepcopy(e)
            for n in ast.walk(e):
                if isinstance(n, ast.Name) and n.id in ren:
                    n.id = ren[n.id]
            return e

        pre, stmts = [], []
        if seq["width"] is not None:
            pre.append(loc(ast.Assign(targets=[ast.Name(id=offn, ctx=ast.Store())], value=ast.Constant(value=0)), at))
            stmts.append(loc(ast.Assign(targets=[ast.Name(id=wn, ctx=ast.Store())], value=rn(seq["width"])), at))
        def bind(tg, val):
            """target = value, taken apart while both sides are tuples of the same length"""
            if isinstance(tg, (ast.Tuple, ast.List)) and isinstance(val, ast.Tuple) and len(tg.elts) == len(val.elts) \
                    and not any(isinstance(x, ast.Starred) for x in tg.elts):
                for a, b in zip(tg.elts, val.elts):
                    bind(a, b)
                return
            tg = copy.deepcopy(tg)
            for n in ast.walk(tg):
                if isinstance(n, (ast.Name, ast.Tuple, ast.List)):
                    n.ctx = ast.Store()
            stmts.append(loc(ast.Assign(targets=[tg], value=val), at))

        bind(target, rn(seq["elt"]))
        if seq["width"] is not None:
            stmts.append(loc(ast.Assign(targets=[ast.Name(id=offn, ctx=ast.Store())],
                                        value=ast.BinOp(left=ast.Name(id=offn, ctx=ast.Load()), op=ast.Add(), right=ast.Name(id=wn, ctx=ast.Load()))), at))
        lp = loc(ast.For(target=ast.Name(id=v, ctx=ast.Store()), iter=copy.deepcopy(seq["node"]), body=stmts + inner, orelse=[]), at)
        return pre + [lp]

    out = []
    for st in body:
        if isinstance(st, ast.For) and not st.orelse:
            sq = seq_of(st.iter)
            if sq is not None and not (isinstance(sq["elt"], ast.Name) and sq["width"] is None):
                out.extend(as_loop(st.target, sq, st.body, st))
                continue
        v = st.value if isinstance(st, ast.Expr) else None
        if isinstance(v, ast.Call) and isinstance(v.func, ast.Attribute) and v.func.attr == "update" and len(v.args) == 1 and not v.keywords \
                and not isinstance(v.args[0], (ast.DictComp, ast.Dict)):
            sq = seq_of(v.args[0])
            if sq is not None and isinstance(sq["elt"], ast.Tuple) and len(sq["elt"].elts) == 2:
                counter[0] += 1
                k, val = f"seq__k{counter[0]}", f"seq__x{counter[0]}"
                store = ast.Assign(targets=[ast.Subscript(value=copy.deepcopy(v.func.value), slice=ast.Name(id=k, ctx=ast.Load()), ctx=ast.Store())],
                                   value=ast.Name(id=val, ctx=ast.Load()))
                tgt = ast.Tuple(elts=[ast.Name(id=k, ctx=ast.Store()), ast.Name(id=val, ctx=ast.Store())], ctx=ast.Store())
                out.extend(as_loop(tgt, sq, [loc(store, st)], st))
                continue
        out.append(st)
    return out


def single_pass_view(body):
    """A view of a function body in which work that is spread over several passes over the same per-term sequence is brought
    into the producing loop (only used by the slice models; the interleaving of *independent* per-element work does not
    matter to them):
      X.update({k: v for T in IT})              ->  for T in IT: X[k] = v
      L = [E for T in IT]  (consumed later)     ->  L = []; for T in IT: L.append(E)
      for TB in L: BODY   (L filled by one unconditional L.append(E) in an earlier top-level loop A)
                                                ->  appended to A's body as  TB = E; BODY
      [ELT for TB in L]                         ->  a new list filled in A by  TB = E; <new>.append(ELT)
    Returns a new list of statements (deep copy); the input is not modified."""
    import copy

    body = [copy.deepcopy(s) for s in body]

    def loc(new, old):
        for n in ast.walk(new):
            if not hasattr(n, "lineno"):
                n.lineno, n.col_offset = getattr(old, "lineno", 1), getattr(old, "col_offset", 0)
                n.end_lineno, n.end_col_offset = getattr(old, "end_lineno", n.lineno), getattr(old, "end_col_offset", 0)
        return new

    def names_stored(stmts):
        out = set()
        for s_ in stmts:
            local = {id(n) for c in ast.walk(s_) if isinstance(c, ast.comprehension) for n in ast.walk(c.target) if isinstance(n, ast.Name)}
            out |= {n.id for n in ast.walk(s_) if isinstance(n, ast.Name) and isinstance(n.ctx, ast.Store) and id(n) not in local}
        return out

    def names_loaded(stmts):
        out = set()
        for s_ in stmts:
            local = {n.id for c in ast.walk(s_) if isinstance(c, ast.comprehension) for n in ast.walk(c.target) if isinstance(n, ast.Name)}
            out |= {n.id for n in ast.walk(s_) if isinstance(n, ast.Name) and isinstance(n.ctx, ast.Load)} - local
        return out

    def store_ctx(t):
        t = copy.deepcopy(t)
        for n in ast.walk(t):
            if isinstance(n, (ast.Name, ast.Tuple, ast.List, ast.Starred)):
                n.ctx = ast.Store()
        return t

    # 0. sequences derived element by element from one base iterable (comprehensions, zip, pairwise(accumulate(...)), starmap):
    #    a loop / dict.update over such a sequence is a loop over the base with the element computed in the body
    body = _sequence_loops(body, loc)

    # 1. X.update(<dict comprehension / generator of pairs>)
    out = []
    for s_ in body:
        v = s_.value if isinstance(s_, ast.Expr) else None
        if isinstance(v, ast.Call) and isinstance(v.func, ast.Attribute) and v.func.attr == "update" and len(v.args) == 1 and not v.keywords:
            a = v.args[0]
            k = val = None
            if isinstance(a, ast.DictComp) and len(a.generators) == 1:
                k, val, g = a.key, a.value, a.generators[0]
            elif isinstance(a, (ast.GeneratorExp, ast.ListComp)) and len(a.generators) == 1 and isinstance(a.elt, ast.Tuple) and len(a.elt.elts) == 2:
                k, val, g = a.elt.elts[0], a.elt.elts[1], a.generators[0]
            if k is not None:
                st_ = ast.Assign(targets=[ast.Subscript(value=copy.deepcopy(v.func.value), slice=k, ctx=ast.Store())], value=val)
                inner = [st_]
                for c in reversed(g.ifs):
                    inner = [ast.If(test=c, body=inner, orelse=[])]
                out.append(loc(ast.For(target=g.target, iter=g.iter, body=inner, orelse=[]), s_))
                continue
        out.append(s_)
    body = out

    def consumers(L, stmts):
        """(loops over L, comprehensions over L) in stmts"""
        loops = [x for x in stmts if isinstance(x, ast.For) and isinstance(x.iter, ast.Name) and x.iter.id == L]
        comps = [c for x in stmts for c in ast.walk(x) if isinstance(c, (ast.ListComp, ast.GeneratorExp, ast.DictComp)) and len(c.generators) == 1
                 and isinstance(c.generators[0].iter, ast.Name) and c.generators[0].iter.id == L]
        return loops, comps

    body = _sequence_loops(body, loc)   # the loops made in step 1 may range over derived sequences as well

    # 2. a list built by a comprehension and consumed element-wise later becomes an explicit producing loop
    out = []
    for i, s_ in enumerate(body):
        if isinstance(s_, ast.Assign) and len(s_.targets) == 1 and isinstance(s_.targets[0], ast.Name) and isinstance(s_.value, ast.ListComp) \
                and len(s_.value.generators) == 1 and not s_.value.generators[0].ifs:
            L = s_.targets[0].id
            loops, comps = consumers(L, body[i + 1:])
            if loops or comps:
                g = s_.value.generators[0]
                out.append(loc(ast.Assign(targets=[ast.Name(id=L, ctx=ast.Store())], value=ast.List(elts=[], ctx=ast.Load())), s_))
                app = ast.Expr(value=ast.Call(func=ast.Attribute(value=ast.Name(id=L, ctx=ast.Load()), attr="append", ctx=ast.Load()),
                                              args=[s_.value.elt], keywords=[]))
                out.append(loc(ast.For(target=g.target, iter=g.iter, body=[app], orelse=[]), s_))
                continue
        out.append(s_)
    body = out

    def append_sites(A, L):
        """[(statement list, index)] of every `L.append(E)` statement inside loop A (nested in ifs, not in inner loops)"""
        sites = []

        def walk(stmts):
            for j, x in enumerate(stmts):
                if isinstance(x, ast.Expr) and isinstance(x.value, ast.Call) and isinstance(x.value.func, ast.Attribute) and x.value.func.attr == "append" \
                        and isinstance(x.value.func.value, ast.Name) and x.value.func.value.id == L and len(x.value.args) == 1:
                    sites.append((stmts, j))
                elif isinstance(x, ast.If):
                    walk(x.body)
                    walk(x.orelse)
        walk(A.body)
        return sites

    def insert_after_sites(A, L, make):
        """put make(E) right behind every append site (processed back to front so that indices stay valid)"""
        for stmts, j in sorted(append_sites(A, L), key=lambda t: -t[1]):
            E = stmts[j].value.args[0]
            stmts[j + 1:j + 1] = make(E)

    # 3./4. fuse consumers into the producing loop
    changed = True
    counter = 0
    while changed:
        changed = False
        for ia, A in enumerate(body):
            if not isinstance(A, ast.For) or A.orelse or any(isinstance(n, (ast.Break, ast.Return)) for n in ast.walk(A)):
                continue
            lists = []
            for n in ast.walk(A):
                if isinstance(n, ast.Call) and isinstance(n.func, ast.Attribute) and n.func.attr == "append" and isinstance(n.func.value, ast.Name) \
                        and n.func.value.id not in lists:
                    lists.append(n.func.value.id)
            for L in lists:
                sites = append_sites(A, L)
                all_apps = [n for x in body for n in ast.walk(x) if isinstance(n, ast.Call) and isinstance(n.func, ast.Attribute)
                            and n.func.attr in ("append", "extend", "insert") and isinstance(n.func.value, ast.Name) and n.func.value.id == L]
                inits = [x for x in body[:ia] if isinstance(x, ast.Assign) and len(x.targets) == 1 and isinstance(x.targets[0], ast.Name)
                         and x.targets[0].id == L]
                if not sites or len(all_apps) != len(sites) or len(inits) != 1 or not (isinstance(inits[0].value, ast.List) and not inits[0].value.elts):
                    continue
                loops, comps = consumers(L, body[ia + 1:])
                if loops:
                    B = loops[0]
                    ib = body.index(B)
                    between = body[ia + 1:ib]
                    if B.orelse or any(isinstance(n, (ast.Break, ast.Return, ast.Continue)) for n in ast.walk(B)) or L in names_loaded(B.body):
                        continue
                    # statements between the two loops: what the consumer needs (initialisations) is hoisted before loop A if it
                    # does not depend on A; everything else stays behind the fused loop if it does not depend on the consumer
                    mutated_in_A = names_stored([A]) | {n.func.value.id for n in ast.walk(A) if isinstance(n, ast.Call) and isinstance(n.func, ast.Attribute)
                                                        and isinstance(n.func.value, ast.Name) and n.func.attr in ("append", "extend", "insert", "update", "add")}
                    b_loads, b_stores = names_loaded(B.body), names_stored(B.body) | names_stored([B.target])
                    hoist, stay, ok = [], [], True
                    for x in between:
                        if not isinstance(x, (ast.Assign, ast.Expr)):
                            ok = False
                            break
                        xs, xl = names_stored([x]), names_loaded([x])
                        if xs & (b_loads | b_stores):
                            if isinstance(x, ast.Assign) and not (xl & mutated_in_A) and not (xs & (names_loaded([A]) | mutated_in_A)):
                                hoist.append(x)
                            else:
                                ok = False
                                break
                        elif xl & b_stores:
                            ok = False
                            break
                        else:
                            stay.append(x)
                    if not ok:
                        continue
                    insert_after_sites(A, L, lambda E: [loc(ast.Assign(targets=[store_ctx(B.target)], value=copy.deepcopy(E)), B)] + copy.deepcopy(B.body))
                    body = body[:ia] + hoist + [A] + stay + body[ib + 1:]
                    changed = True
                    break
                if comps:
                    c = comps[0]
                    counter += 1
                    newL = f"{L}__{counter}"
                    g = c.generators[0]
                    is_dict = isinstance(c, ast.DictComp)

                    def make(E, c=c, g=g, newL=newL, is_dict=is_dict):
                        bind = loc(ast.Assign(targets=[store_ctx(g.target)], value=copy.deepcopy(E)), A)
                        if is_dict:
                            put = ast.Assign(targets=[ast.Subscript(value=ast.Name(id=newL, ctx=ast.Load()), slice=copy.deepcopy(c.key), ctx=ast.Store())],
                                             value=copy.deepcopy(c.value))
                        else:
                            put = ast.Expr(value=ast.Call(func=ast.Attribute(value=ast.Name(id=newL, ctx=ast.Load()), attr="append", ctx=ast.Load()),
                                                          args=[copy.deepcopy(c.elt)], keywords=[]))
                        inner = [loc(put, A)]
                        for cnd in reversed(g.ifs):
                            inner = [loc(ast.If(test=copy.deepcopy(cnd), body=inner, orelse=[]), A)]
                        return [bind] + inner

                    insert_after_sites(A, L, make)
                    init = loc(ast.Assign(targets=[ast.Name(id=newL, ctx=ast.Store())],
                                          value=ast.Dict(keys=[], values=[]) if is_dict else ast.List(elts=[], ctx=ast.Load())), A)
                    repl = ast.Name(id=newL, ctx=ast.Load())

                    class R(ast.NodeTransformer):
                        def generic_visit(self, node):
                            for fld, old in ast.iter_fields(node):
                                if old is c:
                                    setattr(node, fld, loc(repl, c))
                                elif isinstance(old, list):
                                    for j, o in enumerate(old):
                                        if o is c:
                                            old[j] = loc(repl, c)
                                        elif isinstance(o, ast.AST):
                                            self.visit(o)
                                elif isinstance(old, ast.AST):
                                    self.visit(old)
                            return node

                    for x in body[ia + 1:]:
                        R().visit(x)
                    body = body[:ia] + [init] + body[ia:]
                    changed = True
                    break
            if changed:
                break
    # 5. two top-level loops over the same collection (same text, plain loop variables, no early exits) are one loop: per-element
    #    work that does not depend on the other loop's later iterations
    merged = True
    while merged:
        merged = False
        loops = [x for x in body if isinstance(x, ast.For) and isinstance(x.target, ast.Name) and not x.orelse
                 and not any(isinstance(n, (ast.Break, ast.Return, ast.Continue)) for n in ast.walk(x))]
        stores_ = {}
        for x in body:
            for n in ast.walk(x):
                if isinstance(n, ast.Name) and isinstance(n.ctx, ast.Store):
                    stores_[n.id] = stores_.get(n.id, 0) + 1

        def base_text(it):
            """`terms` bound once to list(X.values()) ranges over X.values()"""
            if isinstance(it, ast.Name) and stores_.get(it.id) == 1:
                for x in body:
                    if isinstance(x, ast.Assign) and len(x.targets) == 1 and isinstance(x.targets[0], ast.Name) and x.targets[0].id == it.id:
                        d = x.value
                        while isinstance(d, ast.Call) and dotted(d.func) in ("list", "tuple") and len(d.args) == 1:
                            d = d.args[0]
                        if isinstance(d, ast.Call) and isinstance(d.func, ast.Attribute) and d.func.attr in ("values", "items", "keys") and not d.args:
                            return unparse(d)
            return unparse(it)

        for i, A in enumerate(loops):
            for B in loops[i + 1:]:
                if base_text(A.iter) != base_text(B.iter):
                    continue
                ia, ib = body.index(A), body.index(B)
                between = body[ia + 1:ib]
                a_st = names_stored([A]) | {n.func.value.id for n in ast.walk(A) if isinstance(n, ast.Call) and isinstance(n.func, ast.Attribute)
                                            and isinstance(n.func.value, ast.Name) and n.func.attr in ("append", "extend", "insert", "update", "add")}
                b_loads, b_stores = names_loaded(B.body), names_stored(B.body) | {B.target.id}
                # B must not read a collection that A is still filling (it would see only a prefix)
                if b_loads & {n for n in a_st if n not in names_stored(A.body)} - {A.target.id}:
                    continue
                hoist, stay, ok = [], [], True
                for x in between:
                    if not isinstance(x, (ast.Assign, ast.Expr)):
                        ok = False
                        break
                    xs, xl = names_stored([x]), names_loaded([x])
                    if xs & (b_loads | b_stores):
                        # B needs it: it must be computable before A starts
                        if isinstance(x, ast.Assign) and not (xl & a_st) and not (xs & (names_loaded([A]) | a_st)):
                            hoist.append(x)
                        else:
                            ok = False
                            break
                    elif xl & b_stores:
                        ok = False
                        break
                    else:
                        stay.append(x)
                if not ok:
                    continue
                ren = {B.target.id: A.target.id}
                nb = copy.deepcopy(B.body)
                for x in nb:
                    for n in ast.walk(x):
                        if isinstance(n, ast.Name) and n.id in ren:
                            n.id = ren[n.id]
                A.body = A.body + nb
                body = body[:ia] + hoist + [A] + stay + body[ib + 1:]
                merged = True
                break
            if merged:
                break
    return body


def loop_model(prog, q, container):
    """abstract evaluation of the slice-building loop of function q: dict(f, lp, tv, it, container, pre, ex, body)"""
    from .. import symexec as SX

    f = prog.fn(q)
    if container is None:
        container, _ = _fresh_instance_var(f)
        if container is None:
            raise AnalysisError(f"{q}: no fresh instance of the matrix class is created")
    body = single_pass_view(strip_docstring(f.node.body))
    view = ast.Module(body=body, type_ignores=[])
    loops = [n for n in body if isinstance(n, ast.For)]
    loops = [lp for lp in loops if any(isinstance(st, ast.Assign) and isinstance(st.targets[0], ast.Subscript)
                                       and unparse(st.targets[0].value) == f"{container}.slices" for st in ast.walk(lp))]
    if len(loops) != 1:
        raise AnalysisError(f"{q}: expected exactly one loop storing into {container}.slices, found {len(loops)}")
    lp = loops[0]
    key_var = None
    if isinstance(lp.target, ast.Tuple) and len(lp.target.elts) == 2 and all(isinstance(e, ast.Name) for e in lp.target.elts) \
            and isinstance(lp.iter, ast.Call) and isinstance(lp.iter.func, ast.Attribute) and lp.iter.func.attr == "items" and not lp.iter.args:
        # for name, term in self.terms.items(): the dict is keyed by term.name (R17.2 checks the constructor)
        key_var, tv = lp.target.elts[0].id, lp.target.elts[1].id
    elif isinstance(lp.target, ast.Name):
        tv = lp.target.id
    else:
        raise AnalysisError(f"{q}: the slice loop does not iterate over single terms (`for {unparse(lp.target)} in ...`)")
    # state before the loop
    pre = SX.SymExec()
    for st in body[:body.index(lp)]:
        try:
            pre.step(st)
        except AnalysisError:
            for n in ast.walk(st):
                if isinstance(n, ast.Name) and isinstance(n.ctx, ast.Store):
                    pre.env[n.id] = SX.Opaque(f"<{n.id} after {type(st).__name__}>")
    def coll(e, _depth=0):
        """the collection an iteration ranges over: X.values() / X.items() -> X (same order); list(X) / tuple(X) -> X; a local
        bound once (before the loop) to one of these -> the same collection"""
        if isinstance(e, ast.Call) and isinstance(e.func, ast.Attribute) and e.func.attr in ("values", "items") and not e.args:
            return pre.text(e.func.value) + " (dict order)"
        if isinstance(e, ast.Call) and dotted(e.func) in ("list", "tuple") and len(e.args) == 1 and not e.keywords:
            return coll(e.args[0], _depth + 1)
        if isinstance(e, ast.Name) and _depth < 4:
            ds = [st for st in ast.walk(f.node) if isinstance(st, ast.Assign) and any(isinstance(t, ast.Name) and t.id == e.id for t in st.targets)]
            stores_ = [n for n in ast.walk(f.node) if isinstance(n, ast.Name) and n.id == e.id and isinstance(n.ctx, ast.Store)]
            grown = [c for c in calls_in(f.node, local=False) if isinstance(c.func, ast.Attribute) and unparse(c.func.value) == e.id
                     and c.func.attr in ("append", "insert", "extend", "pop", "remove", "sort", "reverse", "clear")]
            if len(ds) == 1 and len(stores_) == 1 and not grown and (ds[0] in f.node.body or any(unparse(x) == unparse(ds[0]) for x in body)):
                return coll(ds[0].value, _depth + 1)
        return pre.text(e)

    it = coll(lp.iter)
    carried = {n.id for n in ast.walk(lp) if isinstance(n, ast.Name) and isinstance(n.ctx, ast.Store)} - {tv, key_var}
    env_in = dict(pre.env)
    env_in.pop(tv, None)
    if key_var:
        env_in[key_var] = SX.Opaque(f"{tv}.name")
    for v in carried:
        env_in[v] = SX.atom(f"{v}__in")
    # two loop-carried variables that start equal and are advanced alike hold the same value in every iteration (an offset kept
    # twice): they are given one symbol, provided one iteration from equal values ends in equal values (inductive step)
    groups = {}
    for v in sorted(carried):
        iv = pre.env.get(v)
        if isinstance(iv, SX.Lin) and not iv.t:
            groups.setdefault(iv.c, []).append(v)
    unify = {v: g[0] for g in groups.values() if len(g) > 1 for v in g}
    # `if c: ...; continue` + rest  ==  `if c: ... else: rest`: bring the body into if/else form first
    import copy as _copy0
    from ..canon import _else_form

    lbody = _else_form(_copy0.deepcopy(lp.body))

    def drop_continue(stmts):
        out = [x for x in stmts if not isinstance(x, ast.Continue)] if stmts and isinstance(stmts[-1], ast.Continue) else list(stmts)
        for x in out:
            if isinstance(x, ast.If):
                x.body = drop_continue(x.body) or [ast.Pass()]
                x.orelse = drop_continue(x.orelse)
        return out

    lbody = drop_continue(lbody)
    try:
        ex = None
        if unify:
            env_u = dict(env_in)
            for v, r_ in unify.items():
                env_u[v] = SX.atom(f"{r_}__in")
            try:
                ex_u = SX.SymExec(env_u).run(_copy0.deepcopy(lbody))
                if all(ex_u.env.get(v) == ex_u.env.get(r_) for v, r_ in unify.items()):
                    ex = ex_u
            except AnalysisError:
                ex = None
        if ex is None:
            ex = SX.SymExec(env_in).run(lbody)
    except AnalysisError as e:
        raise AnalysisError(f"{q}: {e}")
    return dict(f=f, lp=lp, tv=tv, it=it, container=container, pre=pre, ex=ex, body=body, coll=coll, view=view)


def _site(prog, rep, q, container, stacked_kind):
    """One slice-building loop, decided by symbolic evaluation of the loop body (sa/symexec.py): whatever the temporaries are
    called and however the arithmetic is spelled, the stored slice must be slice(S, S + W), the offset must become S + W, S
    must be 0 on entry, and W must be the column count of the very block that is stacked in that iteration."""
    from .. import symexec as SX

    M = loop_model(prog, q, container)
    f, lp, tv, it, container, pre, ex, body, coll = (M[k] for k in ("f", "lp", "tv", "it", "container", "pre", "ex", "body", "coll"))
    view = M["view"]
    stores = [e for e in ex.effects if e[0] == "store" and e[1][0] == f"{container}.slices"]
    ok = len(stores) == 1 and stores[0][2] == () and stores[0][1][1] == f"{tv}.name"
    obl(rep, f, stores[0][1][3] if stores else lp, "R17.1", ok,
        f"{container}.slices[{tv}.name] is stored exactly once, unconditionally, on every iteration", "",
        f"slice stores in the loop: {[(e[1][1], [c for c in e[2]]) for e in stores]}")
    val = stores[0][1][2] if stores else None
    ok = isinstance(val, SX.Slice)
    S = None
    if ok:
        lo = val.lo
        ok = isinstance(lo, SX.Lin) and lo.c == 0 and len(lo.t) == 1 and list(lo.t.values()) == [1] and list(lo.t)[0].endswith("__in")
        if ok:
            S = list(lo.t)[0][:-4]
    obl(rep, f, stores[0][1][3] if stores else lp, "R17.1", ok,
        "the stored slice starts at the running offset (a variable carried from one iteration to the next)",
        f"offset variable `{S}`", f"stored value is `{SX.render(val) if val is not None else '?'}`")
    W = SX.add(val.hi, val.lo, -1) if isinstance(val, SX.Slice) else None
    # (a) offset is 0 on entry
    init = pre.env.get(S) if S else None
    obl(rep, f, lp, "R17.1", init == SX.Lin(0), "offset starts at 0 before the loop", f"`{S}` = {SX.render(init) if init is not None else '?'}",
        f"the offset `{S}` is `{SX.render(init) if init is not None else 'undefined'}` when the loop starts: slices do not start at column 0")
    # (b) stacking uses the same collection in the same order
    stacks = [x for x in calls_in(view) if dotted(x.func) == "np.column_stack"]
    if len(stacks) != 1:
        raise AnalysisError(f"{q}: expected exactly one np.column_stack call")
    arg = stacks[0].args[0]
    arr = None
    ok = False
    why = ""
    if isinstance(arg, ast.Name) and arg.id in pre.env and not (pre.env[arg.id] == SX.Opaque("[]")):
        # a list built before the loop by a comprehension
        d = [st for st in body if isinstance(st, ast.Assign) and unparse(st.targets[0]) == arg.id]
        if len(d) == 1 and isinstance(d[0].value, ast.ListComp):
            arg = d[0].value
    if isinstance(arg, ast.ListComp) and len(arg.generators) == 1 and not arg.generators[0].ifs and isinstance(arg.generators[0].target, ast.Name):
        g = arg.generators[0]
        ok = coll(g.iter) == it
        import copy as _copy
        elt = _copy.deepcopy(arg.elt)
        for n in ast.walk(elt):
            if isinstance(n, ast.Name) and n.id == g.target.id:
                n.id = tv
        arr = unparse(elt)
        why = f"column_stack([{unparse(arg.elt)} for {unparse(g.target)} in {unparse(g.iter)}]) vs loop over {it}"
    elif isinstance(arg, ast.Name):
        # list appended inside the same loop
        apps = [e for e in ex.effects if e[0] == "call" and e[1][0] == f"{arg.id}.append"]
        ok = len(apps) == 1 and apps[0][2] == () and pre.env.get(arg.id) == SX.Opaque("[]")
        arr = SX.render(apps[0][1][1][0]) if apps and apps[0][1][1] else None
        why = f"{arg.id} is filled once per iteration of the loop over {it}"
        # all growth of the list happens in this loop only
        grow = [x for x in calls_in(view, local=False) if unparse(x.func) in (f"{arg.id}.append", f"{arg.id}.insert", f"{arg.id}.extend")]
        ok = ok and len(grow) == 1
    obl(rep, f, stacks[0], "R17.1", ok, "the stacked blocks are produced by the same iteration, in the same order, as the slices",
        why, f"stacking order and slice order can differ: {why}")
    if arr is None:
        raise AnalysisError(f"{q}: stacked array expression not recognised")
    # what is stacked
    if stacked_kind == "training":
        okk = arr == f"{tv}.data"
        obl(rep, f, stacks[0], "R17.1", okk, f"training: the block stacked for a term is {tv}.data", arr)
    else:
        okk = arr == f"{tv}.eval_new_data({f.params[1]})"
        obl(rep, f, lp, "R17.1", okk,
            f"prediction: the block stacked for a term is the freshly evaluated {tv}.eval_new_data({f.params[1]})", arr,
            f"the block stacked at prediction is `{arr}`")
    # (e) width of the slice == columns of that very block
    okd = W is not None and SX.width_of(W, arr)
    obl(rep, f, lp, "R17.1", okd, f"slice width = columns of `{arr}` (1 for a 1-D block)", SX.render(W) if W is not None else "",
        f"slice width is `{SX.render(W) if W is not None else '?'}`, not `{arr}.shape[1] if {arr}.ndim == 2 else 1`: "
        "slice widths are not the widths of the stacked blocks")
    # (d) the offset advances by exactly that width
    end = ex.env.get(S) if S else None
    want = SX.add(val.lo, W) if (isinstance(val, SX.Slice) and W is not None) else None
    obl(rep, f, lp, "R17.1", end is not None and want is not None and end == want,
        "the offset advances by exactly the slice width on every iteration", f"`{S}` becomes {SX.render(end) if end is not None else '?'}",
        f"after one iteration the offset is `{SX.render(end) if end is not None else '?'}` but the slice ended at "
        f"`{SX.render(val.hi) if isinstance(val, SX.Slice) else '?'}`: slices overlap or leave gaps")
    jumps = [n for n in ast.walk(lp) if isinstance(n, (ast.Break, ast.Return))]
    obl(rep, f, lp, "R17.1", not jumps, "no break/return leaves the loop before every term has its slice")
    return f, lp, it, tv, arr, container


def r17_1(prog, rep):
    _site(prog, rep, "matrices.CommonEffectsMatrix.evaluate", "self", "training")
    _site(prog, rep, "matrices.GroupEffectsMatrix.evaluate", "self", "training")
    f, lp, it, tv, arr, nv = _site(prog, rep, "matrices.GroupEffectsMatrix.evaluate_new_data", None, "prediction")
    # the new instance is a fresh object of the same class over the same terms; it gets its own slices dict
    ni = [s for s in walk_local(f.node) if isinstance(s, ast.Assign) and unparse(s.targets[0]) == nv]
    ok = len(ni) == 1 and unparse(ni[0].value) in ("self.__class__(self.terms.values())", "type(self)(self.terms.values())",
                                                      "GroupEffectsMatrix(self.terms.values())")
    obl(rep, f, ni[0] if ni else f.node, "R17.1", ok, "the new matrix is a fresh instance over the same terms (own slices dict from __init__)")
    init = prog.fn("matrices.GroupEffectsMatrix.__init__")
    sl = [s for s in walk_local(init.node) if isinstance(s, ast.Assign) and is_self_attr(s.targets[0], "slices")]
    obl(rep, init, sl[0] if sl else init.node, "R17.1", len(sl) == 1 and unparse(sl[0].value) == "{}",
        "GroupEffectsMatrix.__init__ creates an empty slices dict per instance")
    for cname in ("CommonEffectsMatrix", "GroupEffectsMatrix", "ResponseMatrix", "DesignMatrices"):
        cls = prog.cls(f"matrices.{cname}")
        mut = [a for a, v in cls.class_attrs.items() if isinstance(v, (ast.Dict, ast.List, ast.Set)) or (isinstance(v, ast.Call) and dotted(v.func) in ("dict", "list", "set"))]
        rep.check(not mut, "R17.1", cls.where, cls.qual, f"{cname} has no class-level mutable attribute (slices/terms are per instance)", "",
                  f"class-level mutable attribute(s) {mut}: every {cname} instance shares them, a second design overwrites the slices of the first")
    ci = prog.fn("matrices.CommonEffectsMatrix.__init__")
    sl2 = [s for s in walk_local(ci.node) if isinstance(s, ast.Assign) and is_self_attr(s.targets[0], "slices")]
    obl(rep, ci, sl2[0] if sl2 else ci.node, "R17.1", len(sl2) == 1 and unparse(sl2[0].value) == "{}",
        "CommonEffectsMatrix.__init__ creates an empty slices dict per instance", "", "CommonEffectsMatrix.slices is not created per instance in __init__")
    aliased = [s for s in walk_local(f.node) if isinstance(s, ast.Assign) and unparse(s.targets[0]) == f"{nv}.slices"]
    obl(rep, f, aliased[0] if aliased else f.node, "R17.1", not aliased,
        "the group matrix never aliases the training slices (widths may change with new groups)", "",
        "new_instance.slices is re-bound: stores would corrupt or bypass the rebuilt slices")
    dms = [s for s in walk_local(f.node) if isinstance(s, ast.Assign) and unparse(s.targets[0]) == f"{nv}.design_matrix"]
    obl(rep, f, dms[0] if dms else f.node, "R17.1", len(dms) == 1 and dotted(getattr(dms[0].value, "func", None)) == "np.column_stack",
        "new_instance.design_matrix is the stacked result")


def r17_2(prog, rep):
    for q, stack_q in (("matrices.CommonEffectsMatrix.as_dataframe", "matrices.CommonEffectsMatrix.evaluate"),):
        f = prog.fn(q)
        lcs = [n for n in ast.walk(f.node) if isinstance(n, ast.ListComp)]
        ok = len(lcs) == 1 and unparse(lcs[0].generators[0].iter) == "self.terms.values()" and not lcs[0].generators[0].ifs \
            and unparse(lcs[0].elt) == f"{unparse(lcs[0].generators[0].target)}.labels"
        obl(rep, f, lcs[0] if lcs else f.node, "R17.2", ok, "column labels are collected over self.terms.values() in stacking order")
        dfs = [x for x in calls_in(f.node) if dotted(x.func) == "pd.DataFrame"]
        ok = len(dfs) == 1 and unparse(dfs[0].args[0]) == "self.design_matrix"
        cols = None
        if ok:
            cols = [k.value for k in dfs[0].keywords if k.arg == "columns"]
            ok = len(cols) == 1
        obl(rep, f, dfs[0] if dfs else f.node, "R17.2", ok, "the data frame view wraps self.design_matrix itself with flattened labels",
            unparse(cols[0]) if cols else "")
        if cols:
            v = cols[0]
            src = unparse(v)
            name = lcs[0] and [s for s in walk_local(f.node) if isinstance(s, ast.Assign) and s.value is lcs[0]]
            var = unparse(name[0].targets[0]) if name else None
            ok = src in (f"list(flatten_list({var}))", f"flatten_list({var})")
            obl(rep, f, dfs[0], "R17.2", ok, "labels are flattened in order (no sorting, no de-duplication)", src,
                f"columns={src}: label order can differ from column order")
    # the frame that is returned IS that wrapper: no conversion of its values afterwards (astype per column, rounding, re-indexing):
    # the data-frame view shows the numbers of design_matrix
    for q in ("matrices.CommonEffectsMatrix.as_dataframe", "matrices.ResponseMatrix.as_dataframe"):
        f = prog.fn(q)
        dfs_ = [x for x in calls_in(f.node) if dotted(x.func) == "pd.DataFrame"]
        rets_ = [r_ for r_ in walk_local(f.node) if isinstance(r_, ast.Return)]
        ok = len(dfs_) == 1 and len(rets_) == 1 and rets_[0].value is not None
        shown = unparse(rets_[0].value) if rets_ and rets_[0].value is not None else ""
        if ok:
            v = rets_[0].value
            hops = 0
            while isinstance(v, ast.Name) and hops < 3:
                ds_ = [s_ for s_ in walk_local(f.node) if isinstance(s_, ast.Assign) and len(s_.targets) == 1 and unparse(s_.targets[0]) == v.id]
                loads_ = [n for n in ast.walk(f.node) if isinstance(n, ast.Name) and n.id == v.id and isinstance(n.ctx, ast.Load)]
                if len(ds_) != 1 or len(loads_) != 1:
                    break
                v = ds_[0].value
                hops += 1
            ok = v is dfs_[0]
        obl(rep, f, rets_[0] if rets_ else f.node, "R17.2", ok, "as_dataframe returns the pd.DataFrame wrapper of design_matrix itself (values not converted afterwards)", "",
            f"as_dataframe returns `{shown}`: the frame is post-processed, its numbers can differ from design_matrix")
    f = prog.fn("matrices.ResponseMatrix.as_dataframe")
    dfs = [x for x in calls_in(f.node) if dotted(x.func) == "pd.DataFrame"]
    ok = len(dfs) == 1 and unparse(dfs[0].args[0]) == "self.design_matrix" and \
        [unparse(k.value) for k in dfs[0].keywords if k.arg == "columns"] == ["self.term.term.labels"]
    obl(rep, f, dfs[0] if dfs else f.node, "R17.2", ok, "response data frame: design_matrix with the response term's own labels")
    # the terms dict is built in the order of the list handed in, keyed by name
    for cq in ("matrices.CommonEffectsMatrix.__init__", "matrices.GroupEffectsMatrix.__init__"):
        f = prog.fn(cq)
        st = [s for s in walk_local(f.node) if isinstance(s, ast.Assign) and is_self_attr(s.targets[0], "terms")]
        ok = len(st) == 1 and isinstance(st[0].value, ast.DictComp) and unparse(st[0].value.key) == "term.name" \
            and unparse(st[0].value.value) == "term" and unparse(st[0].value.generators[0].iter) == f.params[1] \
            and not st[0].value.generators[0].ifs
        obl(rep, f, st[0] if st else f.node, "R17.2", ok, "terms dict keeps the model's term order, keyed by term name")


def r17_2b(prog, rep):
    """column labels are unique only if the labels of a factor's columns are an injective image of its levels: the
    encodings label their columns with str(level), level by level (C04's R4.2 label obligations, reported as R17.2)"""
    from . import C04
    sub = rep.sub()
    C04.r4_2(prog, sub)
    for it in sub.items:
        if "label" in it["construct"].lower():
            it = dict(it)
            it["rule"] = "R17.2"
            rep.items.append(it)
            rep.counts["R17.2"] = rep.counts.get("R17.2", 0) + 1


def r17_3(prog, rep):
    for cname in ("ResponseMatrix", "CommonEffectsMatrix", "GroupEffectsMatrix"):
        f = prog.fn(f"matrices.{cname}.__array__")
        rets = [n for n in walk_local(f.node) if isinstance(n, ast.Return)]
        obl(rep, f, f.node, "R17.3", len(rets) == 1 and unparse(rets[0].value) == "self.design_matrix",
            f"np.array({cname}) is the raw design_matrix", unparse(rets[0].value) if rets else "",
            f"{cname}.__array__ returns `{unparse(rets[0].value) if rets else None}`: numpy conversion and the raw attribute disagree")
    for cname in ("CommonEffectsMatrix", "GroupEffectsMatrix"):
        f = prog.fn(f"matrices.{cname}.__getitem__")
        key = f.params[1]
        c = cfg_of(f)
        rets = [n for n in walk_local(f.node) if isinstance(n, ast.Return)]
        ok = len(rets) == 1 and unparse(rets[0].value) == f"self.design_matrix[:, self.slices[{key}]]"
        obl(rep, f, rets[0] if rets else f.node, "R17.3", ok, f"{cname}[name] is design_matrix[:, slices[name]]",
            "", f"{cname}.__getitem__ returns `{unparse(rets[0].value) if rets else None}`")
        guards = [i for i in walk_local(f.node) if isinstance(i, ast.If) and unparse(i.test) == f"{key} not in self.slices" and block_raises(i.body)]
        ok = len(guards) == 1 and bool(rets) and c.dominates(c.node_of(guards[0]), c.node_of(rets[0]))
        obl(rep, f, guards[0] if guards else f.node, "R17.3", ok, "an unknown term name meets a raising guard before the subscript",
            "", "unknown term names are not refused before indexing")
    f = prog.fn("matrices.DesignMatrices.__getitem__")
    rets = [n for n in walk_local(f.node) if isinstance(n, ast.Return)]
    ok = len(rets) == 1 and unparse(rets[0].value) == f"(self.response, self.common, self.group)[{f.params[1]}]"
    obl(rep, f, f.node, "R17.3", ok, "tuple unpacking yields (response, common, group) in that order",
        unparse(rets[0].value) if rets else "", f"DesignMatrices.__getitem__ returns `{unparse(rets[0].value) if rets else None}`")
    # design_matrix is written only by evaluate / evaluate_new_data / __init__
    for cname in ("ResponseMatrix", "CommonEffectsMatrix", "GroupEffectsMatrix"):
        cls = prog.cls(f"matrices.{cname}")
        for mn, m in cls.methods.items():
            for s in walk_local(m.node):
                tg = s.targets if isinstance(s, ast.Assign) else [s.target] if isinstance(s, ast.AugAssign) else []
                for t in tg:
                    if isinstance(t, ast.Attribute) and t.attr in ("design_matrix", "slices"):
                        obl(rep, m, s, "R17.3", mn in ("__init__", "evaluate", "evaluate_new_data"),
                            f"{cname}.{t.attr} is (re)bound only by __init__/evaluate/evaluate_new_data ({mn})", nontrivial=False)


def r17_4(prog, rep):
    f = prog.fn("matrices.CommonEffectsMatrix.evaluate_new_data")
    ni = [s for s in walk_local(f.node) if isinstance(s, ast.Assign) and unparse(s.targets[0]) == "new_instance"]
    ok = len(ni) == 1 and unparse(ni[0].value) in ("self.__class__(self.terms.values())", "type(self)(self.terms.values())")
    obl(rep, f, ni[0] if ni else f.node, "R17.4", ok, "new common matrix: fresh instance over the same terms in the same order")
    st = [x for x in calls_in(f.node) if dotted(x.func) == "np.column_stack"]
    ok = len(st) == 1 and isinstance(st[0].args[0], ast.ListComp)
    if ok:
        lc = st[0].args[0]
        g = lc.generators[0]
        ok = unparse(g.iter) == "self.terms.values()" and not g.ifs and unparse(lc.elt) == f"{unparse(g.target)}.eval_new_data(data)"
    obl(rep, f, st[0] if st else f.node, "R17.4", ok, "blocks are re-evaluated over self.terms.values() in training order",
        "", "prediction stacks the common terms in another order / from another source than the training slices describe")
    sl = [s for s in walk_local(f.node) if isinstance(s, ast.Assign) and unparse(s.targets[0]) == "new_instance.slices"]
    ok = len(sl) == 1 and unparse(sl[0].value) in ("self.slices", "dict(self.slices)", "self.slices.copy()")
    obl(rep, f, sl[0] if sl else f.node, "R17.4", ok, "the training slices are re-used (sound because common terms cannot change width)",
        "premises: remembered contrast matrix (R6.3), frozen transform parameters (R6.1), unseen levels zero rows (R10.3), "
        "one holder per component (R6.4) - decided by the C06 and C10 checks")
    writes = [s for s in walk_local(f.node) if isinstance(s, ast.Assign) and isinstance(s.targets[0], ast.Subscript)
              and "slices" in unparse(s.targets[0].value)]
    obl(rep, f, writes[0] if writes else f.node, "R17.4", not writes, "no store into the shared slices dict at prediction")
    guard = [i for i in walk_local(f.node) if isinstance(i, ast.If) and unparse(i.test) == "not self.evaluated" and block_raises(i.body)]
    obl(rep, f, guard[0] if guard else f.node, "R17.4", len(guard) == 1, "prediction before training is refused", nontrivial=False)


def r17_5(prog, rep):
    names = [f"matrices.{c}.{m}" for c in ("DesignMatrices", "ResponseMatrix", "CommonEffectsMatrix", "GroupEffectsMatrix")
             for m in ("__str__", "__repr__")]
    names += ["matrices.spacify", "matrices.multilinify", "matrices.wrapify", "matrices.slice_to_column",
              "matrices.get_slice_width", "matrices.glue_and_align"]
    for q in names:
        f = prog.fn(q)
        bad = [n for n in ast.walk(f.node) if isinstance(n, (ast.Assert, ast.Raise))]
        obl(rep, f, bad[0] if bad else f.node, "R17.5", not bad, f"{q.split('.', 1)[1]} contains no assert / raise",
            "printing cannot fail by design", f"`{short(bad[0]) if bad else ''}` can make printing a valid object fail")
    for cname in ("ResponseMatrix", "CommonEffectsMatrix", "GroupEffectsMatrix"):
        f = prog.fn(f"matrices.{cname}.__str__")
        shapes = [fv.value for fv in ast.walk(f.node) if isinstance(fv, ast.FormattedValue)
                  and isinstance(fv.value, ast.Attribute) and fv.value.attr == "shape"]
        ok = bool(shapes) and all(unparse(n.value) == "self.design_matrix" for n in shapes)
        obl(rep, f, f.node, "R17.5", ok, f"{cname}.__str__ prints the shape of the live design_matrix")
    f = prog.fn("matrices.DesignMatrices.__str__")
    shapes = sorted(unparse(n.value) for n in ast.walk(f.node) if isinstance(n, ast.Attribute) and n.attr == "shape")
    want = ["self.common.design_matrix", "self.group.design_matrix", "self.response.design_matrix"]
    oks = shapes == want
    if not oks and shapes and all(sh_.endswith(".design_matrix") for sh_ in shapes):
        # one `<member>.design_matrix.shape` where member ranges over the three members listed in a table / loop
        members = {unparse(n) for n in ast.walk(f.node) if isinstance(n, ast.Attribute) and isinstance(n.value, ast.Name) and n.value.id == "self"
                   and n.attr in ("response", "common", "group")}
        bases = {sh_[: -len(".design_matrix")] for sh_ in shapes}
        loopvars = {n.id for c_ in ast.walk(f.node) if isinstance(c_, (ast.comprehension, ast.For)) for n in ast.walk(c_.target) if isinstance(n, ast.Name)}
        oks = members == {"self.response", "self.common", "self.group"} and bases <= loopvars
    obl(rep, f, f.node, "R17.5", oks,
        "DesignMatrices.__str__ prints the shapes of the three live matrices", str(shapes))
    # the extra-group marker of the group matrix: widths compared against groups x effect columns
    f = prog.fn("matrices.GroupEffectsMatrix.__str__")
    defs = {unparse(s.targets[0]): unparse(s.value) for s in ast.walk(f.node) if isinstance(s, ast.Assign) and len(s.targets) == 1}

    def test_text(i):
        t_ = unparse(i.test)
        return defs.get(t_, t_) if isinstance(i.test, ast.Name) else t_   # a named sub-condition is read through

    cmp_ = [i for i in ast.walk(f.node) if isinstance(i, ast.If) and "term_slice_width" in test_text(i)]
    ok = len(cmp_) == 1
    if ok:
        t = test_text(cmp_[0])
        rhs = t.split("!=")[-1].strip() if "!=" in t else ""
        factors = [x.strip() for x in rhs.split("*")]
        per_group = [x for x in factors if x != "len(groups)"]
        ok = "len(groups)" in factors and len(per_group) == 1 and \
            defs.get(per_group[0], "") == "term.expr.data.shape[1] if term.expr.data.ndim == 2 else 1"
    obl(rep, f, cmp_[0] if cmp_ else f.node, "R17.5", ok,
        "extra-group detection compares the width with len(groups) x (columns of the effect)",
        "", "the width test does not use the effect's real column count (multi-column numeric effects would be misreported)")


def r17_6(prog, rep):
    f = prog.fn("matrices.DesignMatrices.__init__")
    dparam = f.params[2]
    rebinds = [s for s in walk_local(f.node) if isinstance(s, ast.Assign) and any(unparse(t) == dparam for t in s.targets)]
    obl(rep, f, rebinds[0] if rebinds else f.node, "R17.6", not rebinds, "DesignMatrices.__init__ never re-binds its data frame")
    want = {"self.model.eval": 0, "self.response.evaluate": 0, "self.common.evaluate": 0, "self.group.evaluate": 0}
    for x in calls_in(f.node):
        n = unparse(x.func)
        if n in want:
            ok = len(x.args) >= 1 and unparse(x.args[0]) == dparam
            want[n] += 1
            obl(rep, f, x, "R17.6", ok, f"{n} receives the one frame `{dparam}` (rows of response, common and group stay aligned)",
                "", f"{n} is evaluated on `{unparse(x.args[0]) if x.args else None}`, not on the frame the other matrices use")
    missing = [k for k, v in want.items() if v != 1]
    if missing:
        raise AnalysisError(f"DesignMatrices.__init__: evaluation call(s) {missing} not found exactly once")
    # construction order: model.eval dominates the three matrix evaluations
    c = cfg_of(f)
    ev = [x for x in calls_in(f.node) if unparse(x.func) == "self.model.eval"][0]
    for x in calls_in(f.node):
        if unparse(x.func) in ("self.response.evaluate", "self.common.evaluate", "self.group.evaluate"):
            obl(rep, f, x, "R17.6", c.dominates(c.node_of(ev), c.node_of(x)), f"model.eval dominates {unparse(x.func)}", nontrivial=False)


from ..core import guard_rules  # noqa: E402

guard_rules(globals())

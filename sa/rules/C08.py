"""C08 - row equivariance and irrelevant frame structure: order- and label-independence clauses (R8.1 .. R8.5)."""
import ast

from ..core import (
    AnalysisError,
    obl,
    unparse,
    short,
    dotted,
    is_self_attr,
    walk_local,
    calls_in,
)
from ..cfg import cfg_of
from .. import dataflow as DF
from .. import predpath
from . import C04

EXPLANATION = (
    "Equivariance is a relation between two runs; its causes of failure are enumerable code shapes. R8.1 canonical "
    "level order at every site that defines levels or picks a default (first-seen order must pass through "
    "sorted/np.unique/np.sort before it reaches levels, categories or an index [0]). R8.2 permutation-invariant "
    "fitting: in stateful transforms, registry functions and the training-time evaluation code, no positional access "
    "to a row-ordered value (x[0], .iloc, .head/.tail, row slices) and no order-dependent operation (cumsum, diff, "
    "shift, argsort, rank, rolling, np.random) - values reach fitted parameters only through order-invariant "
    "reductions. R8.3 columns are accessed by name only (data[<name>]; no .iloc/.iat/.take, no data.columns[j]); "
    "values enter matrices through .values/np.asarray. R8.4 irrelevant columns are cut before anything else and "
    "index labels never become values or sizes (.index only under len()). R8.5 the row filter is a boolean mask "
    "computed from the very frame it filters."
    ' R8.4 also: no evaluation code re-labels the index of a value (reset_index/set_index/reindex/sort_index/set_axis, store to .index, index= of a new pandas object).'
)
ASSUMPTIONS = [
    "numpy/pandas primitives are themselves permutation-equivariant / order-invariant as catalogued in sa/dataflow.py",
    "floating-point summation order under permutation is not considered",
]

POS_ATTRS = {"iloc", "iat", "take", "head", "tail", "first", "last", "nth"}


def run(prog, rep, tier):
    pp = predpath.get(prog)
    r8_1(prog, rep)
    r8_2(prog, rep, pp)
    r8_3(prog, rep, pp)
    r8_4(prog, rep)
    r8_5(prog, rep)
    rep.floor("R8.1", 5)
    rep.floor("R8.2", 15)
    rep.floor("R8.3", 6)
    rep.floor("R8.4", 4)


def r8_1(prog, rep):
    sub = rep.sub()
    C04.r4_3(prog, sub)
    for it in sub.items:
        it = dict(it)
        it["rule"] = "R8.1"
        rep.items.append(it)
        rep.counts["R8.1"] = rep.counts.get("R8.1", 0) + 1
    f = prog.fn("transforms.binary")
    x = f.params[0]
    defs = {unparse(s.targets[0]): s.value for s in walk_local(f.node) if isinstance(s, ast.Assign) and len(s.targets) == 1}
    idx0 = [n for n in ast.walk(f.node) if isinstance(n, ast.Subscript) and unparse(n.slice) in ("0", "-1") and isinstance(n.value, ast.Name)]
    ok = len(idx0) == 1 and idx0[0].value.id in defs and C04.order_kind(defs[idx0[0].value.id]) == "canonical"
    obl(rep, f, idx0[0] if idx0 else f.node, "R8.1", ok, "binary's default success is picked by position from a canonically ordered list",
        unparse(defs.get(idx0[0].value.id)) if idx0 and idx0[0].value.id in defs else "",
        "binary's default success level depends on the order of the rows (first-seen order)")
    # any first-seen source in the package must pass through a canonicaliser before an index / levels
    for q, fn in sorted(prog.functions.items()):
        for n in ast.walk(fn.node):
            if isinstance(n, ast.Subscript) and isinstance(n.slice, ast.Constant) and isinstance(n.slice.value, int):
                v = n.value
                first_seen = (isinstance(v, ast.Call) and ((isinstance(v.func, ast.Attribute) and v.func.attr in DF.FIRST_SEEN_METHODS)
                                                           or dotted(v.func) in DF.FIRST_SEEN_FUNCS and dotted(v.func) != "list"))
                if first_seen:
                    obl(rep, fn, n, "R8.1", False, f"`{short(n)}`: positional pick from a first-seen ordered collection", "",
                        "the picked element depends on row order")


def _row_ordered(f, sources):
    """names holding row-ordered data: tainted, and not (only) the result of an order-invariant reduction"""
    tainted = DF.taint_closure(f, sources)
    ordered = set(sources)
    changed = True
    while changed:
        changed = False
        for root in DF.function_nodes(f):
            for n in ast.walk(root):
                if isinstance(n, ast.Assign) and len(n.targets) == 1 and isinstance(n.targets[0], ast.Name):
                    name = n.targets[0].id
                    if name in ordered:
                        continue
                    if _expr_row_ordered(n.value, ordered):
                        ordered.add(name)
                        changed = True
                elif isinstance(n, (ast.For, ast.comprehension)):
                    pass
    return ordered & (tainted | set(sources))


def _expr_row_ordered(e, ordered):
    """a row-ordered name occurs outside the arguments of every reduction"""
    if isinstance(e, ast.Name):
        return e.id in ordered
    if isinstance(e, ast.Call):
        d = dotted(e.func)
        if d in DF.AGG_FUNCS and not DF._axis1(e):
            return False
        if isinstance(e.func, ast.Attribute) and e.func.attr in DF.AGG_METHODS and not DF._axis1(e) and e.func.attr not in DF.POSITIONAL_METHODS:
            return False
        if d in ("len", "np.percentile", "np.quantile", "np.linspace", "np.zeros", "np.empty", "np.ones", "range"):
            return False
        parts = list(e.args) + [k.value for k in e.keywords]
        if isinstance(e.func, ast.Attribute):
            parts.append(e.func.value)
        return any(_expr_row_ordered(p, ordered) for p in parts)
    if isinstance(e, ast.Attribute):
        if e.attr in ("shape", "ndim", "size", "dtype", "index", "columns"):
            return False
        return _expr_row_ordered(e.value, ordered)
    return any(_expr_row_ordered(c, ordered) for c in ast.iter_child_nodes(e) if isinstance(c, ast.expr))


def _positional_row_access(n, ordered):
    """Subscript whose ROW position is an int constant or a proper slice, on a row-ordered base"""
    if not isinstance(n, ast.Subscript):
        return False
    base = n.value
    if isinstance(base, ast.Attribute) and base.attr in POS_ATTRS:
        return _expr_row_ordered(base.value, ordered)
    if not _expr_row_ordered(base, ordered):
        return False
    s = n.slice
    first = s.elts[0] if isinstance(s, ast.Tuple) and s.elts else s
    if isinstance(first, ast.Constant) and isinstance(first.value, int):
        return True
    if isinstance(first, ast.UnaryOp) and isinstance(first.operand, ast.Constant) and isinstance(first.operand.value, int):
        return True
    if isinstance(first, ast.Slice) and (first.lower is not None or first.upper is not None or first.step is not None):
        return True
    return False


def r8_2(prog, rep, pp):
    scope = set(pp.reg_funcs)
    for q in pp.stateful | pp.transient:
        cls = prog.classes[q]
        if "Encoding" in cls.bases or cls.name == "Encoding":
            continue  # encodings receive level lists (canonical order is R8.1's business), not rows
        scope |= {m.qual for m in cls.methods.values()} | {m.qual for m in cls.setters.values()}
    for q in ("terms.variable.Variable.set_type", "terms.variable.Variable.eval_numeric", "terms.variable.Variable.eval_categoric",
              "terms.variable.Variable.eval_new_data", "terms.variable.Variable.eval_new_data_numeric", "terms.variable.Variable.eval_new_data_categoric",
              "terms.call.Call.set_type", "terms.call.Call.eval_numeric", "terms.call.Call.eval_categoric", "terms.call.Call.eval_categorical_box",
              "terms.call.Call.eval_new_data_categoric", "terms.call.Call.eval_new_data_numeric", "terms.call.Call.eval_new_data_offset",
              "terms.call.Call.eval_new_data_proportion", "terms.terms.GroupSpecificTerm.set_data", "terms.terms.GroupSpecificTerm.eval_new_data",
              "terms.terms.Term.set_data", "terms.terms.Term.eval_new_data", "utils.get_interaction_matrix",
              "terms.call_resolver.LazyVariable.eval", "terms.call_resolver.LazyCall.eval", "terms.call_resolver.LazyOperator.eval"):
        scope.add(prog.fn(q).qual)
    scope = {q for q in scope if prog.functions[q].parent is None}
    for q in sorted(scope):
        f = prog.functions[q]
        a = f.node.args
        sources = {x.arg for x in a.posonlyargs + a.args + a.kwonlyargs} - predpath.NON_DATA_PARAMS
        if not sources:
            continue
        ordered = _row_ordered(f, sources)
        bad = []
        for root in DF.function_nodes(f):
            for n in ast.walk(root):
                if _positional_row_access(n, ordered):
                    bad.append((n, "positional access to a row"))
                if isinstance(n, ast.Call) and isinstance(n.func, ast.Attribute) and n.func.attr in DF.POSITIONAL_METHODS \
                        and _expr_row_ordered(n.func.value, ordered):
                    bad.append((n, f"order-dependent operation .{n.func.attr}()"))
                if isinstance(n, ast.Call) and (dotted(n.func) or "") in ("np.cumsum", "np.diff", "np.argsort", "np.cumprod", "np.roll", "np.flip", "np.argmax", "np.argmin") \
                        and n.args and _expr_row_ordered(n.args[0], ordered):
                    bad.append((n, f"order-dependent operation {dotted(n.func)}"))
                if isinstance(n, ast.Call) and (dotted(n.func) or "").startswith(("np.random", "random.")):
                    bad.append((n, "random source"))
                if isinstance(n, ast.Call) and dotted(n.func) in ("next", "iter") and n.args and _expr_row_ordered(n.args[0], ordered):
                    bad.append((n, "takes the first row by iteration"))
        obl(rep, f, bad[0][0] if bad else f.node, "R8.2", not bad,
            f"{q.split('.', 1)[1]}: data reaches results only through element-wise operations and order-invariant reductions",
            f"row-ordered names: {sorted(ordered)}",
            "; ".join(f"`{short(n)}`: {why}" for n, why in bad) + " - the result depends on the order of the rows")


def r8_3(prog, rep, pp):
    # positional column / row accessors anywhere in the package
    hits = []
    for q, f in sorted(prog.functions.items()):
        for n in ast.walk(f.node):
            if isinstance(n, ast.Attribute) and n.attr in ("iloc", "iat", "take", "ix"):
                hits.append((f, n, f".{n.attr}"))
            if isinstance(n, ast.Subscript) and isinstance(n.value, ast.Attribute) and n.value.attr in ("columns", "index") \
                    and not isinstance(n.ctx, ast.Store):
                hits.append((f, n, f"positional pick from .{n.value.attr}"))
    for f, n, what in hits:
        obl(rep, f, n, "R8.3", False, f"`{short(n)}` ({what})", "", "position-based access to frame structure: results depend on column order / row position")
    anchor = prog.fn("matrices.design_matrices")
    obl(rep, anchor, anchor.node, "R8.3", not hits, "no positional frame accessor (.iloc/.iat/.take, .columns[j], .index[j]) anywhere in the package",
        f"{len(prog.functions)} functions scanned")
    # every subscript of a frame parameter is by name
    n_sub = 0
    for q in ("terms.variable.Variable.set_type", "terms.variable.Variable.eval_new_data", "terms.call_resolver.LazyVariable.eval",
              "terms.call.Call.eval_new_data_proportion"):
        f = prog.fn(q)
        dm = f.params[1]
        subs = [n for n in ast.walk(f.node) if isinstance(n, ast.Subscript) and unparse(n.value) == dm]
        for s in subs:
            n_sub += 1
            ok = unparse(s.slice) in ("self.name", "name")
            obl(rep, f, s, "R8.3", ok, f"`{unparse(s)}`: the column is looked up by its name", "", f"`{unparse(s)}` is not a lookup by name")
    if n_sub < 4 and not hits:
        raise AnalysisError("R8.3: fewer than 4 by-name column lookups found")
    # iteration over data.columns must not feed output
    for q, f in sorted(prog.functions.items()):
        for n in ast.walk(f.node):
            if isinstance(n, (ast.For, ast.comprehension)) and isinstance(n.iter, ast.Attribute) and n.iter.attr == "columns":
                obl(rep, f, n.iter, "R8.3", False, f"iteration over `{unparse(n.iter)}`", "", "column order of the caller's frame reaches the result")
    dm = prog.fn("matrices.design_matrices")
    cols = [unparse(n) for n in ast.walk(dm.node) if isinstance(n, ast.Attribute) and n.attr == "columns"]
    uses = [unparse(x) for x in calls_in(dm.node) if "data.columns" in unparse(x)]
    obl(rep, dm, dm.node, "R8.3", all("set(data.columns)" in u for u in uses) and len(cols) == 1,
        "data.columns is used only as a set (membership), never by position or order", str(uses))
    # values enter matrices positionally (no Series arithmetic between objects of different frames)
    for q in ("terms.variable.Variable.eval_numeric", "terms.call.Call.eval_numeric"):
        f = prog.fn(q)
        ok = "x.values" in unparse(f.node)
        obl(rep, f, f.node, "R8.3", ok, "numeric data enters the matrix through .values (position based, no index alignment)", nontrivial=False)


def r8_4(prog, rep):
    from . import C09

    sub = rep.sub()
    C09.r9_2(prog, sub, prog.fn("matrices.design_matrices"))
    for it in sub.items:
        it = dict(it)
        it["rule"] = "R8.4"
        rep.items.append(it)
        rep.counts["R8.4"] = rep.counts.get("R8.4", 0) + 1
    # only names of variables (never literals) are counted as used columns
    sub2 = rep.sub()
    C09.r9_4(prog, sub2)
    for it in sub2.items:
        # the set of used columns must be exact in both directions: a column that is not mentioned must not be selected
        # (its missing values would drop rows), a mentioned one must not be forgotten
        if True:
            it = dict(it)
            it["rule"] = "R8.4"
            rep.items.append(it)
            rep.counts["R8.4"] = rep.counts.get("R8.4", 0) + 1
    # .index is read only under len(...)
    n = 0
    for q, f in sorted(prog.functions.items()):
        parents = {}
        for p in ast.walk(f.node):
            for ch in ast.iter_child_nodes(p):
                parents[id(ch)] = p
        for a in ast.walk(f.node):
            if isinstance(a, ast.Attribute) and a.attr == "index" and isinstance(a.ctx, ast.Load) and not isinstance(parents.get(id(a)), ast.Call):
                pass
            if isinstance(a, ast.Attribute) and a.attr == "index" and isinstance(a.ctx, ast.Load):
                par = parents.get(id(a))
                if isinstance(par, ast.Call) and par.func is a:
                    continue  # list.index(...) method call
                n += 1
                ok = isinstance(par, ast.Call) and dotted(par.func) == "len" and par.args and par.args[0] is a
                obl(rep, f, a, "R8.4", ok, f"`{unparse(a)}` is read only to take its length", "",
                    f"`{short(par) if par is not None else unparse(a)}`: index labels become values or sizes (non-default indexes change the result)")
    # the row count may equally be taken as frame.shape[0]: both idioms count towards the floor
    n_shape = sum(1 for f2 in prog.functions.values() if f2.parent is None for a in ast.walk(f2.node)
                  if isinstance(a, ast.Subscript) and isinstance(a.ctx, ast.Load) and unparse(a).endswith(".shape[0]"))
    n_shape = min(n_shape, 2)   # the idiom may replace len(frame.index) at some sites; at least one `.index` read must remain visible
    if n + n_shape < 3:
        raise AnalysisError("R8.4: fewer than 3 reads of `.index` / `.shape[0]` found (expected the row-count idiom len(frame.index))")
    # no value is re-labelled on the way: every pandas object of one evaluation keeps the labels of the frame it came from, so
    # label-aligned operations (Series arithmetic, two-argument ufuncs, user functions) combine the same rows
    RELABEL = ("reset_index", "set_index", "reindex", "reindex_like", "sort_index", "set_axis", "droplevel", "swaplevel")
    hits = []
    scanned = 0
    for q, f in sorted(prog.functions.items()):
        if f.parent is not None or q == "formulae.matrices.design_matrices":
            continue
        scanned += 1
        for x in ast.walk(f.node):
            if isinstance(x, ast.Call) and isinstance(x.func, ast.Attribute) and x.func.attr in RELABEL:
                hits.append((f, x, f".{x.func.attr}()"))
            if isinstance(x, ast.Attribute) and x.attr == "index" and isinstance(x.ctx, ast.Store):
                hits.append((f, x, "store to .index"))
            if isinstance(x, ast.Call) and (dotted(x.func) or "") in ("pd.Series", "pd.DataFrame") and any(k.arg == "index" for k in x.keywords):
                hits.append((f, x, "explicit index= of a new pandas object"))
    for f, x, what in hits:
        obl(rep, f, x, "R8.4", False, f"`{short(x, 70)}`", "",
            f"{what}: this value gets other index labels than the values evaluated next to it; wherever the two meet in a "
            "label-aligned operation, rows are combined by label, so a frame with a non-default index (permuted, filtered, relabelled) "
            "gives different numbers")
    anchor = prog.fn("terms.call_resolver.LazyOperator.eval")
    obl(rep, anchor, anchor.node, "R8.4", not hits, "no evaluation code re-labels the index of a value (reset_index / set_index / reindex / "
        "sort_index / .index = / index=)", f"{scanned} functions scanned")


def r8_5(prog, rep):
    dm = prog.fn("matrices.design_matrices")
    from . import C09
    try:
        D, leaves, filtered = C09.frames_summary(prog, dm)
    except AnalysisError as e:
        rep.defer(f"R8.5: {e}")
        D, leaves, filtered = None, [], set()
    dl = [x for x in leaves if x[0] == "drop"]
    flt = [x for x in dl if x[1] in filtered]
    obl(rep, dm, flt[0][3] if flt else dm.node, "R8.5", D is not None and bool(flt),
        "the row filter uses the mask computed from the very same frame it filters (same symbolic frame on both sides): boolean "
        "indexing is positional whatever the index labels",
        "", "the mask and the frame it filters are not the same frame / no positional filter found: rows are aligned by index labels")
    bad = [x for x in dl if x[1] not in filtered and x[1] != D]
    obl(rep, dm, (bad[0][3] if bad else (flt[0][3] if flt else dm.node)), "R8.5", D is not None and not bad,
        "rows are selected by the negated boolean mask (no label-based drop, no reset/sort of the index)", "",
        f"under 'drop' the design can receive {sorted({x[1] for x in bad})[:2]}")
    srt = [x for x in calls_in(dm.node, local=False) if isinstance(x.func, ast.Attribute) and x.func.attr in ("sort_values", "sort_index", "reset_index", "sample", "reindex")]
    obl(rep, dm, srt[0] if srt else dm.node, "R8.5", not srt, "design_matrices never sorts, samples or re-indexes the rows")


from ..core import guard_rules  # noqa: E402

guard_rules(globals())

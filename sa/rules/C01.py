"""C01 - Formula grammar: precedence, associativity, nothing silently ignored.

Rules R1.1 .. R1.11 of DESIGN.md, decided on the grammar extracted from
formulae/parser.py and the token table extracted from formulae/scanner.py.
"""
import ast

from ..core import (
    AnalysisError,
    obl,
    unparse,
    short,
    dotted,
    is_str_const,
    is_self_attr,
    walk_local,
    calls_in,
    block_raises,
    strip_docstring,
)
from ..cfg import cfg_of, RETURN, FALLOFF, RAISE
from .. import grammar as G
from ..scanmodel import extract_scan_token

EXPLANATION = (
    "Static analysis of the recursive-descent parser as a grammar. The methods of Parser are "
    "translated (fail-closed) into a structured IR; every path of every production is enumerated "
    "symbolically (loops unrolled twice) into a summary = ordered grammar events + returned symbolic "
    "tree. Rules: R1.1 precedence/associativity soundness against the documented table (keyed by "
    "lexeme through the extracted scanner table), R1.2 delimiter pairing, R1.3 AST fidelity (every "
    "consumed operator/sub-parse flows into the returned node in source order), R1.4 end-of-input "
    "check dominates every return of parse and the sentinel kinds agree, R1.5 cursor primitives' "
    "contracts and cursor ownership, R1.6 token table is an injective function covering the "
    "documented lexemes with a raising default, R1.7 skipped characters are whitespace only and the "
    "lexeme start is reset per token, R1.8 lexeme helpers emit exactly one token and refuse "
    "unterminated strings, R1.9 tilde-count guard and implicit-intercept insertion, R1.10 grouping "
    "transparency in both resolvers, R1.11 total visitors. Thorough tier adds a bounded comparison "
    "of the extracted grammar model with an independent Pratt parser on all token strings up to a "
    "length bound (model vs model; the repository is never executed)."
    " R1.12 the exponent of `**` is used or the formula is refused: the term-set interpretation of the `**` overloads (C02's R2.6) including the branch where the exponent is not a positive integer. R1.4 also demands that the caller's formula string reaches the scanner under its own parameter name, never re-bound."
)
ASSUMPTIONS = [
    "Python semantics of if/while/return/raise and of list concatenation/insert as modelled",
    "only explicit `raise` is exceptional flow; IndexError from an unterminated back-quote counts as rejection",
    "the documented precedence table is the one in the property statement (= < ~ < | < comparisons < + - < * / < : < ** < unary < call/atom)",
    "str.isdigit/isalpha/isalnum classify characters as documented by Python",
]

# documented precedence, keyed by lexeme (rename-robust: kinds are mapped through the scanner table)
PREC = {
    "=": 0,
    "~": 1,
    "|": 2,
    "==": 3, "!=": 3, "<=": 3, "<": 3, ">=": 3, ">": 3,
    "+": 4, "-": 4,
    "*": 5, "/": 5,
    ":": 6,
    "**": 7,
}
UNARY_LEXEMES = {"+", "-"}
ASSOCIATIVE_LEVELS = {6}  # ':' - a right-nested chain denotes the same term
OPENERS = {"(": ")", "[": "]", "{": "}"}
PUNCT_LEXEMES = {"(", ")", "[", "]", "{", "}", ",", "="}
WHITESPACE = {" ", "\n", "\t", "\r", "\f", "\v"}
FIELD_ORDER = {
    "Binary": ["left", "operator", "right"],
    "Unary": ["operator", "right"],
    "Call": ["callee", "args"],
    "Assign": ["name", "value"],
    "Variable": ["name", "level"],
    "Grouping": ["expression"],
    "QuotedName": ["expression"],
    "Literal": ["value", "lexeme"],
}


def ordered_leaves(ex, val):
    """Leaves of a symbolic tree in the order of the *fields* of the node classes."""
    t = val[0]
    if t in ("hole", "tokv"):
        return [("ev", val[1])]
    if t == "param":
        return [("param", val[1])]
    if t == "node":
        info = ex.expr_classes[val[1]]
        order = FIELD_ORDER.get(val[1])
        if order is None:
            raise AnalysisError(f"expr class {val[1]} has no canonical field order in the checker")
        byfield = {}
        for p, a in val[2].items():
            byfield[info["fields"].get(p, p)] = a
        for f in byfield:
            if f not in order:
                raise AnalysisError(f"expr class {val[1]} has unknown field {f}")
        out = []
        for f in order:
            if f in byfield:
                out.extend(ordered_leaves(ex, byfield[f]))
        return out
    if t == "attr":
        return ordered_leaves(ex, val[1])
    if t == "list":
        out = []
        for e in val[1]:
            out.extend(ordered_leaves(ex, e))
        return out
    return []


class Ctx:
    pass


def run(prog, rep, tier):
    ex = G.extract(prog)
    S = G.summaries(ex)
    sm, scan_fn = extract_scan_token(prog)
    kind2lex = {}
    for lex, (kind, line) in sm.table.items():
        kind2lex.setdefault(kind, []).append(lex)
    ctx = Ctx()
    ctx.prog, ctx.ex, ctx.S, ctx.sm, ctx.kind2lex = prog, ex, S, sm, kind2lex
    rep.extra["grammar_productions"] = sorted(ex.productions)
    rep.extra["grammar_paths"] = {k: len(v) for k, v in S.items()}
    rep.extra["token_table"] = {lex: k for lex, (k, _) in sorted(sm.table.items())}

    r1_1(ctx, rep)
    r1_2(ctx, rep)
    r1_3(ctx, rep)
    r1_4(ctx, rep)
    r1_5(ctx, rep)
    r1_6(ctx, rep)
    r1_7(ctx, rep)
    r1_8(ctx, rep)
    r1_9(ctx, rep)
    r1_10(ctx, rep)
    r1_11(ctx, rep)
    r1_12(ctx, rep)
    if tier == "thorough":
        from ..models import grammar_bounded

        grammar_bounded.run(ctx, rep)

    rep.floor("R1.1", 24)
    rep.floor("R1.2", 4)
    rep.floor("R1.3", 30)
    rep.floor("R1.4", 3)
    rep.floor("R1.6", 25)
    rep.floor("R1.8", 5)
    rep.floor("R1.10", 2)
    rep.floor("R1.11", 10)
    rep.floor("R1.12", 2)


# ------------------------------------------------------------------------------------------
def lex_of(ctx, kind):
    lx = ctx.kind2lex.get(kind)
    if not lx:
        return None
    return lx[0] if len(lx) == 1 else None


def prec_of_kinds(ctx, kinds):
    """set of precedence levels of a set of operator token kinds (None for unknown)."""
    out = set()
    for k in kinds:
        lx = lex_of(ctx, k)
        out.add(PREC.get(lx) if lx is not None else None)
    return out


def compute_top(ctx):
    """Top(X): operators that can be the root of an un-delimited expression derived from X."""
    top = {name: set() for name in ctx.ex.productions}

    def top_of_value(val):
        t = val[0]
        if t == "hole":
            return set(top[val[2]])
        if t == "node":
            if val[1] == "Binary":
                op = val[2].get("operator")
                if op and op[0] == "tokv":
                    return {("bin", k) for k in op[2]}
                return {("bin", "?")}
            if val[1] == "Unary":
                op = val[2].get("operator")
                if op and op[0] == "tokv":
                    return {("un", k) for k in op[2]}
                return {("un", "?")}
            if val[1] == "Assign":
                return {("assign", "EQUAL")}
            return set()
        return set()

    changed = True
    while changed:
        changed = False
        for name, res in ctx.S.items():
            for path, status, val in res:
                if status != "return":
                    continue
                new = top_of_value(val)
                if not new <= top[name]:
                    top[name] |= new
                    changed = True
    return top, top_of_value


def r1_1(ctx, rep):
    top, top_of_value = compute_top(ctx)
    ctx.top = top
    fnq = lambda name: ctx.ex.productions[name]["fn"]
    seen = set()
    rep.extra["top_sets"] = {k: sorted(f"{a}:{b}" for a, b in v) for k, v in top.items()}

    def level_of_op(kinds, fn, construct):
        ps = prec_of_kinds(ctx, kinds)
        if None in ps:
            bad = [k for k in kinds if lex_of(ctx, k) is None or PREC.get(lex_of(ctx, k)) is None]
            rep.bad("R1.1", fn.where, fn.qual, construct,
                    f"operator token kind(s) {bad} are not operators of the documented table "
                    "(or are not produced by the scanner)")
            return None
        if len(ps) != 1:
            rep.bad("R1.1", fn.where, fn.qual, construct,
                    f"one production mixes operators of different documented precedence: {sorted(kinds)}")
            return None
        return next(iter(ps))

    def child_check(name, fn, node_desc, lvl, child, side, own_kinds):
        """child: symbolic value in child position `side` of a binary node of level lvl."""
        tops = top_of_value(child) if child[0] != "node" or child[1] not in ("Binary",) else None
        construct = f"{node_desc} {side} operand {G.show(child) if child[0]=='hole' else child[1] if child[0]=='node' else child[0]}"
        key = (name, construct)
        if key in seen:
            return
        seen.add(key)
        if child[0] == "node" and child[1] == "Binary":
            kinds = child[2]["operator"][2] if child[2]["operator"][0] == "tokv" else ("?",)
            ps = prec_of_kinds(ctx, kinds)
            if side == "left":
                ok = ps == {lvl}
                rep.check(ok, "R1.1", fn.where, fn.qual, construct,
                          "accumulated expression is the LEFT child and has the same level (left-associative)",
                          f"left child built in the same production has level {ps} != {lvl}")
            else:
                if ps == {lvl} and lvl in ASSOCIATIVE_LEVELS:
                    rep.info("R1.1", fn.where, fn.qual, construct,
                             "right-nested chain of an associative operator (same model); informational")
                else:
                    rep.bad("R1.1", fn.where, fn.qual, construct,
                            "right child is an operator node built in the same production: "
                            "not left-associative")
            return
        problems = []
        for kind_, k in sorted(tops):
            if kind_ == "un":
                continue  # unary sign binds tighter than every binary operator
            if kind_ == "assign":
                p = 0
            else:
                lx = lex_of(ctx, k)
                p = PREC.get(lx) if lx else None
            if p is None:
                problems.append(f"{k}: unknown operator")
            elif p < lvl:
                problems.append(f"{k} (level {p}) binds looser than this operator (level {lvl})")
            elif p == lvl:
                if side == "right" and lvl in ASSOCIATIVE_LEVELS:
                    rep.info("R1.1", fn.where, fn.qual, construct,
                             f"{k} can appear un-parenthesised in the right operand: right-nested, "
                             "associative operator, same model; informational")
                else:
                    problems.append(
                        f"{k} has the same level {lvl} and can appear un-parenthesised in the {side} operand "
                        + ("(right-associative)" if side == "right" else "(not through the loop's own accumulation)")
                    )
        rep.check(not problems, "R1.1", fn.where, fn.qual, construct,
                  f"every operator that can head the {side} operand binds strictly tighter than level {lvl}",
                  "; ".join(problems))

    def visit(name, fn, val):
        if val[0] == "node":
            if val[1] == "Binary":
                op = val[2]["operator"]
                if op[0] != "tokv":
                    rep.bad("R1.1", fn.where, fn.qual, G.show(val), "operator of Binary node is not a consumed token")
                    return
                kinds = op[2]
                desc = "Binary{" + "|".join(kinds) + "}"
                lvl = level_of_op(kinds, fn, desc)
                if lvl is not None:
                    child_check(name, fn, desc, lvl, val[2]["left"], "left", kinds)
                    child_check(name, fn, desc, lvl, val[2]["right"], "right", kinds)
            elif val[1] == "Unary":
                op = val[2]["operator"]
                kinds = op[2] if op[0] == "tokv" else ("?",)
                desc = "Unary{" + "|".join(kinds) + "}"
                lx = {lex_of(ctx, k) for k in kinds}
                key = (name, desc)
                if key not in seen:
                    seen.add(key)
                    rep.check(lx <= UNARY_LEXEMES, "R1.1", fn.where, fn.qual, desc + " operator",
                              "unary operators are the signs + and -",
                              f"unary operator kinds {kinds} are not the documented signs")
                    operand = val[2]["right"]
                    tops = top_of_value(operand)
                    bins = sorted(k for t, k in tops if t in ("bin", "assign"))
                    rep.check(not bins, "R1.1", fn.where, fn.qual, desc + " operand " + G.show(operand),
                              "no binary operator can head the operand of a unary sign (sign binds tighter than **)",
                              f"binary operator(s) {bins} can head the operand of a unary sign un-parenthesised")
            elif val[1] == "Assign":
                desc = "Assign{=}"
                child_check(name, fn, desc, 0, val[2]["name"], "left", ("EQUAL",))
                child_check(name, fn, desc, 0, val[2]["value"], "right", ("EQUAL",))
            for a in val[2].values():
                visit(name, fn, a)
        elif val[0] == "list":
            for e in val[1]:
                visit(name, fn, e)
        elif val[0] == "attr":
            visit(name, fn, val[1])

    for name, res in ctx.S.items():
        fn = fnq(name)
        for path, status, val in res:
            if status == "return":
                visit(name, fn, val)
            # once-only operators
        for lexeme in ("~", "="):
            kinds = set(ctx.kind2lex_inv(lexeme)) if hasattr(ctx, "kind2lex_inv") else {
                k for k, lx in ctx.kind2lex.items() if lexeme in lx
            }
            counts = [
                sum(1 for e in path.events if e[0] == "tok" and set(e[1]) & kinds)
                for path, status, val in res
                if status == "return"
            ]
            if counts and max(counts) >= 1:
                rep.check(max(counts) <= 1, "R1.1", fn.where, fn.qual, f"`{lexeme}` consumed at most once per level",
                          "operator is under `if`, not a loop",
                          f"`{lexeme}` can be consumed {max(counts)}+ times in one production (chained)")
    # every documented binary operator is consumed by some production (language not silently shrunk)
    consumed = set()
    for name, res in ctx.S.items():
        for path, status, val in res:
            for e in path.events:
                if e[0] == "tok":
                    consumed |= set(e[1])
    ctx.consumed_kinds = consumed
    for lx, p in sorted(PREC.items()):
        kinds = [k for k, l in ctx.kind2lex.items() if lx in l]
        fn = ctx.ex.productions["parse"]["fn"] if "parse" in ctx.ex.productions else None
        where = fn.where if fn else "formulae/parser.py:1"
        rep.check(bool(kinds) and all(k in consumed for k in kinds), "R1.1", where,
                  "formulae.parser.Parser", f"operator `{lx}` is produced by the scanner and consumed by a production",
                  "", f"documented operator `{lx}` (kinds {kinds}) is not consumed by any production")


def r1_2(ctx, rep):
    """delimiter pairing"""
    lex2kind = {lx: k for lx, (k, _) in ctx.sm.table.items()}

    def closes(prod, partner_kind):
        rets = [(p, v) for p, s, v in ctx.S[prod] if s == "return"]
        if not rets:
            return False
        for p, v in rets:
            if not p.events:
                return False
            e = p.events[-1]
            if not (e[0] == "tok" and tuple(e[1]) == (partner_kind,)):
                return False
        return True

    seen = set()
    for name, res in ctx.S.items():
        fn = ctx.ex.productions[name]["fn"]
        for path, status, val in res:
            if status != "return":
                continue
            for i, e in enumerate(path.events):
                if e[0] != "tok":
                    continue
                for k in e[1]:
                    lx = lex_of(ctx, k)
                    if lx in OPENERS:
                        partner = lex2kind.get(OPENERS[lx])
                        ok = False
                        how = ""
                        for j in range(i + 1, len(path.events)):
                            f = path.events[j]
                            if f[0] == "tok" and tuple(f[1]) == (partner,):
                                ok = True
                                how = f"partner {partner} consumed later on the same path"
                                break
                        if not ok and i + 1 < len(path.events) and path.events[i + 1][0] == "nt":
                            callee = path.events[i + 1][1]
                            if closes(callee, partner):
                                ok = True
                                how = f"every returning path of `{callee}` ends by consuming {partner}"
                        construct = f"opening `{lx}` ({k}) is closed by `{OPENERS[lx]}` on every accepted path"
                        key = (name, construct, ok)
                        if key in seen:
                            continue
                        seen.add(key)
                        rep.check(ok, "R1.2", fn.where, fn.qual, construct, how,
                                  f"an accepted path consumes `{lx}` and returns without consuming `{OPENERS[lx]}`: "
                                  f"events {[(x[0], x[1]) for x in path.events]}")


def r1_3(ctx, rep):
    """AST fidelity: nothing that was parsed is dropped, order preserved."""
    punct_kinds = {k for k, lxs in ctx.kind2lex.items() if set(lxs) & PUNCT_LEXEMES} | {"EOF"}
    seen = set()
    for name, res in ctx.S.items():
        fn = ctx.ex.productions[name]["fn"]
        params = ctx.ex.productions[name]["params"]
        for path, status, val in res:
            if status != "return":
                continue
            lv = ordered_leaves(ctx.ex, val)
            used = [x[1] for x in lv if x[0] == "ev"]
            # a hole whose nonterminal received earlier values as arguments carries them
            carried = {}
            for i, e in enumerate(path.events):
                if e[0] == "nt":
                    c = []
                    for a in e[2]:
                        c.extend(x[1] for x in ordered_leaves(ctx.ex, a) if x[0] == "ev")
                    carried[i] = c
            expanded = []
            for i in used:
                expanded.extend(carried.get(i, []))
                expanded.append(i)
            evs = [(e[0], e[1]) for e in path.events]
            for i, e in enumerate(path.events):
                if e[0] == "nt":
                    construct = f"result of sub-parse `{e[1]}` flows into the returned node"
                    ok = i in expanded
                elif set(e[1]) <= punct_kinds:
                    continue
                else:
                    construct = f"consumed token {{{'|'.join(e[1])}}} flows into the returned node"
                    ok = i in expanded
                key = (name, construct, ok)
                if key in seen:
                    continue
                seen.add(key)
                rep.check(ok, "R1.3", fn.where, fn.qual, construct,
                          f"returned {G.show(val)}",
                          f"path {evs} returns {G.show(val)}: event #{i} is dropped")
            # a separator that is consumed must separate: `,` is always followed by another element
            for i, e in enumerate(path.events):
                if e[0] == "tok" and set(e[1]) == {"COMMA"}:
                    nxt = path.events[i + 1] if i + 1 < len(path.events) else None
                    ok = nxt is not None and nxt[0] == "nt"
                    construct = "a consumed `,` is followed by another argument"
                    key = (name, construct, ok)
                    if key not in seen:
                        seen.add(key)
                        rep.check(ok, "R1.3", fn.where, fn.qual, construct, "",
                                  f"path {evs}: the `,` at event #{i} is followed by {nxt[1] if nxt else 'the end'}: "
                                  "a trailing comma is accepted and ignored")
            # order and multiplicity
            holes_used = [i for i in expanded if path.events[i][0] == "nt"]
            dup = len(set(holes_used)) != len(holes_used)  # one token may be projected twice (.literal/.lexeme)
            inorder = expanded == sorted(expanded)
            construct = "children of the returned node are in source order, each used once"
            key = (name, construct, (not dup) and inorder, G.show(val) if dup or not inorder else "")
            if key not in seen:
                seen.add(key)
                rep.check((not dup) and inorder, "R1.3", fn.where, fn.qual, construct,
                          f"returned {G.show(val)}",
                          f"returned {G.show(val)} uses events in order {expanded} "
                          + ("(duplicate use)" if dup else "(swapped children)"))
            for p in params:
                pl = [x for x in lv if x[0] == "param" and x[1] == p]
                construct = f"parameter `{p}` flows into the returned node"
                key = (name, construct, bool(pl))
                if key not in seen:
                    seen.add(key)
                    rep.check(bool(pl), "R1.3", fn.where, fn.qual, construct, "",
                              f"returned {G.show(val)} does not contain parameter `{p}`")


def r1_4(ctx, rep):
    prog = ctx.prog
    if "parse" not in ctx.ex.productions:
        raise AnalysisError("Parser.parse not found")
    fn = ctx.ex.productions["parse"]["fn"]
    rets = [(p, v) for p, s, v in ctx.S["parse"] if s == "return"]
    if not rets:
        raise AnalysisError("Parser.parse has no returning path")
    for path, val in rets:
        n = len(path.events)
        ended = False
        if path.events and path.events[-1][0] == "tok" and tuple(path.events[-1][1]) == ("EOF",):
            ended = True
        excluded = set()
        for pos, fact in path.facts:
            if pos == n and fact == ("at_end", True):
                ended = True
            if pos == n and fact[0] in ("nonext", "nomatch"):
                excluded |= set(fact[1])
        # equivalent form: the next token is none of the kinds the scanner can produce
        producible = ({k for k, _ in ctx.sm.table.values()} | {"IDENTIFIER", "NUMBER", "STRING", "BQNAME", "PYTHON_LITERAL"}) - {"<raise>"}
        missing_kinds = sorted(producible - excluded)
        if not ended and excluded and not missing_kinds:
            ended = True
        construct = "every accepting path of parse ends with an end-of-input check"
        rep.check(ended, "R1.4", fn.where, fn.qual, construct,
                  "end-of-input test (at_end()/consume EOF) after the last sub-parse; failing branch raises",
                  f"accepting path {[(e[0], e[1]) for e in path.events]} returns without testing for end of "
                  "input: left-over tokens are silently dropped"
                  + (f" (the tests on the next token do not cover the kinds {missing_kinds})" if excluded else ""))
        holes = [x for x in G.leaves(val)]
        rep.check(val[0] == "hole", "R1.4", fn.where, fn.qual, "parse returns the result of its sub-parse",
                  G.show(val), f"parse returns {G.show(val)}")
    # sentinel agreement
    at_end = prog.fn("parser.Parser.at_end")
    sentinel = None
    for n in ast.walk(at_end.node):
        if isinstance(n, ast.Compare) and len(n.ops) == 1 and isinstance(n.ops[0], ast.Eq):
            for side in (n.left, n.comparators[0]):
                if is_str_const(side):
                    sentinel = side.value
    scan = prog.fn("scanner.Scanner.scan")
    appended = []
    for c in calls_in(scan.node):
        if dotted(c.func) == "self.tokens.append" and c.args and isinstance(c.args[0], ast.Call):
            t = c.args[0]
            if dotted(t.func) == "Token" and t.args and is_str_const(t.args[0]):
                appended.append((t.args[0].value, c))
    ok = sentinel is not None and len(appended) == 1 and appended[0][0] == sentinel
    obl(rep, at_end, at_end.node, "R1.4", ok,
        "sentinel kind tested by Parser.at_end is the kind appended last by Scanner.scan",
        f"sentinel {sentinel!r}", f"Parser.at_end tests {sentinel!r}, Scanner.scan appends {[a[0] for a in appended]}")
    if appended:
        c = cfg_of(scan)
        # the append happens after the scanning loop, on every path to a return
        app_nodes = [c.node_of(a[1]) for a in appended]
        obl(rep, scan, appended[0][1], "R1.4", c.must_pass(app_nodes),
            "Scanner.scan appends the sentinel on every path to its return")
    # model_description drives Scanner(...).scan() -> Parser(...).parse()
    md = prog.fn("model_description.model_description")
    names = [dotted(c.func) for c in calls_in(md.node)]
    chain = None
    for c in calls_in(md.node):
        if isinstance(c.func, ast.Attribute) and c.func.attr == "parse" and isinstance(c.func.value, ast.Call) \
                and dotted(c.func.value.func) == "Parser":
            chain = c
    ok = chain is not None
    inner = None
    if ok:
        a = chain.func.value.args
        ok = len(a) == 1 and isinstance(a[0], ast.Call) and isinstance(a[0].func, ast.Attribute) \
            and a[0].func.attr == "scan" and isinstance(a[0].func.value, ast.Call) \
            and dotted(a[0].func.value.func) == "Scanner"
        inner = a[0] if ok else None
    obl(rep, md, chain or md.node, "R1.4", ok,
        "model_description parses through Parser(Scanner(formula).scan()).parse()",
        "entry point is parse (which carries the end-of-input check), not a sub-production",
        "model_description does not call Parser(...).parse() on Scanner(...).scan()")
    ctx.md_scan_call = inner
    # ... on every path: no return of model_description that is not preceded by the parse of THIS formula (a result looked up
    # under a derived key - blanks removed, lower-cased - belongs to another string)
    if chain is not None:
        cmd = cfg_of(md)
        holder = next((st for st in walk_local(md.node) if isinstance(st, ast.stmt) and any(n is chain for n in ast.walk(st))
                       and not isinstance(st, (ast.If, ast.For, ast.While, ast.Try, ast.With, ast.FunctionDef))), None)
        rets_md = [r_ for r_ in walk_local(md.node) if isinstance(r_, ast.Return)]
        okd = holder is not None and bool(rets_md)
        if okd:
            hn = cmd.node_of(holder)
            okd = all(cmd.dominates(hn, cmd.node_of(r_)) for r_ in rets_md) and not cmd.falls_off()
        bad_ret = next((r_ for r_ in rets_md if holder is not None and not cmd.dominates(cmd.node_of(holder), cmd.node_of(r_))), None)
        obl(rep, md, bad_ret or md.node, "R1.4", okd, "every return of model_description comes after the parse of its own formula", "",
            "model_description can return without scanning and parsing the formula it was given (a cached / looked-up description)")
    from . import shared as _sh0
    _sh0.formula_text_untouched(prog, rep, "R1.4")


def _returns(fn):
    return [n for n in walk_local(fn.node) if isinstance(n, ast.Return)]


def r1_5(ctx, rep):
    """contracts of the cursor primitives and cursor ownership"""
    prog = ctx.prog
    P = lambda n: prog.fn(f"parser.Parser.{n}")
    # consume: returns only under check(kind) true via advance; otherwise raises
    f = P("consume")
    c = cfg_of(f)
    ifs = [n for n in walk_local(f.node) if isinstance(n, ast.If)]
    ok = False
    why = "no `if self.check(kind)` found"
    for i in ifs:
        t = i.test
        neg = False
        if isinstance(t, ast.UnaryOp) and isinstance(t.op, ast.Not):
            t, neg = t.operand, True
        if dotted(getattr(t, "func", None)) == "self.check" and len(t.args) == 1 and isinstance(t.args[0], ast.Name) \
                and t.args[0].id == f.params[1]:
            n = c.node_of(i)
            good, badr = (c.false_region(n), c.true_region(n)) if neg else (c.true_region(n), c.false_region(n))
            raises_only = not (RETURN in badr or FALLOFF in badr) if not (set(good) & set(badr) - {RETURN, RAISE, FALLOFF}) else False
            adv = [c.node_of(x) for x in calls_in(f.node) if dotted(x.func) == "self.advance"]
            passes = c.must_pass(adv) and not c.falls_off()
            ok = raises_only and passes and c.dominates(n, adv[0]) if adv else False
            why = f"mismatch branch raises: {raises_only}; every normal exit passes self.advance(): {passes}"
    obl(rep, f, f.node, "R1.5", ok, "consume(kind): advances iff check(kind), otherwise raises", why, why)
    # match: True only after advance under check; no raise
    f = P("match")
    c = cfg_of(f)
    rets = _returns(f)
    adv = [c.node_of(x) for x in calls_in(f.node) if dotted(x.func) == "self.advance"]
    chk = [i for i in walk_local(f.node) if isinstance(i, ast.If) and dotted(getattr(i.test, "func", None)) == "self.check"
           and len(i.test.args) == 1 and isinstance(i.test.args[0], ast.Name) and i.test.args[0].id == f.params[1]]
    ok = bool(adv) and len(chk) == 1 and not c.falls_off()
    why = ""
    if ok:
        n = c.node_of(chk[0])
        tr = c.true_region(n)
        fr = c.false_region(n)
        for r in rets:
            rn = c.node_of(r)
            v = r.value.value if isinstance(r.value, ast.Constant) else "?"
            if v is True:
                ok = ok and rn in tr and rn not in fr and not (RETURN in c.reachable(n, removed=adv + list(fr - tr)) and False)
                # the True return must be preceded by advance
                ok = ok and c.dominates(adv[0], rn)
            elif v is False:
                ok = ok and rn in fr and rn not in tr
            else:
                ok = False
        ok = ok and all(a in tr and a not in fr for a in adv)
    obl(rep, f, f.node, "R1.5", ok, "match(kinds): returns True exactly when it consumed a token of those kinds",
        "True-return dominated by advance under check; False-return on the other branch")
    # check: False at end, else membership of peek().kind in the given kinds
    f = P("check")
    rets = _returns(f)
    memb = [r for r in rets if isinstance(r.value, ast.Compare) and isinstance(r.value.ops[0], ast.In)
            and unparse(r.value.left) == "self.peek().kind"
            and f.params[1] in {n.id for n in ast.walk(r.value.comparators[0]) if isinstance(n, ast.Name)}]
    others = [r for r in rets if r not in memb]
    ok = len(memb) == 1 and all(isinstance(r.value, ast.Constant) and r.value.value is False for r in others) \
        and not cfg_of(f).falls_off()
    obl(rep, f, f.node, "R1.5", ok, "check(kinds): membership test of the next token's kind, False otherwise",
        short(memb[0]) if memb else "", "check does not return `self.peek().kind in <kinds>`")
    # advance / previous / peek index arithmetic
    f = P("advance")
    src = unparse(f.node)
    aug = [n for n in walk_local(f.node) if isinstance(n, ast.AugAssign)]
    ok = len(aug) == 1 and is_self_attr(aug[0].target, "current") and isinstance(aug[0].op, ast.Add) \
        and isinstance(aug[0].value, ast.Constant) and aug[0].value.value == 1
    rets = _returns(f)
    ok = ok and len(rets) == 1 and unparse(rets[0].value) == "self.tokens[self.current - 1]"
    if ok:
        c = cfg_of(f)
        ok = c.dominates(c.node_of(aug[0]), c.node_of(rets[0]))
    obl(rep, f, f.node, "R1.5", ok, "advance: moves the cursor by exactly one and returns the token it passed")
    for name, expect in (("previous", "self.tokens[self.current - 1]"), ("peek", "self.tokens[self.current]")):
        f = P(name)
        rets = _returns(f)
        obl(rep, f, f.node, "R1.5", len(rets) == 1 and unparse(rets[0].value) == expect,
            f"{name}: returns {expect}", "", f"{name} returns {unparse(rets[0].value) if rets else None}")
    # cursor ownership: who may write Parser.current / Scanner.current / Scanner.start
    allowed = {
        ("formulae.parser.Parser", "current"): {"__init__", "advance"},
        ("formulae.scanner.Scanner", "current"): {"__init__", "advance", "match"},
        ("formulae.scanner.Scanner", "start"): {"__init__", "scan"},
        ("formulae.parser.Parser", "tokens"): {"__init__"},
        ("formulae.scanner.Scanner", "code"): {"__init__"},
    }
    for (clsq, attr), who in allowed.items():
        cls = prog.classes.get(clsq)
        if cls is None:
            raise AnalysisError(f"class {clsq} not found")
        for mname, m in list(cls.methods.items()):
            for n in walk_local(m.node):
                tgt = None
                if isinstance(n, ast.Assign):
                    for t in n.targets:
                        for tt in ast.walk(t):
                            if is_self_attr(tt, attr) and isinstance(tt.ctx, ast.Store):
                                tgt = n
                elif isinstance(n, ast.AugAssign) and is_self_attr(n.target, attr):
                    tgt = n
                if tgt is not None:
                    if mname not in who and isinstance(tgt, ast.AugAssign) and isinstance(tgt.op, ast.Add) and attr == "current" \
                            and any(isinstance(x, ast.Call) for x in ast.walk(tgt.value)):
                        # a forward stride computed from the text (e.g. the number of characters a predicate accepts): neither the
                        # single-step discipline nor a recognisable breach of it - the cursor model cannot follow it
                        rep.defer(f"R1.5: {cls.name}.{mname} advances the cursor by a computed stride `{short(tgt, 70)}`, which the cursor model does not follow")
                        continue
                    if mname not in who and isinstance(tgt, ast.Assign) and attr == "current" and isinstance(tgt.value, ast.Name) \
                            and any(isinstance(s_, ast.Assign) and unparse(s_.targets[0]) == tgt.value.id and unparse(s_.value) in ("self.current", "self.start")
                                    for s_ in walk_local(m.node)):
                        # the cursor is kept in a local index (read from self.current, advanced locally, written back): a scanner
                        # written without the primitives - the cursor model, which follows the primitives, cannot decide it
                        rep.defer(f"R1.5: {cls.name}.{mname} keeps the cursor in the local `{tgt.value.id}` and writes it back (`{short(tgt, 50)}`): not followed by the cursor model")
                        continue
                    obl(rep, m, tgt, "R1.5", mname in who,
                        f"write to {cls.name}.{attr} in {mname}", f"writers allowed: {sorted(who)}",
                        f"{cls.name}.{attr} is written outside {sorted(who)}", nontrivial=False)
    # positive control for the ownership rule: the rule must see the known writer
    w = [n for n in walk_local(P("advance").node) if isinstance(n, ast.AugAssign) and is_self_attr(n.target, "current")]
    if not w:
        raise AnalysisError("R1.5 positive control failed: writer of Parser.current in advance not seen")


def r1_6(ctx, rep):
    sm = ctx.sm
    fn = ctx.prog.fn("scanner.Scanner.scan_token")
    where = lambda line: f"{fn.module.relpath}:{line}"
    # function / injective
    for ch, l1, l2 in sm.conflicts:
        rep.info("R1.6", where(l2), fn.qual, f"character {ch!r} tested again", f"shadowed by the branch at line {l1}")
    bykind = {}
    for lex, (kind, line) in sm.table.items():
        bykind.setdefault(kind, []).append(lex)
    for kind, lexs in sorted(bykind.items()):
        if kind == "<raise>":
            continue
        rep.check(len(lexs) == 1, "R1.6", where(sm.table[lexs[0]][1]), fn.qual,
                  f"token kind {kind} has exactly one lexeme", f"{lexs[0]!r}",
                  f"kind {kind} is produced for several lexemes {lexs}: distinct operators become indistinguishable")
    # documented lexemes all present
    needed = set(PREC) | set(OPENERS) | set(OPENERS.values()) | {","}
    for lx in sorted(needed):
        present = lx in sm.table and sm.table[lx][0] != "<raise>"
        rep.check(present, "R1.6", where(sm.table[lx][1]) if lx in sm.table else fn.where, fn.qual,
                  f"lexeme `{lx}` has its own token kind", sm.table.get(lx, ("", 0))[0],
                  f"documented lexeme `{lx}` is not scanned as one token")
    # two-character forms tried before their prefix: by construction of the lookahead idiom
    for lx in sorted(sm.table):
        if len(lx) == 2:
            rep.check(lx[0] in sm.table or any(lx[0] in h[0][1] for h in sm.helpers if h[0][0].startswith("chars")),
                      "R1.6", where(sm.table[lx][1]), fn.qual,
                      f"two-character lexeme `{lx}` is tried before its one-character prefix",
                      "match(second char) precedes the single-character fallback")
    # default raises
    rep.check(sm.default == "raise", "R1.6", where(sm.default_line), fn.qual,
              "an unknown character is refused (default branch raises)", "",
              f"default branch of scan_token is `{sm.default}`: an unknown character is silently ignored")
    # classes
    helpers = {}
    for cls, h, line in sm.helpers:
        helpers.setdefault(h, []).append((cls, line))
    rep.extra["scanner_helpers"] = {h: [str(c[0]) for c in v] for h, v in helpers.items()}
    # every kind the parser consumes is produced by the scanner
    produced = {k for k, _ in sm.table.values()} | {"EOF"}
    scmod = ctx.prog.mod("scanner")
    for c in ast.walk(scmod.tree):
        if isinstance(c, ast.Call) and dotted(c.func) == "self.add_token" and c.args and is_str_const(c.args[0]):
            produced.add(c.args[0].value)
    pfn = ctx.prog.cls("parser.Parser")
    for k in sorted(ctx.consumed_kinds - {"*"}):
        rep.check(k in produced, "R1.6", pfn.where, pfn.qual, f"token kind {k} matched by the parser is produced by the scanner",
                  "", f"parser matches kind {k} which the scanner never produces")
    unused = sorted(k for k in produced - ctx.consumed_kinds - {"EOF", "<raise>"})
    for k in unused:
        rep.info("R1.6", fn.where, fn.qual, f"kind {k} is produced but never consumed by the parser",
                 "such a token can only make the parse fail (R1.4)")


def r1_7(ctx, rep):
    sm = ctx.sm
    fn = ctx.prog.fn("scanner.Scanner.scan_token")
    for cls, line in sm.skips:
        if cls[0] == "chars":
            for ch in cls[1]:
                rep.check(ch in WHITESPACE, "R1.7", f"{fn.module.relpath}:{line}", fn.qual,
                          f"skipped character {ch!r} is whitespace", "",
                          f"character {ch!r} is silently skipped by the scanner but is not whitespace")
        else:
            rep.check(cls[0] == "isspace", "R1.7", f"{fn.module.relpath}:{line}", fn.qual,
                      f"skipped character class {cls[0]} is whitespace", "",
                      f"character class `{cls[0]}()` is silently skipped")
    if not sm.skips:
        rep.info("R1.7", fn.where, fn.qual, "no character is skipped", "")
    scan = ctx.prog.fn("scanner.Scanner.scan")
    c = cfg_of(scan)
    loops = [n for n in walk_local(scan.node) if isinstance(n, ast.While)]
    calls = [x for x in calls_in(scan.node) if dotted(x.func) == "self.scan_token"]
    if len(loops) != 1 or len(calls) != 1:
        raise AnalysisError("Scanner.scan: expected one scanning loop with one scan_token() call")
    loop = loops[0]
    resets = [s for s in loop.body if isinstance(s, ast.Assign) and len(s.targets) == 1
              and is_self_attr(s.targets[0], "start") and unparse(s.value) == "self.current"]
    ok = bool(resets) and loop.body.index(resets[0]) < [i for i, s in enumerate(loop.body) if any(x is calls[0] for x in ast.walk(s))][0]
    obl(rep, scan, loop, "R1.7", ok, "`self.start = self.current` precedes scan_token() in every iteration",
        "lexemes never contain skipped characters", "lexeme start is not reset before each token")
    t = loop.test
    ok = isinstance(t, ast.UnaryOp) and isinstance(t.op, ast.Not) and dotted(getattr(t.operand, "func", None)) == "self.at_end"
    obl(rep, scan, loop, "R1.7", ok, "scanning loop runs until the end of the input", unparse(t),
        f"scanning loop condition is `{unparse(t)}`")
    at_end = ctx.prog.fn("scanner.Scanner.at_end")
    rets = _returns(at_end)
    ok = len(rets) == 1 and unparse(rets[0].value) in ("self.current >= len(self.code)", "len(self.code) <= self.current",
                                                        "self.current == len(self.code)")
    obl(rep, at_end, at_end.node, "R1.7", ok, "Scanner.at_end is true exactly when every character was consumed",
        unparse(rets[0].value) if rets else "")
    # add_token: lexeme is exactly code[start:current]
    at = ctx.prog.fn("scanner.Scanner.add_token")
    slices = [n for n in walk_local(at.node) if isinstance(n, ast.Subscript) and unparse(n) == "self.code[self.start:self.current]"]
    appends = [x for x in calls_in(at.node) if dotted(x.func) == "self.tokens.append"]
    ok = len(slices) == 1 and len(appends) == 1 and cfg_of(at).must_pass([cfg_of(at).node_of(appends[0])])
    if ok:
        tok = appends[0].args[0]
        ok = isinstance(tok, ast.Call) and dotted(tok.func) == "Token" and len(tok.args) >= 2 and unparse(tok.args[0]) == at.params[1]
        lex = tok.args[1] if ok else None
        if ok:
            ok = unparse(lex) == "self.code[self.start:self.current]" or (
                isinstance(lex, ast.Name) and any(
                    isinstance(s, ast.Assign) and unparse(s.targets[0]) == lex.id and unparse(s.value) == "self.code[self.start:self.current]"
                    for s in at.body))
    obl(rep, at, at.node, "R1.7", ok, "add_token appends Token(kind, code[start:current], literal) unconditionally",
        "the lexeme is exactly the characters consumed since the reset")


def local_cursor_methods(prog):
    """Scanner methods that keep the cursor in a local index (`pos = self.current` ... `self.current = pos`) instead of moving
    it with the primitives: the cursor model (R1.5, R1.8, R12.5) follows the primitives and cannot decide such a method"""
    out = []
    cls = prog.cls("scanner.Scanner")
    for mname, m in cls.methods.items():
        if mname in ("advance", "match", "__init__", "scan"):
            continue
        for st in walk_local(m.node):
            if isinstance(st, ast.Assign) and any(is_self_attr(t, "current") for t in st.targets) and isinstance(st.value, ast.Name) \
                    and any(isinstance(s_, ast.Assign) and unparse(s_.targets[0]) == st.value.id and unparse(s_.value) in ("self.current", "self.start")
                            for s_ in walk_local(m.node)):
                out.append(mname)
                break
    return out


def r1_8(ctx, rep):
    prog = ctx.prog
    lc = local_cursor_methods(prog)
    if lc:
        rep.defer(f"R1.8: Scanner.{', Scanner.'.join(sorted(lc))} keep the cursor in a local index: not followed by the cursor model")
        return
    for name, kind in (("number", "NUMBER"), ("floatnum", "NUMBER"), ("identifier", None), ("char", "STRING"), ("backquote", "BQNAME")):
        f = prog.fn(f"scanner.Scanner.{name}")
        c = cfg_of(f)
        adds = [x for x in calls_in(f.node) if dotted(x.func) == "self.add_token"]
        nodes = [c.node_of(a) for a in adds]
        ok = bool(adds) and c.must_pass(nodes)
        # exactly one: no add_token node reachable from another
        for n in nodes:
            reach = c.reachable_edges([(n, s) for s in c.succ[n]])
            if any(m in reach for m in nodes):
                ok = False
        kinds = sorted({a.args[0].value for a in adds if a.args and is_str_const(a.args[0])})
        if kind is not None:
            ok = ok and kinds == [kind]
        obl(rep, f, f.node, "R1.8", ok, f"{name}: every normal exit emits exactly one token ({', '.join(kinds)})",
            "must-pass-through add_token, pairwise exclusive", f"{name}: some path emits no token or several tokens")
    # char(): refuses unterminated strings
    f = prog.fn("scanner.Scanner.char")
    c = cfg_of(f)
    guards = [i for i in walk_local(f.node) if isinstance(i, ast.If) and dotted(getattr(i.test, "func", None)) == "self.at_end"
              and block_raises(i.body)]
    adds = [x for x in calls_in(f.node) if dotted(x.func) == "self.add_token"]
    ok = len(guards) >= 1 and bool(adds) and all(c.dominates(c.node_of(guards[0]), c.node_of(a)) for a in adds)
    loops = [n for n in walk_local(f.node) if isinstance(n, ast.While)]
    if not loops:
        rep.defer("R1.8: Scanner.char skips the string body without a `while` loop: the end-of-input condition of the skip is not modelled")
    else:
        ok = ok and len(loops) == 1 and "self.at_end()" in unparse(loops[0].test)
    obl(rep, f, guards[0] if guards else f.node, "R1.8", ok,
        "char: raises when the input ends before the closing quote (guard dominates the token)",
        "", "unterminated string is not refused before the STRING token is emitted")
    # backquote(): a BQNAME token is emitted only after the closing back-quote was seen and consumed
    f = prog.fn("scanner.Scanner.backquote")
    c = cfg_of(f)
    loops = [n for n in walk_local(f.node) if isinstance(n, ast.While)]
    adds = [x for x in calls_in(f.node) if dotted(x.func) == "self.add_token"]
    if len(loops) != 1 or len(adds) != 1:
        raise AnalysisError("Scanner.backquote: expected one scanning loop and one add_token")
    lp = loops[0]
    exits = []
    if isinstance(lp.test, ast.Constant) and lp.test.value is True:
        for i in ast.walk(lp):
            if isinstance(i, ast.If) and any(isinstance(b, ast.Break) for b in i.body):
                exits.append(unparse(i.test))
    else:
        exits.append("not (" + unparse(lp.test) + ")")
    sees_quote = any("self.peek() == '`'" in e or "self.peek() != '`'" in e for e in exits)
    can_exit_at_end = any("at_end" in e for e in exits)
    guards = [i for i in walk_local(f.node) if isinstance(i, ast.If) and "at_end" in unparse(i.test) and block_raises(i.body)]
    guarded = bool(guards) and c.dominates(c.node_of(guards[0]), c.node_of(adds[0]))
    ok = sees_quote and (not can_exit_at_end or guarded)
    obl(rep, f, lp, "R1.8", ok, "backquote: the scanning loop ends only at a closing back-quote (or a raising end-of-input guard dominates the token)",
        f"loop exits: {exits}", f"the loop can end at the end of the input ({exits}) and nothing raises: an unterminated back-quoted name is accepted")
    after = f.body[f.body.index(lp) + 1:] if lp in f.body else []
    closing = [s_ for s_ in after if isinstance(s_, ast.Expr) and isinstance(s_.value, ast.Call) and dotted(s_.value.func) in ("self.advance",)]
    soft = [s_ for s_ in after if isinstance(s_, ast.Expr) and isinstance(s_.value, ast.Call) and dotted(s_.value.func) == "self.match"]
    ok = len(closing) == 1 and not soft and after.index(closing[0]) < [i for i, s_ in enumerate(after) if any(x is adds[0] for x in ast.walk(s_))][0]
    obl(rep, f, closing[0] if closing else (soft[0] if soft else lp), "R1.8", ok,
        "backquote: the closing back-quote is consumed unconditionally before the token is emitted (at the end of the input advance() fails: rejection)",
        "", "the closing back-quote is consumed by a test whose result is ignored: a missing closing quote is tolerated")
    # identifier continuation set
    f = prog.fn("scanner.Scanner.identifier")
    loops = [n for n in walk_local(f.node) if isinstance(n, ast.While)]
    if len(loops) != 1:
        raise AnalysisError("Scanner.identifier: expected one loop")
    t = loops[0].test
    parts = t.values if isinstance(t, ast.BoolOp) and isinstance(t.op, ast.Or) else [t]
    lits, classes, unknown = set(), set(), []
    for p in parts:
        if isinstance(p, ast.Call) and isinstance(p.func, ast.Attribute) and dotted(getattr(p.func.value, "func", None)) == "self.peek":
            classes.add(p.func.attr)
        elif isinstance(p, ast.Compare) and dotted(getattr(p.left, "func", None)) == "self.peek" and isinstance(p.ops[0], (ast.In, ast.Eq)):
            rhs = p.comparators[0]
            if isinstance(rhs, (ast.List, ast.Tuple, ast.Set)) and all(is_str_const(e) for e in rhs.elts):
                lits |= {e.value for e in rhs.elts}
            elif is_str_const(rhs):
                lits |= set(rhs.value) if isinstance(p.ops[0], ast.In) else {rhs.value}
            else:
                unknown.append(unparse(p))
        else:
            unknown.append(unparse(p))
    if unknown:
        raise AnalysisError(f"Scanner.identifier: unmodelled continuation test {unknown}")
    ok = classes <= {"isalnum", "isalpha", "isdigit"} and lits <= {".", "_"}
    obl(rep, f, loops[0], "R1.8", ok, "identifier continues over alphanumerics and the literals `.` `_` only",
        f"classes {sorted(classes)}, literals {sorted(lits)}",
        f"identifier continuation accepts {sorted(lits - {'.', '_'})} / {sorted(classes)}: operators would be swallowed into names")
    # number/floatnum loops only over digits
    for name in ("number", "floatnum"):
        f = prog.fn(f"scanner.Scanner.{name}")
        for lp in [n for n in walk_local(f.node) if isinstance(n, ast.While)]:
            obl(rep, f, lp, "R1.8", unparse(lp.test) == "self.peek().isdigit()",
                f"{name}: digit loop `{unparse(lp.test)}`", "", "number scanning loop consumes non-digits")


def _len_gt1(test, var=None):
    """normalise `len(X) > 1` forms; returns X name or None."""
    neg = False
    if isinstance(test, ast.UnaryOp) and isinstance(test.op, ast.Not):
        neg, test = True, test.operand
    if not (isinstance(test, ast.Compare) and len(test.ops) == 1):
        return None
    l, op, r = test.left, test.ops[0], test.comparators[0]

    def lenarg(n):
        if isinstance(n, ast.Call) and dotted(n.func) == "len" and len(n.args) == 1:
            return unparse(n.args[0])
        return None

    if lenarg(l) is not None and isinstance(r, ast.Constant):
        x, k, o = lenarg(l), r.value, type(op)
    elif lenarg(r) is not None and isinstance(l, ast.Constant):
        x, k = lenarg(r), l.value
        o = {ast.Lt: ast.Gt, ast.LtE: ast.GtE, ast.Gt: ast.Lt, ast.GtE: ast.LtE}.get(type(op), type(op))
    else:
        return None
    if neg:
        o = {ast.Lt: ast.GtE, ast.LtE: ast.Gt, ast.Gt: ast.LtE, ast.GtE: ast.Lt, ast.Eq: ast.NotEq, ast.NotEq: ast.Eq}.get(o)
    if (o is ast.Gt and k == 1) or (o is ast.GtE and k == 2):
        return x
    return None


def r1_9(ctx, rep):
    prog = ctx.prog
    scan = prog.fn("scanner.Scanner.scan")
    c = cfg_of(scan)
    tilde_kinds = [k for k, lx in ctx.kind2lex.items() if "~" in lx]
    plus_kinds = [k for k, lx in ctx.kind2lex.items() if "+" in lx]
    if len(tilde_kinds) != 1 or len(plus_kinds) != 1:
        raise AnalysisError("scanner table has no unique kind for `~` / `+`")
    TILDE, PLUS = tilde_kinds[0], plus_kinds[0]
    guard = None
    for i in walk_local(scan.node):
        if isinstance(i, ast.If) and block_raises(i.body):
            x = _len_gt1(i.test)
            if x is not None:
                guard = (i, x)
    ok = guard is not None
    if not ok:
        # no `len(<positions>) > 1` test: the tildes may be counted another way; the symbolic model below decides
        try:
            two = [_intercept_model(scan, None, 2, flag) for flag in (True, False)]
            one = [_intercept_model(scan, None, kk, flag) for kk in (0, 1) for flag in (True, False)]
            ok = all(x[0] == "raise" for x in two) and all(x[0] == "list" for x in one)
        except AnalysisError as e:
            rep.defer(f"R1.9: {e}")
            ok = True
    obl(rep, scan, guard[0] if guard else scan.node, "R1.9", ok,
        "a raising guard on `more than one ~` exists in Scanner.scan", guard[1] if guard else "decided on the symbolic token-list model",
        "no guard of the form `if <number of ~> > 1: raise` found: a second `~` is accepted "
        "(the grammar admits `~` inside parentheses and call arguments)")
    if guard:
        gi, xname = guard
        rets = [c.node_of(r) for r in _returns(scan)]
        gn = c.node_of(gi)
        obl(rep, scan, gi, "R1.9", all(c.dominates(gn, r) for r in rets) and not c.falls_off(),
            "the tilde-count guard dominates every return of scan")
        # xname is a list of all positions whose token kind is TILDE
        defs = [s for s in walk_local(scan.node) if isinstance(s, ast.Assign) and unparse(s.targets[0]) == xname]
        okdef = False
        why = "definition not recognised"
        if len(defs) == 1 and isinstance(defs[0].value, ast.ListComp):
            lc = defs[0].value
            gen = lc.generators[0]
            src = unparse(gen.iter)
            conds = [unparse(x) for x in gen.ifs]
            over_all = src in ("range(len(self.tokens))", "enumerate(self.tokens)", "self.tokens")
            uses_tilde = False
            for x in gen.ifs:
                for n in ast.walk(x):
                    if isinstance(n, ast.Call) and dotted(n.func) == "is_tilde":
                        it = prog.fn("scanner.is_tilde")
                        r = _returns(it)
                        uses_tilde = len(r) == 1 and unparse(r[0].value) in (f"token.kind == '{TILDE}'", f"'{TILDE}' == token.kind")
                    if isinstance(n, ast.Compare) and is_str_const(n.comparators[0], TILDE) and isinstance(n.ops[0], ast.Eq):
                        uses_tilde = True
            okdef = over_all and uses_tilde and len(gen.ifs) == 1 and len(lc.generators) == 1
            why = f"{xname} = {short(lc)}"
            # and the comprehension is evaluated after the scanning loop
            loops = [n for n in walk_local(scan.node) if isinstance(n, ast.While)]
            if loops:
                okdef = okdef and c.dominates(c.node_of(loops[0]), c.node_of(defs[0]))
        # ... of the COMPLETE token list: between the scanning loop and this count nothing removes, replaces or re-binds tokens
        # (only the end-of-input sentinel is appended).  A `~` dropped before it is counted is a `~` that is never refused.
        if len(defs) == 1:
            dn = c.node_of(defs[0])
            early = []
            for st in walk_local(scan.node):
                hit = None
                if isinstance(st, (ast.Assign, ast.AugAssign, ast.Delete)):
                    tg = st.targets if isinstance(st, (ast.Assign, ast.Delete)) else [st.target]
                    for t_ in tg:
                        b_ = t_
                        while isinstance(b_, ast.Subscript):
                            b_ = b_.value
                        if unparse(b_) == "self.tokens":
                            hit = st
                elif isinstance(st, ast.Expr) and isinstance(st.value, ast.Call) and isinstance(st.value.func, ast.Attribute) \
                        and unparse(st.value.func.value) == "self.tokens" and st.value.func.attr in ("pop", "remove", "insert", "clear", "reverse", "sort", "extend", "__delitem__", "__setitem__"):
                    hit = st
                if hit is not None:
                    try:
                        hn = c.node_of(hit)
                    except Exception:  # noqa: BLE001
                        continue
                    # it can run before the count: it does not come after it on every path
                    if not c.dominates(dn, hn):
                        early.append(hit)
            obl(rep, scan, early[0] if early else defs[0], "R1.9", not early,
                "the token list is not modified between scanning and counting the `~` tokens (only the sentinel is appended)", "",
                f"`{short(early[0], 70) if early else ''}` changes self.tokens before the `~` tokens are counted: a `~` removed here is never refused")
        if not okdef and len(defs) == 1 and isinstance(defs[0].value, ast.Call):
            # not a comprehension at all (itertools, a helper, ...): neither recognisably right nor recognisably wrong
            rep.defer(f"R1.9: the definition of `{xname}` (`{short(defs[0].value, 60) if defs else '?'}`) is not a form the tilde model reads")
        else:
            obl(rep, scan, defs[0] if defs else scan.node, "R1.9", okdef,
                f"`{xname}` lists the positions of all `~` tokens of the complete token list", why,
                f"`{xname}` is not recognisably the list of all `~` positions ({why})")
    # the implicit intercept, decided on a symbolic model of the token list: the statements after the EOF append are
    # evaluated for every tilde count k in {0, 1, 2} and add_intercept in {True, False}; T is the scanned list, t the
    # position of the single `~`
    xname = guard[1] if guard else None
    try:
        outcomes = {(k, flag): _intercept_model(scan, xname, k, flag) for k in (0, 1, 2) for flag in (True, False)}
    except AnalysisError as e:
        rep.defer(f"R1.9: {e}")
        outcomes = None
    if outcomes is not None:
        ONE, PL = "Token('NUMBER', '1', 1)", f"Token('{PLUS}', '+')"
        want = {
            (0, True): ("list", [("tok", ONE), ("tok", PL), ("T", "0", "N")]),
            (1, True): ("list", [("T", "0", "t + 1"), ("tok", ONE), ("tok", PL), ("T", "t + 1", "N")]),
            (0, False): ("list", [("T", "0", "N")]),
            (1, False): ("list", [("T", "0", "N")]),
        }
        for key in sorted(want):
            got = outcomes[key]
            k, flag = key
            obl(rep, scan, scan.node, "R1.9", got == want[key],
                f"{k} `~`, add_intercept={flag}: scan returns " + _show_tokens(want[key]),
                "symbolic token list", f"with {k} `~` and add_intercept={flag} scan returns {_show_tokens(got)}, expected {_show_tokens(want[key])}: "
                "the implicit `1 +` is not placed at the start of the right-hand side (or tokens are lost / duplicated)")
        for flag in (True, False):
            got = outcomes[(2, flag)]
            obl(rep, scan, scan.node, "R1.9", got[0] == "raise", f"two `~`, add_intercept={flag}: scan raises", "",
                f"with two `~` scan returns {_show_tokens(got)}")
    # model_description uses the default add_intercept=True
    sc = ctx.md_scan_call
    if sc is not None:
        okc = not sc.args and not sc.keywords or (
            len(sc.args) + len(sc.keywords) == 1 and unparse((sc.args + [k.value for k in sc.keywords])[0]) == "True")
        md = prog.fn("model_description.model_description")
        d = scan.node.args.defaults
        okc = okc and len(d) == 1 and isinstance(d[0], ast.Constant) and d[0].value is True
        obl(rep, md, sc, "R1.9", okc, "model_description scans with add_intercept=True (default)")


def _show_tokens(v):
    if v[0] != "list":
        return v[0] + (f" ({v[1]})" if len(v) > 1 else "")
    out = []
    for p_ in v[1]:
        out.append(p_[1] if p_[0] == "tok" else f"T[{p_[1]}:{p_[2]}]")
    return "[" + ", ".join(out) + "]"


class _LoopBreak(Exception):
    pass


def _tilde_observer(loop):
    """`for i in range(len(self.tokens)): if is_tilde(self.tokens[i]): BODY` (or over enumerate(self.tokens) / self.tokens,
    or testing `.kind == 'TILDE'`): (name of the position variable or None, BODY) - a loop that looks at EVERY token of the
    complete list and acts on the `~` tokens only; None if the loop is anything else"""
    it = unparse(loop.iter)
    ivar = tokexpr = None
    if it == "range(len(self.tokens))" and isinstance(loop.target, ast.Name):
        ivar, tokexpr = loop.target.id, f"self.tokens[{loop.target.id}]"
    elif it == "enumerate(self.tokens)" and isinstance(loop.target, ast.Tuple) and len(loop.target.elts) == 2 and all(isinstance(e, ast.Name) for e in loop.target.elts):
        ivar, tokexpr = loop.target.elts[0].id, loop.target.elts[1].id
    elif it == "self.tokens" and isinstance(loop.target, ast.Name):
        ivar, tokexpr = None, loop.target.id
    else:
        return None
    if loop.orelse or len(loop.body) != 1 or not isinstance(loop.body[0], ast.If) or loop.body[0].orelse:
        return None
    test = unparse(loop.body[0].test)
    alt = f"self.tokens[{ivar}]" if ivar else None
    for tk in (tokexpr, alt):
        if tk and (test == f"is_tilde({tk})" or (test.startswith(f"{tk}.kind == '") and "TILDE" in test)):
            return ivar, loop.body[0].body
    return None


def _intercept_model(scan, xname, k, add_intercept):
    """Evaluate the statements of Scanner.scan that follow `self.tokens.append(Token('EOF', ...))` on a symbolic token list.
    The list is a sequence of pieces: ('T', lo, hi) = a slice of the scanned list T (indices are linear in t = position of
    the `~`, N = len(T)), ('tok', <constructor text>) = a synthesised token.  k = number of `~`, xname = the local that
    holds their positions.  Returns ('list', pieces) | ('raise',)."""
    from .. import symexec as SX

    body = strip_docstring(scan.node.body)
    start = None
    for i, st in enumerate(body):
        if isinstance(st, ast.Expr) and isinstance(st.value, ast.Call) and unparse(st.value.func) == "self.tokens.append" \
                and st.value.args and isinstance(st.value.args[0], ast.Call) and dotted(st.value.args[0].func) == "Token" \
                and is_str_const(st.value.args[0].args[0], "EOF"):
            start = i
    if start is None:
        raise AnalysisError("Scanner.scan: `self.tokens.append(Token('EOF', ...))` not found at the top level")
    flag_name = scan.params[1] if len(scan.params) > 1 else "add_intercept"
    N, t = SX.atom("N"), SX.atom("t")
    state = {"tokens": [("T", SX.Lin(0), N)]}
    env = {}
    xnames = {xname} if xname else set()  # the tilde-position list and its aliases (a helper's parameter, a renamed copy)
    NONE = ("none",)
    positions = [t, SX.atom("t2"), SX.atom("t3")][:k]   # the positions of the `~` tokens, in order

    def lin(v):
        return v if isinstance(v, SX.Lin) else None

    def show(pieces):
        return ("list", [(p_[0], p_[1]) if p_[0] == "tok" else ("T", SX.render(p_[1]), SX.render(p_[2])) for p_ in pieces])

    def num(e):
        """integer / index expressions"""
        if isinstance(e, ast.Constant) and isinstance(e.value, int) and not isinstance(e.value, bool):
            return SX.Lin(e.value)
        if isinstance(e, ast.Name) and e.id in env and isinstance(env[e.id], SX.Lin):
            return env[e.id]
        if isinstance(e, ast.Subscript) and isinstance(e.value, ast.Name) and isinstance(env.get(e.value.id), tuple) and env[e.value.id][0] == "pos" \
                and isinstance(e.slice, ast.Constant) and isinstance(e.slice.value, int):
            seen = env[e.value.id][1]
            if not seen or not (-len(seen) <= e.slice.value < len(seen)):
                raise AnalysisError(f"`{unparse(e)}` is evaluated with {len(seen)} recorded tilde position(s)")
            return seen[e.slice.value]
        if isinstance(e, ast.Call) and dotted(e.func) == "len" and len(e.args) == 1 and isinstance(e.args[0], ast.Name) \
                and isinstance(env.get(e.args[0].id), tuple) and env[e.args[0].id][0] == "pos":
            return SX.Lin(len(env[e.args[0].id][1]))
        if isinstance(e, ast.Subscript) and isinstance(e.value, ast.Name) and e.value.id in xnames and isinstance(e.slice, ast.Constant) and e.slice.value in (0, -1):
            if k != 1:
                raise AnalysisError(f"`{unparse(e)}` is evaluated with {k} tilde position(s)")
            return t
        if isinstance(e, ast.Call) and dotted(e.func) == "len" and len(e.args) == 1 and isinstance(e.args[0], ast.Name) and e.args[0].id in xnames:
            return SX.Lin(k)
        if isinstance(e, ast.BinOp) and isinstance(e.op, (ast.Add, ast.Sub)):
            a, b = num(e.left), num(e.right)
            if a is not None and b is not None:
                return SX.add(a, b, 1 if isinstance(e.op, ast.Add) else -1)
        return None

    def truth(e):
        if isinstance(e, ast.Name) and e.id == flag_name:
            return add_intercept
        if isinstance(e, ast.Name) and e.id in xnames:
            return k > 0
        if isinstance(e, ast.Name) and isinstance(env.get(e.id), tuple) and env[e.id][0] == "pos":
            return len(env[e.id][1]) > 0
        if isinstance(e, ast.Compare) and len(e.ops) == 1 and isinstance(e.ops[0], (ast.Is, ast.IsNot)) and isinstance(e.left, ast.Name) \
                and e.left.id in env and isinstance(e.comparators[0], ast.Constant) and e.comparators[0].value is None:
            is_none = env[e.left.id] == NONE
            return is_none if isinstance(e.ops[0], ast.Is) else not is_none
        if isinstance(e, ast.UnaryOp) and isinstance(e.op, ast.Not):
            return not truth(e.operand)
        if isinstance(e, ast.BoolOp):
            vals = [truth(v) for v in e.values]
            return all(vals) if isinstance(e.op, ast.And) else any(vals)
        if isinstance(e, ast.Compare) and len(e.ops) == 1:
            a, b = num(e.left), num(e.comparators[0])
            if a is not None and b is not None and not a.t and not b.t:
                op = type(e.ops[0])
                table = {ast.Eq: a.c == b.c, ast.NotEq: a.c != b.c, ast.Gt: a.c > b.c, ast.GtE: a.c >= b.c, ast.Lt: a.c < b.c, ast.LtE: a.c <= b.c}
                if op in table:
                    return table[op]
        raise AnalysisError(f"Scanner.scan: cannot decide `{unparse(e)}` for {k} tilde(s)")

    def lst(e):
        """token-list expressions -> pieces"""
        if isinstance(e, ast.Attribute) and unparse(e) == "self.tokens":
            return list(state["tokens"])
        if isinstance(e, ast.Name) and e.id in env and isinstance(env[e.id], list):
            return list(env[e.id])
        if isinstance(e, ast.List):
            out = []
            for x in e.elts:
                if isinstance(x, ast.Call) and dotted(x.func) == "Token":
                    out.append(("tok", unparse(x)))
                elif isinstance(x, ast.Name) and x.id in env and isinstance(env[x.id], tuple) and env[x.id][0] == "tok":
                    out.append(env[x.id])
                elif isinstance(x, ast.Starred):
                    out.extend(lst(x.value))
                else:
                    raise AnalysisError(f"Scanner.scan: unmodelled list element `{unparse(x)}`")
            return out
        if isinstance(e, ast.BinOp) and isinstance(e.op, ast.Add):
            return lst(e.left) + lst(e.right)
        if isinstance(e, ast.Subscript) and isinstance(e.slice, ast.Slice) and e.slice.step is None:
            base = lst(e.value)
            lo = num(e.slice.lower) if e.slice.lower is not None else SX.Lin(0)
            hi = num(e.slice.upper) if e.slice.upper is not None else None
            if lo is None or (e.slice.upper is not None and hi is None):
                raise AnalysisError(f"Scanner.scan: unmodelled slice `{unparse(e)}`")
            left, right = split(base, lo)
            if hi is None:
                return right
            mid, _rest = split(right, SX.add(hi, lo, -1))
            return mid
        if isinstance(e, ast.Call) and dotted(e.func) == "list" and len(e.args) == 1:
            return lst(e.args[0])
        raise AnalysisError(f"Scanner.scan: unmodelled token-list expression `{unparse(e)}`")

    def split(pieces, idx):
        """(pieces before index idx, pieces from idx on); idx linear in t with 0 <= t < N"""
        before, off = [], SX.Lin(0)
        rest = list(pieces)
        while True:
            if idx == off:
                return before, rest
            if not rest:
                raise AnalysisError(f"Scanner.scan: index {SX.render(idx)} is beyond the modelled list")
            p_ = rest[0]
            if p_[0] == "tok":
                before.append(p_)
                rest = rest[1:]
                off = SX.add(off, SX.Lin(1))
                continue
            length = SX.add(p_[2], p_[1], -1)
            end = SX.add(off, length)
            d = SX.add(idx, off, -1)
            # inside this T-slice?  provable for d = t + c (c in 0..1) inside T[0:N], since 0 <= t < N
            # (larger offsets are placed the same way: list.insert clamps at the end, and any such placement differs from
            # the expected one anyway)
            inside = p_[1] == SX.Lin(0) and p_[2] == N and set(d.t) == {"t"} and d.t["t"] == 1 and 0 <= d.c <= 4
            if inside:
                cut = SX.add(p_[1], d)
                before.append(("T", p_[1], cut))
                rest = [("T", cut, p_[2])] + rest[1:]
                return before, rest
            if end == idx:
                before.append(p_)
                rest = rest[1:]
                off = end
                continue
            # constant index beyond a piece of unknown length, or an index the model cannot place
            if not d.t and d.c > 0 and p_[0] == "T":
                raise AnalysisError(f"Scanner.scan: cannot place index {SX.render(idx)} inside {('T', SX.render(p_[1]), SX.render(p_[2]))}")
            before.append(p_)
            rest = rest[1:]
            off = end

    class Done(Exception):
        def __init__(self, v):
            self.v = v

    def run(stmts):
        for st in stmts:
            if isinstance(st, ast.Expr) and isinstance(st.value, ast.Constant):
                continue
            if isinstance(st, ast.Pass):
                continue
            if isinstance(st, ast.Raise):
                raise Done(("raise",))
            if isinstance(st, ast.Return):
                if st.value is not None and unparse(st.value) == "self.tokens":
                    raise Done(show(state["tokens"]))
                raise Done(show(lst(st.value)) if st.value is not None else ("none",))
            if isinstance(st, ast.If):
                run(st.body if truth(st.test) else st.orelse)
                continue
            if isinstance(st, ast.For):
                obs = _tilde_observer(st)
                if obs is None:
                    raise AnalysisError(f"Scanner.scan: unmodelled loop after the scanning loop `{short(st)}`")
                ivar, taken = obs
                try:
                    for pos in positions:
                        if ivar:
                            env[ivar] = pos
                        run(taken)
                except _LoopBreak:
                    pass
                continue
            if isinstance(st, ast.Break):
                raise _LoopBreak()
            if isinstance(st, ast.AugAssign) and isinstance(st.target, ast.Name) and isinstance(st.op, (ast.Add, ast.Sub)) and isinstance(env.get(st.target.id), SX.Lin):
                d_ = num(st.value)
                if d_ is None:
                    raise AnalysisError(f"Scanner.scan: unmodelled increment `{unparse(st)}`")
                env[st.target.id] = SX.add(env[st.target.id], d_, 1 if isinstance(st.op, ast.Add) else -1)
                continue
            if isinstance(st, ast.Expr) and isinstance(st.value, ast.Call) and isinstance(st.value.func, ast.Attribute) and st.value.func.attr == "append" \
                    and isinstance(st.value.func.value, ast.Name) and isinstance(env.get(st.value.func.value.id), tuple) \
                    and env[st.value.func.value.id][0] == "pos" and len(st.value.args) == 1:
                v = num(st.value.args[0])
                if v is None:
                    raise AnalysisError(f"Scanner.scan: unmodelled recorded position `{unparse(st.value.args[0])}`")
                env[st.value.func.value.id] = ("pos", env[st.value.func.value.id][1] + [v])
                continue
            if isinstance(st, ast.Assign) and len(st.targets) == 1:
                tg = st.targets[0]
                if isinstance(tg, ast.Name):
                    if isinstance(st.value, ast.Constant) and st.value.value is None:
                        env[tg.id] = NONE
                        continue
                    if isinstance(st.value, ast.List) and not st.value.elts:
                        env[tg.id] = ("pos", [])
                        continue
                    if isinstance(st.value, ast.Name) and isinstance(env.get(st.value.id), tuple) and env[st.value.id][0] == "pos":
                        env[tg.id] = env[st.value.id]
                        xnames.discard(tg.id)
                        continue
                    if isinstance(st.value, ast.ListComp) and len(st.value.generators) == 1:
                        g_ = st.value.generators[0]
                        fake = ast.For(target=g_.target, iter=g_.iter, body=[ast.If(test=c_, body=[], orelse=[]) for c_ in g_.ifs][:1] or [], orelse=[])
                        if len(g_.ifs) == 1:
                            fake.body = [ast.If(test=g_.ifs[0], body=[ast.Pass()], orelse=[])]
                            obs = _tilde_observer(fake)
                            if obs is not None and obs[0] and unparse(st.value.elt) == obs[0]:
                                env[tg.id] = ("pos", list(positions))
                                xnames.discard(tg.id)
                                continue
                    if tg.id in xnames:
                        continue
                    if isinstance(st.value, ast.Name) and st.value.id in xnames:
                        xnames.add(tg.id)
                        continue
                    v = num(st.value)
                    if v is not None:
                        env[tg.id] = v
                    elif isinstance(st.value, ast.Call) and dotted(st.value.func) == "Token":
                        env[tg.id] = ("tok", unparse(st.value))
                    else:
                        env[tg.id] = lst(st.value)
                    continue
                if unparse(tg) == "self.tokens":
                    state["tokens"] = lst(st.value)
                    continue
                if isinstance(tg, ast.Subscript) and unparse(tg.value) == "self.tokens" and isinstance(tg.slice, ast.Slice) and tg.slice.step is None:
                    lo = num(tg.slice.lower) if tg.slice.lower is not None else SX.Lin(0)
                    hi = num(tg.slice.upper) if tg.slice.upper is not None else None
                    if lo is None or hi is None or lo != hi:
                        raise AnalysisError(f"Scanner.scan: unmodelled slice assignment `{unparse(st)}`")
                    a, b = split(state["tokens"], lo)
                    state["tokens"] = a + lst(st.value) + b
                    continue
            if isinstance(st, ast.Expr) and isinstance(st.value, ast.Call) and unparse(st.value.func) == "self.tokens.insert" and len(st.value.args) == 2:
                idx = num(st.value.args[0])
                x = st.value.args[1]
                if idx is None:
                    raise AnalysisError(f"Scanner.scan: unmodelled insertion index `{unparse(st.value.args[0])}`")
                if isinstance(x, ast.Call) and dotted(x.func) == "Token":
                    item = ("tok", unparse(x))
                elif isinstance(x, ast.Name) and isinstance(env.get(x.id), tuple):
                    item = env[x.id]
                else:
                    raise AnalysisError(f"Scanner.scan: unmodelled inserted value `{unparse(x)}`")
                a, b = split(state["tokens"], idx)
                state["tokens"] = a + [item] + b
                continue
            if isinstance(st, ast.Expr) and isinstance(st.value, ast.Call) and dotted(st.value.func) in ("_log.debug", "_log.info"):
                continue
            raise AnalysisError(f"Scanner.scan: unmodelled statement after the scanning loop `{short(st)}`")

    try:
        run(body[start + 1:])
    except Done as d:
        return d.v
    return ("falloff",)


def _passthrough_visit(fn, param):
    """fn returns, on every path, the unmodified result of <param>.expression.accept(self)."""
    rets = _returns(fn)
    if not rets or cfg_of(fn).falls_off():
        return False, "no return / falls off"
    want = f"{param}.expression.accept(self)"
    assigns = {unparse(s.targets[0]): unparse(s.value) for s in walk_local(fn.node)
               if isinstance(s, ast.Assign) and len(s.targets) == 1 and isinstance(s.targets[0], ast.Name)}
    multi = {}
    for s in walk_local(fn.node):
        if isinstance(s, ast.Assign) and len(s.targets) == 1 and isinstance(s.targets[0], ast.Name):
            multi[s.targets[0].id] = multi.get(s.targets[0].id, 0) + 1
    for r in rets:
        v = unparse(r.value)
        hops = 0
        while v in assigns and multi.get(v, 0) == 1 and hops < 5:
            # the temporary is only handed on: any other use (an attribute, a call on it) could modify the result in place
            loads = [n for n in walk_local(fn.node) if isinstance(n, ast.Name) and n.id == v and isinstance(n.ctx, ast.Load)]
            if len(loads) != 1:
                return False, f"the result kept in `{v}` is used {len(loads)} times before it is returned (it may be modified in place)"
            v = assigns[v]
            hops += 1
        if v != want:
            return False, f"returns `{unparse(r.value)}`"
    extra = [x for x in calls_in(fn.node) if unparse(x) != want and dotted(x.func) not in (None,)]
    return True, want


def r1_10(ctx, rep):
    for q in ("resolver.Resolver.visitGroupingExpr", "terms.call_resolver.CallResolver.visitGroupingExpr"):
        f = ctx.prog.fn(q)
        ok, why = _passthrough_visit(f, f.params[1])
        obl(rep, f, f.node, "R1.10", ok, "visitGroupingExpr returns the unmodified result of the inner expression",
            why, f"redundant parentheses can change the result: {why}")


def r1_11(ctx, rep):
    for cq in ("resolver.Resolver", "terms.call_resolver.CallResolver"):
        cls = ctx.prog.cls(cq)
        for name, m in sorted(cls.methods.items()):
            if not name.startswith("visit"):
                continue
            c = cfg_of(m)
            obl(rep, m, m.node, "R1.11", not c.falls_off(), f"{cls.name}.{name} never falls off its end (no implicit None)",
                "every path returns or raises", "a path falls off the end: an unknown node/operator resolves to None")
    # every expr class has accept -> visitX, and both resolvers define visitX for what the parser can build
    built = set()
    for name, res in ctx.S.items():
        for path, status, val in res:
            if status == "return":
                stack = [val]
                while stack:
                    v = stack.pop()
                    if v[0] == "node":
                        built.add(v[1])
                        stack.extend(v[2].values())
                    elif v[0] == "list":
                        stack.extend(v[1])
                    elif v[0] == "attr":
                        stack.append(v[1])
    exprmod = ctx.prog.mod("expr")
    for cname in sorted(built):
        cls = exprmod.classes.get(cname)
        if cls is None:
            raise AnalysisError(f"parser builds unknown node class {cname}")
        acc = cls.methods.get("accept")
        target = None
        if acc:
            for x in calls_in(acc.node):
                if isinstance(x.func, ast.Attribute) and x.func.attr.startswith("visit"):
                    target = x.func.attr
        res = ctx.prog.cls("resolver.Resolver")
        need = cname != "Assign"
        ok = target is not None and (target in res.methods or not need)
        rep.check(ok, "R1.11", cls.where, cls.qual, f"node class {cname}: accept -> {target}, defined by Resolver"
                  + ("" if need else " (Assign is only legal inside calls)"), "",
                  f"{cname}.accept dispatches to {target}, which Resolver does not define")


def r1_12(ctx, rep):
    """no ignored token at the level of the operators: the exponent of `**` is either used (a positive integer) or the formula is
    refused.  The term-set interpretation of the `**` overloads (C02's R2.6) is adopted for exactly those cases."""
    from . import C02
    from ..core import reuse_rule

    n = reuse_rule(rep, C02.r2_6, "R1.12", ctx.prog, keep=lambda it: " ** " in it.get("construct", ""))
    if not n:
        raise AnalysisError("R1.12: no `**` overload was interpreted")


from ..core import guard_rules  # noqa: E402

guard_rules(globals())

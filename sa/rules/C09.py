"""C09 - missing-value policy: skeleton and the "used variables" computation (R9.1 .. R9.4)."""
import ast

from ..core import (
    AnalysisError,
    obl,
    unparse,
    short,
    dotted,
    is_str_const,
    is_self_attr,
    walk_local,
    calls_in,
    block_raises,
)
from ..cfg import cfg_of
from ..types import TypeEngine
from . import shared

EXPLANATION = (
    "R9.1 the na_action argument is validated against a literal set by a raising guard that dominates every "
    "effect of design_matrices, and the later if/elif/else handles each validated literal (pass: data not "
    "re-bound; drop: data re-bound to data[~incomplete_rows]; the remaining literal: raise ValueError), the whole "
    "chain being guarded by 'at least one incomplete row'. R9.2 the NA mask is computed on the frame produced by "
    "the var_names column selection, before anything is evaluated, and the filtered frame is the one handed to "
    "DesignMatrices. R9.3 one frame reaches the response, common and group matrices. R9.4 var_names is complete: "
    "holder coverage (Model reads common, group and response; GroupSpecificTerm reads expr and factor; Term "
    "unions all components) and visitor coverage (CallVarsExtractor defines a visit method for every lazy node "
    "class and reads every child-bearing field, derived from the inferred field types), and back-quoted names "
    "are stripped identically where they are resolved and where they are counted as used."
    ' R9.4 also: in-place updates of used-variable sets hit sets created on the spot (`x.var_names` is fresh only if every implementation returns a fresh set). R9.5 interaction columns are plain products and nothing on the numeric path tests for or replaces missing values.'
)
ASSUMPTIONS = [
    "pandas: DataFrame.isna().any(axis=1) marks rows with a missing value; boolean indexing with the mask of the same frame is positional",
    "where NaN lands under 'pass' and equality with the reduced-frame run are runtime relations and are not decided",
]


def run(prog, rep, tier):
    dm = prog.fn("matrices.design_matrices")
    r9_1(prog, rep, dm)
    r9_2(prog, rep, dm)
    r9_3(prog, rep)
    r9_4(prog, rep)
    r9_5(prog, rep)
    r9_6(prog, rep)
    rep.floor("R9.1", 4)
    rep.floor("R9.2", 5)
    rep.floor("R9.4", 12)


def _count_positive(test, var):
    """`var > 0`, `var >= 1`, `var != 0`, `0 < var`, bare `var`"""
    t = unparse(test)
    return t in (f"{var} > 0", f"{var} >= 1", f"{var} != 0", f"0 < {var}", f"1 <= {var}", var, f"0 != {var}", f"bool({var})")


def policy_outcomes(prog, dm):
    """Partial + symbolic evaluation of design_matrices for each value of na_action: what frame reaches DesignMatrices(...),
    under which condition an exception is raised.  {value: dict(raises=[path...], frames=[(path, value)])}"""
    from .. import symexec as SX

    var = "na_action" if "na_action" in dm.params else dm.params[2]
    out = {}
    for value in ("drop", "error", "pass", "<any other value>"):
        ex = SX.SymExec(decide=shared.option_decider(prog, dm, var, value), watch={"DesignMatrices"})
        ex.run(dm.body)
        raises = [e for e in ex.effects if e[0] == "raise"]
        frames = [(e[2], e[1][1][1] if len(e[1][1]) > 1 else None, e[1][2]) for e in ex.effects if e[0] == "watch"]
        out[value] = dict(raises=raises, frames=frames, ex=ex)
    # argument validation that is independent of na_action (formula is a string, data is a non-empty frame, ...) raises in
    # every run alike: those raises, and their conditions, are ambient
    common = None
    for value, o in out.items():
        keys = {(tuple(e[2]), unparse(e[1][0])) for e in o["raises"]}
        common = keys if common is None else common & keys
    ambient_conds = {c for (path, _r) in (common or set()) for (c, _t) in path}
    for value, o in out.items():
        o["raises"] = [(e[0], e[1], tuple(x for x in e[2] if x[0] not in ambient_conds)) for e in o["raises"]
                       if (tuple(e[2]), unparse(e[1][0])) not in common]
        o["frames"] = [(tuple(x for x in p if x[0] not in ambient_conds), v, n) for p, v, n in o["frames"]]
        o["effects"] = [e for e in o["ex"].effects if not (e[0] == "raise" and (tuple(e[2]), unparse(e[1][0])) in common)]
    return out


def _mask_conditions(D):
    M = [f"{D}.isna().any(axis=1)", f"{D}.isnull().any(axis=1)"]
    pos, neg = set(), set()
    for m in M:
        pos |= {f"{m}.sum() > 0", f"{m}.sum() >= 1", f"{m}.sum() != 0", f"{m}.any()", f"{m}.sum()", f"0 < {m}.sum()", f"len({D}.index[{m}]) > 0",
                f"len({D}[{m}]) > 0", f"{m}.values.any()", f"bool({m}.any())"}
        neg |= {f"{m}.sum() == 0", f"{m}.sum() < 1", f"{m}.sum() <= 0", f"not {m}.any()", f"not {m}.sum()", f"len({D}.index[{m}]) == 0",
                f"len({D}[{m}]) == 0"}
    return M, pos, neg


def _cond_means_incomplete(path, D):
    """the path condition says exactly 'at least one row of D has a missing value': True; 'none has': False; else None"""
    _, pos, neg = _mask_conditions(D)
    if len(path) != 1:
        return None
    c, taken = path[0]
    if c in pos:
        return taken
    if c in neg:
        return not taken
    return None


def frames_summary(prog, dm):
    """for other properties: (D, set of (na_action value, leaf text, leaf path) reaching DesignMatrices, filtered forms)"""
    from .. import symexec as SX

    O = policy_outcomes(prog, dm)
    ps = O["pass"]
    vals = {SX.render(v) for _, v, _ in ps["frames"] if v is not None and not isinstance(v, SX.Ite)}
    D = next(iter(vals)) if len(vals) == 1 else None
    leaves = []

    def walk(v, path, value, node):
        if isinstance(v, SX.Ite):
            walk(v.a, path + ((v.cond, True),), value, node)
            walk(v.b, path + ((v.cond, False),), value, node)
        elif v is not None:
            leaves.append((value, SX.render(v), path, node))

    for value in ("drop", "error", "pass"):
        for path, v, node in O[value]["frames"]:
            walk(v, tuple(path), value, node)
    filtered = set()
    if D is not None:
        M, _, _ = _mask_conditions(D)
        filtered = {f"{D}[~{m}]" for m in M} | {f"{D}.loc[~{m}]" for m in M} | {f"{D}[~{m}].copy()" for m in M} | {f"{D}.loc[~{m}, :]" for m in M}
    return D, leaves, filtered


def r9_1(prog, rep, dm):
    """The missing-value policy, decided on the outcomes of design_matrices specialised for every value of na_action."""
    from .. import symexec as SX

    try:
        O = policy_outcomes(prog, dm)
    except AnalysisError as e:
        rep.defer(f"R9.1: {e}")
        return
    # the value that is tested is the value that was passed: the parameter is never re-bound (an alias table, .lower(), a default
    # substituted for None ... would make other spellings acceptable)
    var = "na_action" if "na_action" in dm.params else dm.params[2]
    rebinds = [n for n in ast.walk(dm.node) if isinstance(n, ast.Name) and n.id == var and isinstance(n.ctx, ast.Store)]
    obl(rep, dm, rebinds[0] if rebinds else dm.node, "R9.1", not rebinds, f"`{var}` is validated and dispatched on as passed (never re-bound)", "",
        f"`{var}` is re-bound before it is validated / dispatched on: values other than drop / error / pass can be accepted under another spelling")
    # any other value: refused before anything else happens
    other = O["<any other value>"]
    first = other["effects"][0] if other["effects"] else None
    ok = first is not None and first[0] == "raise" and not other["frames"] and len(other["raises"]) == 1 and other["raises"][0][2] == ()
    obl(rep, dm, first[1][0] if first and first[0] == "raise" else dm.node, "R9.1", ok,
        "an na_action other than drop / error / pass is refused before parsing, environment capture and construction", "",
        "na_action is not validated first: another value is silently treated as one of the policies")
    # pass: the selected frame reaches the design unchanged, on every path, nothing raises
    ps = O["pass"]
    vals = {SX.render(v) for _, v, _ in ps["frames"] if v is not None}
    D = None
    if len(vals) == 1 and not any(isinstance(v, SX.Ite) for _, v, _ in ps["frames"]):
        D = next(iter(vals))
    obl(rep, dm, ps["frames"][0][2] if ps["frames"] else dm.node, "R9.1", D is not None and not ps["raises"],
        "'pass': the frame of used columns reaches the design unchanged (all rows kept, in order), nothing raises", str(sorted(vals)),
        f"'pass' hands {sorted(vals)} to the design / raises {len(ps['raises'])} time(s): rows are dropped, reordered or refused")
    if D is None:
        return
    M, pos, neg = _mask_conditions(D)
    filtered = {f"{D}[~{m}]" for m in M} | {f"{D}.loc[~{m}]" for m in M} | {f"{D}[~{m}].copy()" for m in M} | {f"{D}.loc[~{m}, :]" for m in M}

    def leaves(v, path=()):
        if isinstance(v, SX.Ite):
            return leaves(v.a, path + ((v.cond, True),)) + leaves(v.b, path + ((v.cond, False),))
        return [(path, SX.render(v))]

    # drop: exactly the incomplete rows are removed, by position (boolean mask), never by label
    dr = O["drop"]
    okd, why = bool(dr["frames"]) and not dr["raises"], []
    for path, v, node in dr["frames"]:
        for lp, txt in leaves(v, tuple(path)):
            inc = _cond_means_incomplete(lp, D) if lp else None
            if txt in filtered:
                continue  # filtering is right whether or not a row is incomplete
            if txt == D and lp and inc is False:
                continue  # nothing to remove on this path
            okd = False
            why.append(f"under {list(lp) or 'every path'} the design gets `{txt}`")
    obl(rep, dm, dr["frames"][0][2] if dr["frames"] else dm.node, "R9.1", okd,
        "'drop': the design gets the frame filtered by the negated row mask of missing values (positional; the unfiltered frame only when no row is incomplete)",
        "", "; ".join(why) + f" - expected `{D}[~{M[0]}]`: not exactly the incomplete rows are removed (a label-based drop also removes complete "
        "rows that share an index label)")
    # error: raises iff at least one row is incomplete
    er = O["error"]
    oke = len(er["raises"]) == 1 and _cond_means_incomplete(tuple(er["raises"][0][2]), D) is True
    if oke:
        r = er["raises"][0][1][0]
        oke = isinstance(r.exc, ast.Call) and dotted(r.exc.func) == "ValueError"
    for path, v, node in er["frames"]:
        for lp, txt in leaves(v, tuple(path)):
            if not (txt == D and _cond_means_incomplete(lp, D) is False):
                oke = False
    obl(rep, dm, er["raises"][0][1][0] if er["raises"] else dm.node, "R9.1", oke and bool(er["frames"]),
        "'error': ValueError exactly when at least one row has a missing value in a used column; otherwise the frame is untouched",
        str([list(e[2]) for e in er["raises"]]),
        f"'error' raises under {[list(e[2]) for e in er['raises']]} and builds the design from {[SX.render(v) for _, v, _ in er['frames']]}: "
        "it no longer raises exactly when an incomplete row exists")
    # the validation comes first also in the sense of effects: nothing is parsed / captured for an invalid value


def r9_2(prog, rep, dm):
    """which frame the policy works on, decided on the symbolic value that reaches DesignMatrices under 'pass'"""
    from .. import symexec as SX

    try:
        O = policy_outcomes(prog, dm)
    except AnalysisError as e:
        rep.defer(f"R9.2: {e}")
        return
    fr = O["pass"]["frames"]
    ok = len(fr) >= 1 and all(v is not None and not isinstance(v, SX.Ite) for _, v, _ in fr) and len({SX.render(v) for _, v, _ in fr}) == 1
    D = SX.render(fr[0][1]) if ok else None
    desc = "model_description(formula)"
    sets = (f"{desc}.var_names.intersection(set(data.columns))", f"{desc}.var_names & set(data.columns)",
            f"set(data.columns).intersection({desc}.var_names)", f"set(data.columns) & {desc}.var_names")
    forms = {f"data[list({x})]" for x in sets} | {f"data[sorted({x})]" for x in sets} | {f"data.loc[:, list({x})]" for x in sets}
    obl(rep, dm, fr[0][2] if fr else dm.node, "R9.2", D in forms, "data is re-bound to the columns the formula uses",
        str(D), f"the frame handed to the design is `{D}`, not the selection of description.var_names among the frame's columns: "
        "missing values in unused columns are not ignored / used columns are lost")
    if D not in forms:
        return
    obl(rep, dm, fr[0][2], "R9.2", True, "the selected columns are description.var_names intersected with the frame's columns", D, nontrivial=False)
    # the design is built from the description of this very call
    args0 = {SX.render(e[1][1][0]) for e in O["pass"]["ex"].effects if e[0] == "watch" and e[1][1]}
    obl(rep, dm, fr[0][2], "R9.2", args0 == {desc}, "description is model_description(formula) of this very call", str(sorted(args0)),
        f"DesignMatrices receives {sorted(args0)} as description")
    # the mask: any missing value among the used columns, row-wise (R9.1 recognises the policy on exactly this mask)
    M, _, _ = _mask_conditions(D)
    txt = " ".join(SX.render(v) for _, v, _ in O["drop"]["frames"] if v is not None) + " " + \
        " ".join(c for e in O["error"]["raises"] for c, _ in e[2])
    obl(rep, dm, dm.node, "R9.2", any(m in txt for m in M),
        "the missing-value mask is computed on the column-subset frame, any over axis=1 (missing values in unused columns are ignored)",
        "", "the row mask is not `<selected frame>.isna().any(axis=1)`")
    cons = [x for x in calls_in(dm.node) if dotted(x.func) == "DesignMatrices"]
    obl(rep, dm, cons[0] if cons else dm.node, "R9.2", len(cons) >= 1 and all(len(x.args) == 3 for x in cons),
        "DesignMatrices(description, data, env) is constructed after the column selection and the policy")
    # nothing is evaluated before: no .eval/.set_type/.evaluate call in design_matrices itself
    early = [x for x in calls_in(dm.node) if isinstance(x.func, ast.Attribute) and x.func.attr in ("eval", "evaluate", "set_type", "set_data", "set_types")]
    obl(rep, dm, early[0] if early else dm.node, "R9.2", not early, "design_matrices evaluates no term before the row filter")


NUMERIC_PATH = ("utils.get_interaction_matrix", "terms.terms.Term.set_data", "terms.terms.Term.eval_new_data",
                "terms.variable.Variable.eval_numeric", "terms.variable.Variable.eval_new_data_numeric",
                "terms.call.Call.eval_numeric", "terms.call.Call.eval_new_data_numeric",
                "terms.terms.GroupSpecificTerm.set_data", "terms.terms.GroupSpecificTerm.eval_new_data",
                "terms.call_resolver.LazyVariable.eval", "terms.call_resolver.LazyOperator.eval")
NAN_MASKING = ("np.nan_to_num", "np.select", "np.choose", "np.putmask", "np.place", "np.nanprod", "np.nansum", "np.nanmean", "np.fmax", "np.fmin",
               "np.nanmax", "np.nanmin", "np.isnan", "np.isfinite", "pd.isna", "pd.isnull", "pd.notna")
NAN_MASKING_METHODS = ("fillna", "dropna", "interpolate", "ffill", "bfill", "isna", "isnull", "notna")


def r9_5(prog, rep):
    """'pass': a missing numeric value is NaN in exactly the columns derived from it.  Necessary structural part: on the path a
    numeric value takes into its columns (variable -> term -> interaction product -> group block) nothing tests for, replaces
    or skips missing values, and the interaction combinator stacks plain products (NaN * anything = NaN)."""
    from .. import order as O

    gim = prog.fn("utils.get_interaction_matrix")
    O.pairwise_major(gim)
    kind, etxt = getattr(gim, "_pairwise_element", ("product", "matrix product form"))
    obl(rep, gim, gim.node, "R9.5", kind == "product", "interaction columns are plain products: a NaN in a factor is a NaN in every column derived from it",
        etxt, f"the stacked element is `{etxt}`: a data-dependent selection replaces the product, so NaN * 0 (missing numeric value in a "
        "row whose dummy is 0) is written as a number - under na_action='pass' the incomplete row no longer carries NaN in all the "
        "columns derived from its missing variable")
    # the functions of the numeric path and the (new) package helpers they call
    te = TypeEngine(prog)
    scope = []
    for q in NUMERIC_PATH:
        f = prog.fn(q)
        scope.append((q, f))
        for t in sorted(te.callees(f.qual)):
            g = prog.functions.get(t)
            if g is not None and g.parent is None and g.cls is None and g.module.name in ("formulae.utils", "formulae.terms.terms") \
                    and t not in {prog.fn(x).qual for x in NUMERIC_PATH} and not any(t == g2.qual for _, g2 in scope):
                scope.append((t[len("formulae."):], g))
    for q, f in scope:
        hits = []
        for c in calls_in(f.node, local=False):
            d = dotted(c.func) or ""
            if d in NAN_MASKING or (isinstance(c.func, ast.Attribute) and c.func.attr in NAN_MASKING_METHODS) or d in ("np.errstate", "np.seterr"):
                hits.append(c)
            # a conversion that is told what to put in place of a missing value: to_numpy(na_value=0), reindex(fill_value=...), nan_to_num(nan=...)
            elif any(k.arg in ("na_value", "fill_value", "nan", "na_rep") and not (isinstance(k.value, ast.Attribute) and k.value.attr in ("nan", "NaN", "NA"))
                     and not (isinstance(k.value, ast.Constant) and k.value.value is None) for k in c.keywords):
                hits.append(c)
        # a masked / indexed store into the array that holds a product of data columns overwrites NaN with a number
        products = set()
        for st in walk_local(f.node):
            if isinstance(st, ast.Assign) and len(st.targets) == 1 and isinstance(st.targets[0], ast.Name):
                v = st.value
                txt = unparse(v)
                if "khatri_rao" in txt or "get_interaction_matrix" in txt or (isinstance(v, ast.BinOp) and isinstance(v.op, ast.Mult)) \
                        or any(isinstance(n, ast.Name) and n.id in products for n in ast.walk(v)) and not isinstance(v, ast.Call):
                    products.add(st.targets[0].id)
        for st in walk_local(f.node):
            if isinstance(st, (ast.Assign, ast.AugAssign)):
                tg = st.targets[0] if isinstance(st, ast.Assign) else st.target
                if isinstance(tg, ast.Subscript) and isinstance(tg.value, ast.Name) and tg.value.id in products \
                        and not isinstance(tg.slice, ast.Constant):
                    hits.append(st)
        obl(rep, f, hits[0] if hits else f.node, "R9.5", not hits, f"{q.split('.', 1)[1]}: no test for / replacement of missing values on the numeric path",
            "", "; ".join(f"`{short(h, 60)}`" for h in hits) + ": missing values are tested for or replaced while a numeric value is turned into "
            "its columns; under 'pass' NaN must reach exactly the columns derived from the missing variable")


NAN_SKIPPING_AGGS = ("mean", "std", "var", "median", "sum", "min", "max")


def r9_6(prog, rep):
    """'pass': complete rows are encoded exactly as under 'drop'.  For center / scale / standardize this holds because their
    statistics skip missing values: np.mean(x) / np.std(x) on a pandas Series dispatch to Series.mean / Series.std (skipna),
    and so do x.mean() / x.std(); the same aggregate on a converted array (np.asarray(x), x.values, x.to_numpy()) does not
    skip them and turns every row into NaN.  Structural part: in Center and Scale every statistic is taken on the argument
    itself or by a nan-aware function."""
    for cq in ("transforms.Center", "transforms.Scale"):
        cls = prog.cls(cq)
        f = cls.methods.get("__call__")
        if f is None:
            raise AnalysisError(f"{cq}.__call__ not found")
        x = f.params[1]
        converted = set()
        for st in walk_local(f.node):
            if isinstance(st, ast.Assign) and len(st.targets) == 1 and isinstance(st.targets[0], ast.Name):
                v = st.value
                d = dotted(v.func) if isinstance(v, ast.Call) else None
                conv = (d in ("np.asarray", "np.array", "np.asanyarray", "np.ascontiguousarray") and v.args and unparse(v.args[0]) in ({x} | converted)) \
                    or (isinstance(v, ast.Attribute) and v.attr == "values" and unparse(v.value) in ({x} | converted)) \
                    or (isinstance(v, ast.Call) and isinstance(v.func, ast.Attribute) and v.func.attr in ("to_numpy", "astype", "ravel", "flatten")
                        and unparse(v.func.value) in ({x} | converted) and v.func.attr == "to_numpy") \
                    or (isinstance(v, ast.Call) and isinstance(v.func, ast.Attribute) and v.func.attr in ("astype", "ravel", "flatten", "copy")
                        and unparse(v.func.value) in converted)
                if conv:
                    converted.add(st.targets[0].id)
        n = 0
        for c in calls_in(f.node, local=False):
            d = dotted(c.func) or ""
            agg = None
            operand = None
            if d.startswith("np.") and d[3:] in NAN_SKIPPING_AGGS and c.args:
                agg, operand = d, c.args[0]
            elif isinstance(c.func, ast.Attribute) and c.func.attr in NAN_SKIPPING_AGGS and not d.startswith("np."):
                agg, operand = f".{c.func.attr}()", c.func.value
            if agg is None:
                continue
            n += 1
            txt = unparse(operand)
            direct_conv = (isinstance(operand, ast.Call) and (dotted(operand.func) or "") in ("np.asarray", "np.array", "np.asanyarray")) \
                or (isinstance(operand, ast.Attribute) and operand.attr == "values") \
                or (isinstance(operand, ast.Call) and isinstance(operand.func, ast.Attribute) and operand.func.attr == "to_numpy")
            bad = txt in converted or direct_conv
            obl(rep, f, c, "R9.6", not bad, f"{cls.name}: `{short(c, 50)}` is taken on the argument itself (pandas skips missing values)", "",
                f"`{short(c, 60)}` aggregates a converted numpy array: a single missing value makes the statistic NaN, so under na_action='pass' "
                "every row of the term is NaN and complete rows are no longer encoded as under 'drop'")
        if n == 0:
            raise AnalysisError(f"R9.6: no location/scale statistic found in {cq}.__call__")


def r9_3(prog, rep):
    from . import C17

    sub = rep.sub()
    C17.r17_6(prog, sub)
    for it in sub.items:
        it = dict(it)
        it["rule"] = "R9.3"
        rep.items.append(it)
        rep.counts["R9.3"] = rep.counts.get("R9.3", 0) + 1


def _reads(fn, expr):
    return any(unparse(n) == expr for n in ast.walk(fn.node))


SET_MUTATORS = ("update", "add", "discard", "remove", "clear", "pop", "difference_update", "intersection_update", "symmetric_difference_update")


def _expand_each(prog, fn, summ, _depth=0):
    """('each', <iterable>, elt, None) contributions whose iterable is put together from pieces - chain(A, B), A + B, a local
    bound once, `[] if c else [x]`, a display [x, y], a helper method returning such a list - are split into one contribution
    per piece; None if a piece is not understood"""
    import copy
    out = set()

    def one(x_node, elt, guard):
        return ("one", elt.replace("$", unparse(x_node)) if unparse(x_node).isidentifier() or "." in unparse(x_node) else elt.replace("$", f"({unparse(x_node)})"), guard)

    def neg(c):
        return f"not ({unparse(c)})"

    def empty(e):
        return isinstance(e, (ast.List, ast.Tuple)) and not e.elts

    def pieces(e, elt, guard, depth=0):
        if depth > 6:
            return None
        if isinstance(e, ast.Call) and dotted(e.func) in ("chain", "itertools.chain", "list", "tuple", "iter") and e.args and not e.keywords:
            res = set()
            for a in e.args:
                r = pieces(a, elt, guard, depth + 1)
                if r is None:
                    return None
                res |= r
            return res
        if isinstance(e, ast.BinOp) and isinstance(e.op, ast.Add):
            a, b = pieces(e.left, elt, guard, depth + 1), pieces(e.right, elt, guard, depth + 1)
            return None if a is None or b is None else a | b
        if isinstance(e, (ast.List, ast.Tuple)):
            res = set()
            for x in e.elts:
                if isinstance(x, ast.Starred):
                    r = pieces(x.value, elt, guard, depth + 1)
                    if r is None:
                        return None
                    res |= r
                else:
                    res.add(one(x, elt, guard))
            return res
        if isinstance(e, ast.IfExp) and guard is None:
            if empty(e.body):
                return pieces(e.orelse, elt, neg(e.test), depth + 1)
            if empty(e.orelse):
                return pieces(e.body, elt, unparse(e.test), depth + 1)
            return None
        if isinstance(e, ast.Name):
            ds = [st.value for st in walk_local(fn.node) if isinstance(st, ast.Assign) and len(st.targets) == 1 and unparse(st.targets[0]) == e.id]
            if len(ds) == 1:
                return pieces(ds[0], elt, guard, depth + 1)
            return None
        if isinstance(e, ast.Call) and isinstance(e.func, ast.Attribute) and unparse(e.func.value) == "self" and not e.args and fn.cls is not None \
                and e.func.attr in fn.cls.methods and _depth < 2:
            # a helper method that returns the list: its body with `return X` read as `return set().union(*[<elt> for $ in X])`
            h = fn.cls.methods[e.func.attr]
            body = copy.deepcopy(h.node)
            rets = [n for n in ast.walk(body) if isinstance(n, ast.Return) and n.value is not None]
            if not rets:
                return None
            for r_ in rets:
                comp = ast.ListComp(elt=ast.parse(elt.replace("$", "u__"), mode="eval").body,
                                    generators=[ast.comprehension(target=ast.Name(id="u__", ctx=ast.Store()), iter=r_.value, ifs=[], is_async=0)])
                r_.value = ast.Call(func=ast.Attribute(value=ast.Call(func=ast.Name(id="set", ctx=ast.Load()), args=[], keywords=[]), attr="union", ctx=ast.Load()),
                                    args=[ast.Starred(value=comp, ctx=ast.Load())], keywords=[])
            ast.fix_missing_locations(body)
            import types as _t
            fake = _t.SimpleNamespace(node=body, qual=h.qual, cls=h.cls, module=h.module, params=h.params)
            sub = shared.union_summary(fake)
            if sub is None:
                return None
            sub = _expand_each(prog, fake, sub, _depth + 1)
            if sub is None or guard is not None:
                return None
            return set(sub)
        if isinstance(e, (ast.Attribute, ast.Call)):
            return {("each", unparse(e), elt, guard)} if guard is None else None
        return None

    for c in summ:
        if c[0] == "each" and c[3] is None:
            try:
                node = ast.parse(c[1], mode="eval").body
            except SyntaxError:
                out.add(c)
                continue
            r = pieces(node, c[2], None)
            if r is None:
                return None
            out |= r
        else:
            out.add(c)
    return frozenset(out)


def _var_names_not_mutated(prog, rep, rule):
    """the set of used variables is recomputed on every call: an in-place update of a `<object>.var_names` result is harmless
    only while every implementation of var_names hands out a set of its own (a shared one would accumulate the variables of
    other terms, other designs - their missing values would then filter rows of a formula that does not mention them)"""
    from .. import dataflow as DF

    impls = {}   # class qual -> 'fresh' | reason it is not
    for cq, cls in sorted(prog.classes.items()):
        if "var_names" in cls.class_attrs:
            impls[cq] = f"`{cls.name}.var_names` is a class attribute (`{short(cls.class_attrs['var_names'], 30)}`): one object shared by every instance"
            continue
        m = cls.methods.get("var_names")
        if m is None:
            continue
        impls[cq] = m
    FRESH_CALLS = ("set", "frozenset", "sorted", "list")

    def fresh(e, f, seen):
        """the value of e is a set no other object holds"""
        if isinstance(e, (ast.Set, ast.SetComp)):
            return True, ""
        if isinstance(e, ast.Call):
            d = dotted(e.func) or ""
            if d in FRESH_CALLS:
                return True, ""
            if isinstance(e.func, ast.Attribute) and e.func.attr in ("copy", "union", "intersection", "difference", "symmetric_difference"):
                return True, ""
        if isinstance(e, ast.BinOp) and isinstance(e.op, (ast.BitOr, ast.BitAnd, ast.Sub, ast.BitXor)):
            return True, ""
        if isinstance(e, ast.Attribute) and e.attr == "var_names":
            for cq, m in impls.items():
                if isinstance(m, str):
                    return False, m
                if m.qual in seen:
                    continue
                rets = [n for n in walk_local(m.node) if isinstance(n, ast.Return) and n.value is not None]
                if not rets:
                    return False, f"{m.qual} has no return"
                for r_ in rets:
                    ok, why = fresh(r_.value, m, seen | {m.qual})
                    if not ok:
                        return False, why
            return True, ""
        if isinstance(e, ast.Name):
            defs = [st_.value for st_ in walk_local(f.node) if isinstance(st_, ast.Assign) and len(st_.targets) == 1
                    and isinstance(st_.targets[0], ast.Name) and st_.targets[0].id == e.id]
            if not defs:
                return False, f"`{e.id}` is not created in {f.qual}"
            for d_ in defs:
                ok, why = fresh(d_, f, seen)
                if not ok:
                    return False, why
            return True, ""
        if isinstance(e, ast.IfExp):
            for arm in (e.body, e.orelse):
                ok, why = fresh(arm, f, seen)
                if not ok:
                    return False, why
            return True, ""
        return False, f"`{short(e, 40)}` is held by another object"

    n = 0
    for q, f in sorted(prog.functions.items()):
        touches = any(isinstance(x, ast.Attribute) and x.attr == "var_names" for x in ast.walk(f.node)) or f.name == "var_names"
        if not touches:
            continue
        for node, target, kind, _root in DF.inplace_sites(f):
            if not (kind in ("augmented assignment",) or kind.strip(".()") in SET_MUTATORS):
                continue
            base = target
            while isinstance(base, ast.Subscript):
                base = base.value
            # only sets that (may) come from a var_names read
            src = base
            if isinstance(base, ast.Name):
                defs = [st_.value for st_ in walk_local(f.node) if isinstance(st_, ast.Assign) and len(st_.targets) == 1
                        and isinstance(st_.targets[0], ast.Name) and st_.targets[0].id == base.id]
                if not any(isinstance(x, ast.Attribute) and x.attr == "var_names" for d_ in defs for x in ast.walk(d_)) and f.name != "var_names":
                    continue
            elif not (isinstance(base, ast.Attribute) and base.attr == "var_names"):
                continue
            n += 1
            ok, why = fresh(src, f, frozenset())
            obl(rep, f, node, rule, ok, f"`{short(node, 60)}` updates a set of its own", kind,
                f"in-place update ({kind}) of a set of used variables that is not created here: {why}. The names of one term end up in a "
                "set that other terms, later calls and other designs read: columns the formula does not mention are then selected and "
                "their missing values drop (or reject) rows")
    for cq, m in impls.items():
        if isinstance(m, str):
            cls = prog.classes[cq]
            rep.check(True, rule, cls.where, cq, "var_names as a class attribute", m, nontrivial=False)
    return n


def r9_4(prog, rep, rule="R9.4"):
    f = prog.fn("terms.terms.Model.var_names")
    summ = shared.union_summary(f)
    if summ is not None:
        summ = _expand_each(prog, f, summ)
    modelled = summ is not None
    if summ is None:
        rep.defer(f"{rule}: {f.qual} builds its set in a way the union algebra does not model")
        summ = frozenset()
    each = {c for c in summ if c[0] == "each"}
    obl(rep, f, f.node, rule, not modelled or (("each", "self.terms", "$.var_names", None) in each and len(each) == 1),
        "Model.var_names collects from every term in self.terms", f"contributions {sorted(map(str, summ))}",
        f"Model.var_names does not unite the variables of all of self.terms, unfiltered: contributions {sorted(map(str, summ))}")
    t = prog.fn("terms.terms.Model.terms")
    rets = [n for n in walk_local(t.node) if isinstance(n, ast.Return)]
    obl(rep, t, t.node, rule, len(rets) == 1 and unparse(rets[0].value) in ("self.common_terms + self.group_terms", "self.group_terms + self.common_terms"),
        "Model.terms = common terms + group-specific terms", unparse(rets[0].value) if rets else "",
        f"Model.terms returns `{unparse(rets[0].value) if rets else None}`: variables of some terms are not counted as used")
    resp = {c for c in summ if c[0] == "one" and c[1] == "self.response.var_names"}
    okr = len(resp) == 1 and next(iter(resp))[2] in ("self.response is not None", "self.response", "not (self.response is None)", "not (not self.response)")
    obl(rep, f, f.node, rule, okr or not modelled, "Model.var_names includes the response's variables", "",
        "the response is not counted as a used variable (its missing values would not be filtered)")
    obl(rep, f, f.node, rule, len(summ) == 2 or not okr, "Model.var_names returns exactly those two contributions", nontrivial=False)
    g = prog.fn("terms.terms.GroupSpecificTerm.var_names")
    sg = shared.union_summary(g)
    if sg is None:
        rep.defer(f"{rule}: {g.qual} builds its set in a way the union algebra does not model")
    obl(rep, g, g.node, rule, sg is None or sg == frozenset({("one", "self.expr.var_names", None), ("one", "self.factor.var_names", None)}),
        "GroupSpecificTerm.var_names = variables of the effect united with those of the factor", str(sorted(map(str, sg or []))),
        f"GroupSpecificTerm.var_names omits the effect or the grouping factor: contributions {sorted(map(str, sg or []))}")
    tt = prog.fn("terms.terms.Term.var_names")
    st = shared.union_summary(tt)
    if st is None:
        rep.defer(f"{rule}: {tt.qual} builds its set in a way the union algebra does not model")
    obl(rep, tt, tt.node, rule, st is None or st == frozenset({("each", "self.components", "$.var_names", None)}),
        "Term.var_names unions over all components, unfiltered", str(sorted(map(str, st or []))),
        f"Term.var_names does not cover every component of an interaction: contributions {sorted(map(str, st or []))}")
    r = prog.fn("terms.terms.Response.var_names")
    rets = [n for n in walk_local(r.node) if isinstance(n, ast.Return)]
    obl(rep, r, r.node, rule, len(rets) == 1 and unparse(rets[0].value) == "self.term.var_names", "Response.var_names delegates to its term")
    v = prog.fn("terms.variable.Variable.var_names")
    rets = [n for n in walk_local(v.node) if isinstance(n, ast.Return)]
    obl(rep, v, v.node, rule, len(rets) == 1 and unparse(rets[0].value) == "{self.name}", "Variable.var_names = {name}")
    cv = prog.fn("terms.call.Call.var_names")
    rets = [n for n in walk_local(cv.node) if isinstance(n, ast.Return)]
    obl(rep, cv, cv.node, rule, len(rets) == 1 and unparse(rets[0].value) == "set(CallVarsExtractor(self).get())",
        "Call.var_names walks the call tree with CallVarsExtractor")
    _var_names_not_mutated(prog, rep, rule)
    # visitor coverage, from the inferred field types
    te = TypeEngine(prog)
    ext = prog.cls("terms.call_utils.CallVarsExtractor")
    lazies = [q for q in prog.classes if q.startswith("formulae.terms.call_resolver.Lazy")]
    if len(lazies) < 4:
        raise AnalysisError("fewer than 4 Lazy* classes found")

    def has_lazy(atoms, depth=0):
        for a in atoms:
            if a[0] == "inst" and a[1] in lazies:
                return True
            if a[0] in ("list", "dict") and has_lazy(a[1], depth + 1):
                return True
            if a[0] == "tuple" and any(has_lazy(p, depth + 1) for p in a[1]):
                return True
        return False

    for q in sorted(lazies):
        cls = prog.classes[q]
        acc = cls.methods.get("accept")
        target = None
        if acc is not None:
            target = te._trampoline(acc)
        ok = target is not None and target in ext.methods
        rep.check(ok, rule, cls.where, cls.qual, f"{cls.name}.accept -> {target}, defined by CallVarsExtractor", "",
                  f"CallVarsExtractor has no {target}: variables under a {cls.name} node are not counted as used")
        if not ok:
            continue
        vm = ext.methods[target]
        p = vm.params[1]
        child_fields = sorted(f for (c_, f), t in te.field_types.items() if c_ == q and has_lazy(t))
        for fld in child_fields:
            reads = [n for n in ast.walk(vm.node) if isinstance(n, ast.Attribute) and n.attr == fld and unparse(n.value) == p]
            visited = False
            for n in ast.walk(vm.node):
                if isinstance(n, (ast.ListComp, ast.GeneratorExp)):
                    it_ = n.generators[0].iter
                    if isinstance(it_, ast.Name):
                        # a local bound once to the collection(s)
                        ds_ = [x.value for x in walk_local(vm.node) if isinstance(x, ast.Assign) and len(x.targets) == 1 and unparse(x.targets[0]) == it_.id]
                        if len(ds_) == 1:
                            it_ = ds_[0]
                    # the iterable may be a concatenation / chain of several child collections
                    parts = [it_]
                    if isinstance(it_, ast.Call) and (dotted(it_.func) or "").split(".")[-1] == "chain" and not it_.keywords:
                        parts = list(it_.args)
                    elif isinstance(it_, ast.BinOp) and isinstance(it_.op, ast.Add):
                        parts = []
                        stack_ = [it_]
                        while stack_:
                            y = stack_.pop()
                            if isinstance(y, ast.BinOp) and isinstance(y.op, ast.Add):
                                stack_ += [y.right, y.left]
                            else:
                                parts.append(y)
                    srcs = set()
                    for y in parts:
                        if isinstance(y, ast.Call) and dotted(y.func) in ("list", "tuple") and len(y.args) == 1:
                            y = y.args[0]
                        srcs.add(unparse(y))
                    if srcs & {f"{p}.{fld}", f"{p}.{fld}.values()"} and not n.generators[0].ifs and len(n.generators) == 1 \
                            and unparse(n.elt) == f"{unparse(n.generators[0].target)}.accept(self)":
                        visited = True
            obl(rep, vm, vm.node, rule, bool(reads) and visited,
                f"{target} visits every child in `{cls.name}.{fld}`", "child-bearing field derived from the inferred field types",
                f"{target} does not traverse `{cls.name}.{fld}`: variables used there (e.g. keyword arguments) are not selected, "
                "their missing values are ignored and the lookup may fail")
        # the results of all traversed fields are returned
        rets = [n for n in walk_local(vm.node) if isinstance(n, ast.Return)]
        obl(rep, vm, vm.node, rule, len(rets) == 1 and not cfg_of(vm).falls_off(), f"{target} returns its findings", nontrivial=False)
    # leaf: variable name
    lv = ext.methods.get("visitLazyVariable")
    rets = [n for n in walk_local(lv.node) if isinstance(n, ast.Return)] if lv else []
    obl(rep, lv, lv.node, rule, len(rets) == 1 and unparse(rets[0].value) == f"{lv.params[1]}.name",
        "visitLazyVariable returns the variable's name")
    lval = ext.methods.get("visitLazyValue")
    rets = [n for n in walk_local(lval.node) if isinstance(n, ast.Return)] if lval else []
    ok = len(rets) == 1 and isinstance(rets[0].value, (ast.Constant, ast.List)) and (not isinstance(rets[0].value, ast.List) or not rets[0].value.elts) \
        and (not isinstance(rets[0].value, ast.Constant) or rets[0].value.value in ("", None))
    obl(rep, lval, lval.node if lval else ext.node, rule, ok, "visitLazyValue contributes no variable name (a literal is not a column)",
        unparse(rets[0].value) if rets else "",
        f"visitLazyValue returns `{unparse(rets[0].value) if rets else None}`: a string literal in a call (e.g. binary(g, 'c')) is counted as a used "
        "variable, so an unrelated column of that name enters the missing-value filter")
    # results of visitLazyCall: both lists are returned
    vc = ext.methods["visitLazyCall"]
    rets = [n for n in walk_local(vc.node) if isinstance(n, ast.Return)]
    names = {n.id for n in ast.walk(rets[0].value) if isinstance(n, ast.Name)} if rets else set()
    defs = {unparse(s.targets[0]) for s in walk_local(vc.node) if isinstance(s, ast.Assign)}
    okc = bool(defs) and defs <= names
    if not okc and rets:
        # by data flow: every list of findings (a value built from `.accept(self)` visits) reaches the returned value, through
        # whatever temporaries, loops and list operations lie in between
        edges = {}
        for st in ast.walk(vc.node):
            srcs, dsts = set(), set()
            if isinstance(st, (ast.Assign, ast.AugAssign, ast.AnnAssign)):
                tg = st.targets if isinstance(st, ast.Assign) else [st.target]
                dsts = {n.id for t_ in tg for n in ast.walk(t_) if isinstance(n, ast.Name)}
                srcs = {n.id for n in ast.walk(st.value) if isinstance(n, ast.Name)} if st.value is not None else set()
                if isinstance(st, ast.AugAssign):
                    srcs |= dsts
            elif isinstance(st, (ast.For, ast.comprehension)):
                dsts = {n.id for n in ast.walk(st.target) if isinstance(n, ast.Name)}
                srcs = {n.id for n in ast.walk(st.iter) if isinstance(n, ast.Name)}
            elif isinstance(st, ast.Call) and isinstance(st.func, ast.Attribute) and st.func.attr in ("append", "extend", "insert", "update", "add"):
                b_ = st.func.value
                while isinstance(b_, (ast.Attribute, ast.Subscript)):
                    b_ = b_.value
                if isinstance(b_, ast.Name):
                    dsts = {b_.id}
                    srcs = {n.id for a_ in st.args for n in ast.walk(a_) if isinstance(n, ast.Name)}
            for u in srcs:
                edges.setdefault(u, set()).update(dsts)
        found = {unparse(s_.targets[0]) for s_ in walk_local(vc.node) if isinstance(s_, ast.Assign) and isinstance(s_.targets[0], ast.Name)
                 and any(isinstance(c_, ast.Call) and isinstance(c_.func, ast.Attribute) and c_.func.attr == "accept" for c_ in ast.walk(s_.value))}

        def reaches(u):
            seen, work = set(), [u]
            while work:
                x = work.pop()
                if x in names:
                    return True
                if x in seen:
                    continue
                seen.add(x)
                work.extend(edges.get(x, ()))
            return False

        okc = len(found) >= 2 and all(reaches(u) for u in found)
    obl(rep, vc, vc.node, rule, okc, "visitLazyCall returns the names from positional and keyword arguments",
        f"returned: {sorted(names)}", f"visitLazyCall computes {sorted(defs)} but returns only {sorted(names)}")
    # ... and from nothing else: the callee is a function (or a module path), not a column - its name, or a part of it, counted
    # as a used variable would pull an unrelated column of that name into the missing-value filter
    pc = vc.params[1]
    reads_ = {n.attr for n in ast.walk(vc.node) if isinstance(n, ast.Attribute) and isinstance(n.value, ast.Name) and n.value.id == pc}
    obl(rep, vc, vc.node, rule, reads_ <= {"args", "kwargs"}, "visitLazyCall takes names from the arguments only (never from the callee)",
        f"fields read: {sorted(reads_)}", f"visitLazyCall also reads {sorted(reads_ - {'args', 'kwargs'})} of the call: the callee's name becomes a used variable")
    # back-quoted names are stripped identically
    forms = {}
    for q in ("resolver.Resolver.visitQuotedNameExpr", "terms.call_resolver.CallResolver.visitQuotedNameExpr",
              "terms.call_utils.CallVarsExtractor.visitQuotedNameExpr"):
        f = prog.fn(q)
        subs = [unparse(n) for n in ast.walk(f.node) if isinstance(n, ast.Subscript) and isinstance(n.slice, ast.Slice)]
        forms[q] = [s.replace(f.params[1], "expr") for s in subs]
    vals = list(forms.values())
    ok = all(v == vals[0] for v in vals) and vals[0] == ["expr.expression.lexeme[1:-1]"]
    f = prog.fn("terms.call_resolver.CallResolver.visitQuotedNameExpr")
    obl(rep, f, f.node, rule, ok, "back-quoted names are stripped by the same [1:-1] where they are resolved and where they are counted",
        str(vals[0]), f"back-quote stripping differs between the resolvers and the extractor: {forms}")


from ..core import guard_rules  # noqa: E402

guard_rules(globals())

"""C09 - missing-value policy: skeleton and the "used variables" computation (R9.1 .. R9.4)."""
import ast

from ..core import (
    AnalysisError,
    obl,
    unparse,
    short,
    dotted,
    is_str_const,
    is_self_attr,
    walk_local,
    calls_in,
    block_raises,
)
from ..cfg import cfg_of
from ..types import TypeEngine
from . import shared

EXPLANATION = (
    "R9.1 the na_action argument is validated against a literal set by a raising guard that dominates every "
    "effect of design_matrices, and the later if/elif/else handles each validated literal (pass: data not "
    "re-bound; drop: data re-bound to data[~incomplete_rows]; the remaining literal: raise ValueError), the whole "
    "chain being guarded by 'at least one incomplete row'. R9.2 the NA mask is computed on the frame produced by "
    "the var_names column selection, before anything is evaluated, and the filtered frame is the one handed to "
    "DesignMatrices. R9.3 one frame reaches the response, common and group matrices. R9.4 var_names is complete: "
    "holder coverage (Model reads common, group and response; GroupSpecificTerm reads expr and factor; Term "
    "unions all components) and visitor coverage (CallVarsExtractor defines a visit method for every lazy node "
    "class and reads every child-bearing field, derived from the inferred field types), and back-quoted names "
    "are stripped identically where they are resolved and where they are counted as used."
)
ASSUMPTIONS = [
    "pandas: DataFrame.isna().any(axis=1) marks rows with a missing value; boolean indexing with the mask of the same frame is positional",
    "where NaN lands under 'pass' and equality with the reduced-frame run are runtime relations and are not decided",
]


def run(prog, rep, tier):
    dm = prog.fn("matrices.design_matrices")
    r9_1(prog, rep, dm)
    r9_2(prog, rep, dm)
    r9_3(prog, rep)
    r9_4(prog, rep)
    rep.floor("R9.1", 7)
    rep.floor("R9.2", 5)
    rep.floor("R9.4", 12)


def _count_positive(test, var):
    """`var > 0`, `var >= 1`, `var != 0`, `0 < var`, bare `var`"""
    t = unparse(test)
    return t in (f"{var} > 0", f"{var} >= 1", f"{var} != 0", f"0 < {var}", f"1 <= {var}", var, f"0 != {var}", f"bool({var})")


def r9_1(prog, rep, dm):
    c = cfg_of(dm)
    # validation guard
    guard = None
    for i in dm.body:
        if isinstance(i, ast.If) and block_raises(i.body) and isinstance(i.test, ast.Compare) and unparse(i.test.left) == "na_action" \
                and isinstance(i.test.ops[0], ast.NotIn) and isinstance(i.test.comparators[0], (ast.List, ast.Tuple, ast.Set)) \
                and all(is_str_const(e) for e in i.test.comparators[0].elts):
            guard = i
    obl(rep, dm, guard or dm.node, "R9.1", guard is not None, "a raising membership guard validates na_action against a literal set",
        unparse(guard.test) if guard else "", "na_action is not validated: any other value is silently treated as one of the policies")
    if guard is None:
        return
    valid = [e.value for e in guard.test.comparators[0].elts]
    obl(rep, dm, guard, "R9.1", sorted(valid) == ["drop", "error", "pass"], f"validated literals are exactly drop/error/pass", str(valid),
        f"na_action accepts {valid}")
    gn = c.node_of(guard)
    effects = [x for x in calls_in(dm.node) if dotted(x.func) in ("model_description", "DesignMatrices", "Environment.capture")]
    effects += [s for s in walk_local(dm.node) if isinstance(s, ast.Assign) and unparse(s.targets[0]) == "data"]
    ok = all(c.dominates(gn, c.node_of(e)) for e in effects) and len(effects) >= 4
    obl(rep, dm, guard, "R9.1", ok, "the validation guard dominates parsing, environment capture, every re-binding of data and the design construction")
    # the policy chain
    chains = [i for i in walk_local(dm.node) if isinstance(i, ast.If) and isinstance(i.test, ast.Compare)
              and unparse(i.test.left) == "na_action" and isinstance(i.test.ops[0], ast.Eq) and is_str_const(i.test.comparators[0])]
    heads = [i for i in chains if not any(i in getattr(j, "orelse", []) for j in chains)]
    if len(heads) != 1:
        raise AnalysisError("design_matrices: expected one if/elif chain on na_action")
    node = heads[0]
    handled = {}
    default = None
    while True:
        handled[node.test.comparators[0].value] = node.body
        if len(node.orelse) == 1 and isinstance(node.orelse[0], ast.If) and node.orelse[0] in chains:
            node = node.orelse[0]
        else:
            default = node.orelse
            break
    unknown = sorted(set(handled) - set(valid))
    obl(rep, dm, heads[0], "R9.1", not unknown, "every literal compared with na_action is a validated value", str(sorted(handled)),
        f"literal(s) {unknown} are compared with na_action but can never pass validation (dead policy branch / typo)")
    rest = sorted(set(valid) - set(handled))
    ok = (len(rest) == 1 and default and block_raises(default)) or (not rest and not default)
    obl(rep, dm, heads[0], "R9.1", ok,
        f"the chain is exhaustive: handled {sorted(handled)}; remaining literal {rest} falls into the final else",
        "", f"validated value(s) {rest} are not handled by exactly one final else branch")

    def rebinds(body):
        return [s for s in body for n in ast.walk(s) if isinstance(n, ast.Assign) and any(unparse(t) == "data" for t in n.targets)]

    if "pass" in handled:
        obl(rep, dm, heads[0], "R9.1", not rebinds(handled["pass"]), "'pass': data is not re-bound (all rows kept, in order)", "",
            "'pass' re-binds data: rows are dropped or reordered")
    if "drop" in handled:
        rb = rebinds(handled["drop"])
        vals = [unparse(n.value) for s in handled["drop"] for n in ast.walk(s) if isinstance(n, ast.Assign) and any(unparse(t) == "data" for t in n.targets)]
        ok = vals in (["data[~incomplete_rows]"], ["data.loc[~incomplete_rows]"], ["data[~incomplete_rows].copy()"])
        obl(rep, dm, heads[0], "R9.1", ok, "'drop': data is re-bound to data[~incomplete_rows]", str(vals),
            f"'drop' re-binds data to {vals}: not exactly the incomplete rows are removed")
    if "error" in handled:
        obl(rep, dm, heads[0], "R9.1", block_raises(handled["error"]), "'error': raises")
    elif rest == ["error"]:
        r = [n for n in ast.walk(ast.Module(body=default, type_ignores=[])) if isinstance(n, ast.Raise)]
        ok = bool(r) and dotted(r[0].exc.func) == "ValueError"
        obl(rep, dm, default[0], "R9.1", ok, "'error' (the remaining literal): raise ValueError")
    # the chain is guarded by "at least one incomplete row"
    outer = [i for i in walk_local(dm.node) if isinstance(i, ast.If) and any(heads[0] is s for s in i.body)]
    ok = len(outer) == 1
    cnt = None
    if ok:
        cands = [s for s in walk_local(dm.node) if isinstance(s, ast.Assign) and isinstance(s.targets[0], ast.Name)
                 and unparse(s.value) in ("incomplete_rows.sum()", "int(incomplete_rows.sum())", "incomplete_rows.values.sum()")]
        ok = len(cands) == 1 and _count_positive(outer[0].test, cands[0].targets[0].id) and not outer[0].orelse
        cnt = unparse(outer[0].test)
    obl(rep, dm, outer[0] if outer else heads[0], "R9.1", ok,
        "the policy chain runs iff at least one row is incomplete ('error' raises iff such a row exists)", str(cnt),
        f"the policy chain is guarded by `{cnt}`: 'error' no longer raises exactly when an incomplete row exists")


def r9_2(prog, rep, dm):
    c = cfg_of(dm)
    assigns = [s for s in walk_local(dm.node) if isinstance(s, ast.Assign) and unparse(s.targets[0]) == "data"]
    sel = [s for s in assigns if unparse(s.value) in ("data[list(cols_to_select)]", "data[sorted(cols_to_select)]", "data.loc[:, list(cols_to_select)]")]
    ok = len(sel) == 1
    obl(rep, dm, sel[0] if sel else dm.node, "R9.2", ok, "data is re-bound to the columns the formula uses", "",
        "no column selection `data = data[list(cols_to_select)]` found")
    if not ok:
        return
    cs = [s for s in walk_local(dm.node) if isinstance(s, ast.Assign) and unparse(s.targets[0]) == "cols_to_select"]
    ok = len(cs) == 1 and unparse(cs[0].value) in ("description.var_names.intersection(set(data.columns))",
                                                    "description.var_names & set(data.columns)",
                                                    "set(data.columns).intersection(description.var_names)")
    obl(rep, dm, cs[0] if cs else dm.node, "R9.2", ok, "the selected columns are description.var_names intersected with the frame's columns",
        unparse(cs[0].value) if cs else "", f"cols_to_select = {unparse(cs[0].value) if cs else None}")
    ds = [s for s in walk_local(dm.node) if isinstance(s, ast.Assign) and unparse(s.targets[0]) == "description"]
    ok = len(ds) == 1 and unparse(ds[0].value) == "model_description(formula)"
    obl(rep, dm, ds[0] if ds else dm.node, "R9.2", ok, "description is model_description(formula) of this very call")
    isna = [x for x in calls_in(dm.node) if isinstance(x.func, ast.Attribute) and x.func.attr in ("isna", "isnull")]
    ok = len(isna) == 1 and unparse(isna[0].func.value) == "data"
    if ok:
        # the only definition of `data` reaching isna is the column selection
        n_is = c.node_of(isna[0])
        n_sel = c.node_of(sel[0])
        others = [c.node_of(s) for s in assigns if s is not sel[0]]
        ok = c.dominates(n_sel, n_is) and not any(o in c.reachable(n_sel) and n_is in c.reachable(o) and c.dominates(n_sel, o) for o in others)
    obl(rep, dm, isna[0] if isna else dm.node, "R9.2", ok,
        "the missing-value mask is computed on the column-subset frame (missing values in unused columns are ignored)",
        "", "isna() is applied to a frame other than the var_names selection")
    m = [s for s in walk_local(dm.node) if isinstance(s, ast.Assign) and unparse(s.targets[0]) == "incomplete_rows"]
    ok = len(m) == 1 and unparse(m[0].value) in ("data.isna().any(axis=1)", "data.isnull().any(axis=1)", "data.isna().any(axis='columns')")
    obl(rep, dm, m[0] if m else dm.node, "R9.2", ok, "a row is incomplete iff any used column is missing (any over axis=1)",
        unparse(m[0].value) if m else "", f"incomplete_rows = {unparse(m[0].value) if m else None}")
    # the design is built after the policy was applied, from `data`
    cons = [x for x in calls_in(dm.node) if dotted(x.func) == "DesignMatrices"]
    ok = len(cons) == 1 and [unparse(a) for a in cons[0].args] == ["description", "data", "env"]
    if ok:
        pol = [i for i in walk_local(dm.node) if isinstance(i, ast.If) and "incomplete_rows_n" in unparse(i.test)]
        ok = bool(pol) and c.dominates(c.node_of(pol[0]), c.node_of(cons[0])) and c.dominates(c.node_of(sel[0]), c.node_of(cons[0]))
    obl(rep, dm, cons[0] if cons else dm.node, "R9.2", ok,
        "DesignMatrices(description, data, env) is constructed after the column selection and the policy chain")
    # nothing is evaluated before: no .eval/.set_type/.evaluate call in design_matrices itself
    early = [x for x in calls_in(dm.node) if isinstance(x.func, ast.Attribute) and x.func.attr in ("eval", "evaluate", "set_type", "set_data", "set_types")]
    obl(rep, dm, early[0] if early else dm.node, "R9.2", not early, "design_matrices evaluates no term before the row filter")


def r9_3(prog, rep):
    from . import C17

    sub = type(rep)(rep.prop)
    C17.r17_6(prog, sub)
    for it in sub.items:
        it = dict(it)
        it["rule"] = "R9.3"
        rep.items.append(it)
        rep.counts["R9.3"] = rep.counts.get("R9.3", 0) + 1


def _reads(fn, expr):
    return any(unparse(n) == expr for n in ast.walk(fn.node))


def r9_4(prog, rep, rule="R9.4"):
    f = prog.fn("terms.terms.Model.var_names")
    summ = shared.union_summary(f)
    if summ is None:
        rep.defer(f"{rule}: {f.qual} builds its set in a way the union algebra does not model")
        summ = frozenset()
    each = {c for c in summ if c[0] == "each"}
    obl(rep, f, f.node, rule, ("each", "self.terms", "$.var_names", None) in each and len(each) == 1,
        "Model.var_names collects from every term in self.terms", f"contributions {sorted(map(str, summ))}",
        f"Model.var_names does not unite the variables of all of self.terms, unfiltered: contributions {sorted(map(str, summ))}")
    t = prog.fn("terms.terms.Model.terms")
    rets = [n for n in walk_local(t.node) if isinstance(n, ast.Return)]
    obl(rep, t, t.node, rule, len(rets) == 1 and unparse(rets[0].value) in ("self.common_terms + self.group_terms", "self.group_terms + self.common_terms"),
        "Model.terms = common terms + group-specific terms", unparse(rets[0].value) if rets else "",
        f"Model.terms returns `{unparse(rets[0].value) if rets else None}`: variables of some terms are not counted as used")
    resp = {c for c in summ if c[0] == "one" and c[1] == "self.response.var_names"}
    okr = len(resp) == 1 and next(iter(resp))[2] in ("self.response is not None", "self.response", "not (self.response is None)", "not (not self.response)")
    obl(rep, f, f.node, rule, okr, "Model.var_names includes the response's variables", "",
        "the response is not counted as a used variable (its missing values would not be filtered)")
    obl(rep, f, f.node, rule, len(summ) == 2 or not okr, "Model.var_names returns exactly those two contributions", nontrivial=False)
    g = prog.fn("terms.terms.GroupSpecificTerm.var_names")
    sg = shared.union_summary(g)
    if sg is None:
        rep.defer(f"{rule}: {g.qual} builds its set in a way the union algebra does not model")
    obl(rep, g, g.node, rule, sg is None or sg == frozenset({("one", "self.expr.var_names", None), ("one", "self.factor.var_names", None)}),
        "GroupSpecificTerm.var_names = variables of the effect united with those of the factor", str(sorted(map(str, sg or []))),
        f"GroupSpecificTerm.var_names omits the effect or the grouping factor: contributions {sorted(map(str, sg or []))}")
    tt = prog.fn("terms.terms.Term.var_names")
    st = shared.union_summary(tt)
    if st is None:
        rep.defer(f"{rule}: {tt.qual} builds its set in a way the union algebra does not model")
    obl(rep, tt, tt.node, rule, st is None or st == frozenset({("each", "self.components", "$.var_names", None)}),
        "Term.var_names unions over all components, unfiltered", str(sorted(map(str, st or []))),
        f"Term.var_names does not cover every component of an interaction: contributions {sorted(map(str, st or []))}")
    r = prog.fn("terms.terms.Response.var_names")
    rets = [n for n in walk_local(r.node) if isinstance(n, ast.Return)]
    obl(rep, r, r.node, rule, len(rets) == 1 and unparse(rets[0].value) == "self.term.var_names", "Response.var_names delegates to its term")
    v = prog.fn("terms.variable.Variable.var_names")
    rets = [n for n in walk_local(v.node) if isinstance(n, ast.Return)]
    obl(rep, v, v.node, rule, len(rets) == 1 and unparse(rets[0].value) == "{self.name}", "Variable.var_names = {name}")
    cv = prog.fn("terms.call.Call.var_names")
    rets = [n for n in walk_local(cv.node) if isinstance(n, ast.Return)]
    obl(rep, cv, cv.node, rule, len(rets) == 1 and unparse(rets[0].value) == "set(CallVarsExtractor(self).get())",
        "Call.var_names walks the call tree with CallVarsExtractor")
    # visitor coverage, from the inferred field types
    te = TypeEngine(prog)
    ext = prog.cls("terms.call_utils.CallVarsExtractor")
    lazies = [q for q in prog.classes if q.startswith("formulae.terms.call_resolver.Lazy")]
    if len(lazies) < 4:
        raise AnalysisError("fewer than 4 Lazy* classes found")

    def has_lazy(atoms, depth=0):
        for a in atoms:
            if a[0] == "inst" and a[1] in lazies:
                return True
            if a[0] in ("list", "dict") and has_lazy(a[1], depth + 1):
                return True
            if a[0] == "tuple" and any(has_lazy(p, depth + 1) for p in a[1]):
                return True
        return False

    for q in sorted(lazies):
        cls = prog.classes[q]
        acc = cls.methods.get("accept")
        target = None
        if acc is not None:
            target = te._trampoline(acc)
        ok = target is not None and target in ext.methods
        rep.check(ok, rule, cls.where, cls.qual, f"{cls.name}.accept -> {target}, defined by CallVarsExtractor", "",
                  f"CallVarsExtractor has no {target}: variables under a {cls.name} node are not counted as used")
        if not ok:
            continue
        vm = ext.methods[target]
        p = vm.params[1]
        child_fields = sorted(f for (c_, f), t in te.field_types.items() if c_ == q and has_lazy(t))
        for fld in child_fields:
            reads = [n for n in ast.walk(vm.node) if isinstance(n, ast.Attribute) and n.attr == fld and unparse(n.value) == p]
            visited = False
            for n in ast.walk(vm.node):
                if isinstance(n, (ast.ListComp, ast.GeneratorExp)):
                    src = unparse(n.generators[0].iter)
                    if src in (f"{p}.{fld}", f"{p}.{fld}.values()") and unparse(n.elt) == f"{unparse(n.generators[0].target)}.accept(self)":
                        visited = True
            obl(rep, vm, vm.node, rule, bool(reads) and visited,
                f"{target} visits every child in `{cls.name}.{fld}`", "child-bearing field derived from the inferred field types",
                f"{target} does not traverse `{cls.name}.{fld}`: variables used there (e.g. keyword arguments) are not selected, "
                "their missing values are ignored and the lookup may fail")
        # the results of all traversed fields are returned
        rets = [n for n in walk_local(vm.node) if isinstance(n, ast.Return)]
        obl(rep, vm, vm.node, rule, len(rets) == 1 and not cfg_of(vm).falls_off(), f"{target} returns its findings", nontrivial=False)
    # leaf: variable name
    lv = ext.methods.get("visitLazyVariable")
    rets = [n for n in walk_local(lv.node) if isinstance(n, ast.Return)] if lv else []
    obl(rep, lv, lv.node, rule, len(rets) == 1 and unparse(rets[0].value) == f"{lv.params[1]}.name",
        "visitLazyVariable returns the variable's name")
    lval = ext.methods.get("visitLazyValue")
    rets = [n for n in walk_local(lval.node) if isinstance(n, ast.Return)] if lval else []
    ok = len(rets) == 1 and isinstance(rets[0].value, (ast.Constant, ast.List)) and (not isinstance(rets[0].value, ast.List) or not rets[0].value.elts) \
        and (not isinstance(rets[0].value, ast.Constant) or rets[0].value.value in ("", None))
    obl(rep, lval, lval.node if lval else ext.node, rule, ok, "visitLazyValue contributes no variable name (a literal is not a column)",
        unparse(rets[0].value) if rets else "",
        f"visitLazyValue returns `{unparse(rets[0].value) if rets else None}`: a string literal in a call (e.g. binary(g, 'c')) is counted as a used "
        "variable, so an unrelated column of that name enters the missing-value filter")
    # results of visitLazyCall: both lists are returned
    vc = ext.methods["visitLazyCall"]
    rets = [n for n in walk_local(vc.node) if isinstance(n, ast.Return)]
    names = {n.id for n in ast.walk(rets[0].value) if isinstance(n, ast.Name)} if rets else set()
    defs = {unparse(s.targets[0]) for s in walk_local(vc.node) if isinstance(s, ast.Assign)}
    obl(rep, vc, vc.node, rule, bool(defs) and defs <= names, "visitLazyCall returns the names from positional and keyword arguments",
        f"returned: {sorted(names)}", f"visitLazyCall computes {sorted(defs)} but returns only {sorted(names)}")
    # back-quoted names are stripped identically
    forms = {}
    for q in ("resolver.Resolver.visitQuotedNameExpr", "terms.call_resolver.CallResolver.visitQuotedNameExpr",
              "terms.call_utils.CallVarsExtractor.visitQuotedNameExpr"):
        f = prog.fn(q)
        subs = [unparse(n) for n in ast.walk(f.node) if isinstance(n, ast.Subscript) and isinstance(n.slice, ast.Slice)]
        forms[q] = [s.replace(f.params[1], "expr") for s in subs]
    vals = list(forms.values())
    ok = all(v == vals[0] for v in vals) and vals[0] == ["expr.expression.lexeme[1:-1]"]
    f = prog.fn("terms.call_resolver.CallResolver.visitQuotedNameExpr")
    obl(rep, f, f.node, rule, ok, "back-quoted names are stripped by the same [1:-1] where they are resolved and where they are counted",
        str(vals[0]), f"back-quote stripping differs between the resolvers and the extractor: {forms}")

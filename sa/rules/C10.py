"""C10 - unseen levels / new groups follow the configured policy: policy plumbing (R10.1 .. R10.5)."""
import ast

from ..core import (
    AnalysisError,
    obl,
    unparse,
    short,
    dotted,
    is_str_const,
    is_self_attr,
    walk_local,
    calls_in,
    block_raises,
)
from ..cfg import cfg_of, RETURN, FALLOFF
from . import shared

EXPLANATION = (
    "R10.1 the configuration is closed: Config.__setattr__ reaches super().__setattr__ only under both "
    "membership tests (key in FIELDS, value in FIELDS[key]) and raises otherwise; __setitem__ delegates to it; no "
    "other code writes attributes of Config instances; the default is the first declared choice ('error'). "
    "R10.2 every literal compared with config['EVAL_UNSEEN_CATEGORIES'] anywhere in the package is a declared "
    "value, and the consumers treat 'error' (raise before any result), 'warning' (warn, same result as silent). "
    "R10.3 zeroing discipline in both eval_new_data_categoric implementations: same mask patches the index and "
    "zeroes the rows, the zeroed array is a fresh copy of rows of the remembered matrix, the store is masked. "
    "R10.4 the two siblings have equal abstract summaries. R10.5 new groups: trailing conditional block "
    "(GroupSpecificTerm.eval_new_data), slices rebuilt from the new widths, factors_with_new_levels appended "
    "under 'training width != new width' for the same term name, de-duplicated, returned as a tuple."
    ' R10.3 is decided on the per-case table (code -1 / 0 / >0) computed by shared.zeroing_model. R10.7 the evaluation code of variables, calls and terms stores nothing at prediction (the policy is consulted by every evaluation).'
    " R10.8 a box over plain / unordered data takes its levels from the observed values (C04's R4.3, box obligations)."
)
ASSUMPTIONS = [
    "pandas: Categorical(x, categories=L).codes is -1 exactly for values not in L; numpy advanced indexing returns a copy",
    "values inside the extra block and 'error' mode for interaction grouping factors are runtime facts and are not decided",
]


def run(prog, rep, tier):
    fields = r10_1(prog, rep)
    r10_2_3_4(prog, rep, fields)
    r10_5(prog, rep)
    shared.dtype_narrowing(prog, rep, "R10.6", fns={"formulae.terms.terms.GroupSpecificTerm.eval_new_data", "formulae.terms.variable.Variable.eval_new_data_categoric", "formulae.terms.call.Call.eval_new_data_categoric", "formulae.matrices.GroupEffectsMatrix.evaluate_new_data"})
    r10_7(prog, rep)
    # "unseen" is decided against the levels OBSERVED in the frame: a box over plain / unordered data takes its levels from the
    # values that occur (a declared-but-unused category of the new frame is no level: the box would refuse the frame before
    # the policy is consulted).  C04's R4.3, box obligations, reported here as R10.8
    from . import C04
    from ..core import reuse_rule
    reuse_rule(rep, C04.r4_3, "R10.8", prog, keep=lambda it: "CategoricalBox" in it.get("function", ""))
    rep.floor("R10.8", 1)
    rep.floor("R10.1", 6)
    rep.floor("R10.2", 8)
    rep.floor("R10.3", 10)
    rep.floor("R10.5", 10)


def r10_7(prog, rep):
    """the policy is decided anew on every evaluation (the configuration may change between two evaluations, a frame may be
    corrected in place): the evaluation code of variables, calls and terms keeps nothing of an evaluation (C07's R7.1
    restricted to these classes, reported here as R10.7)"""
    from . import C07
    from .. import predpath

    pp = predpath.get(prog)
    sub = rep.sub()
    C07.r7_1(prog, sub, pp)
    scope = ("formulae.terms.variable.Variable.", "formulae.terms.call.Call.", "formulae.terms.terms.Term.", "formulae.terms.terms.GroupSpecificTerm.",
             "formulae.terms.terms.Intercept.")
    n = 0
    for it in sub.items:
        if not str(it.get("function", "")).startswith(scope):
            continue
        it = dict(it)
        it["rule"] = "R10.7"
        if it.get("verdict") == "violation":
            it["why"] = (it.get("why") or "") + " - what was decided for one evaluation (unseen levels found, zeroed rows, new group block) is " \
                "kept and can answer a later evaluation under another policy or for corrected data"
        rep.items.append(it)
        rep.counts["R10.7"] = rep.counts.get("R10.7", 0) + 1
        n += 1
    anchor = prog.fn("terms.variable.Variable.eval_new_data")
    writes = [x for x in sub.items if str(x.get("function", "")).startswith(scope) and x.get("verdict") == "violation"]
    obl(rep, anchor, anchor.node, "R10.7", not writes, "evaluating new data stores nothing on variables, calls or terms: every evaluation consults "
        "the policy itself", f"{sub.extra.get('prediction_path_writes_examined', 0) if hasattr(sub, 'extra') else ''} writes on the prediction path examined")


def r10_1(prog, rep):
    cls = prog.cls("config.Config")
    fl = cls.class_attrs.get("FIELDS")
    if not isinstance(fl, ast.Dict):
        raise AnalysisError("Config.FIELDS is not a dict display")
    fields = {}
    for k, v in zip(fl.keys, fl.values):
        if not (is_str_const(k) and isinstance(v, (ast.Tuple, ast.List)) and all(is_str_const(e) for e in v.elts)):
            raise AnalysisError("Config.FIELDS entry is not `str: (str, ...)`")
        fields[k.value] = [e.value for e in v.elts]
    ok = fields.get("EVAL_UNSEEN_CATEGORIES") is not None and sorted(fields["EVAL_UNSEEN_CATEGORIES"]) == ["error", "silent", "warning"]
    rep.check(ok, "R10.1", cls.where, cls.qual, "FIELDS declares EVAL_UNSEEN_CATEGORIES in {error, warning, silent}", str(fields),
              f"declared configuration is {fields}")
    rep.check(ok and fields["EVAL_UNSEEN_CATEGORIES"][0] == "error", "R10.1", cls.where, cls.qual,
              "the first declared choice (the default) is 'error'", "", f"default would be {fields.get('EVAL_UNSEEN_CATEGORIES', ['?'])[0]}")
    sa = cls.methods.get("__setattr__")
    if sa is None:
        rep.bad("R10.1", cls.where, cls.qual, "Config.__setattr__ validates keys and values", "Config has no __setattr__: any attribute/value is accepted")
        return fields
    c = cfg_of(sa)
    key, value = sa.params[1], sa.params[2]
    sets = [x for x in calls_in(sa.node) if unparse(x.func) in ("super().__setattr__", "object.__setattr__")]
    ok = len(sets) == 1
    kt = [i for i in walk_local(sa.node) if isinstance(i, ast.If) and unparse(i.test) in (f"{key} in Config.FIELDS", f"{key} in self.FIELDS", f"{key} in type(self).FIELDS")]
    vt = [i for i in walk_local(sa.node) if isinstance(i, ast.If) and unparse(i.test) in (f"{value} in Config.FIELDS[{key}]", f"{value} in self.FIELDS[{key}]")]
    ok = ok and len(kt) == 1 and len(vt) == 1
    if ok:
        sn = c.node_of(sets[0])
        for g in (kt[0], vt[0]):
            gn = c.node_of(g)
            ok = ok and sn in c.true_region(gn) and sn not in c.false_region(gn) and c.dominates(gn, sn)
        # every normal exit passes the store
        ok = ok and c.must_pass([sn])
        ok = ok and [unparse(a) for a in sets[0].args] == [key, value]
    obl(rep, sa, sets[0] if sets else sa.node, "R10.1", ok,
        "super().__setattr__(key, value) is reached only when key is declared and value is one of its choices; every other path raises",
        "", "Config.__setattr__ can store an undeclared key or value (or return without raising)")
    raises = [dotted(r.exc.func) for r in walk_local(sa.node) if isinstance(r, ast.Raise) and isinstance(r.exc, ast.Call)]
    obl(rep, sa, sa.node, "R10.1", sorted(raises) == ["KeyError", "ValueError"], "unknown key -> KeyError, unknown value -> ValueError", str(raises))
    si = cls.methods.get("__setitem__")
    ok = si is not None and any(unparse(x) == f"setattr(self, {si.params[1]}, {si.params[2]})" for x in calls_in(si.node)) and len(list(calls_in(si.node))) == 1
    obl(rep, si or sa, (si or sa).node, "R10.1", ok, "config[key] = value delegates to the validating __setattr__")
    init = cls.methods["__init__"]
    ok = any(isinstance(s, ast.Assign) and unparse(s.targets[0]) == "self[field]" for s in ast.walk(init.node)) and \
        any(unparse(s.value) == "choices[0]" for s in ast.walk(init.node) if isinstance(s, ast.Assign))
    obl(rep, init, init.node, "R10.1", ok, "Config.__init__ stores through the validating path and defaults to choices[0]")
    # who may write: no other writer of Config instances
    n = 0
    for q, f in sorted(prog.functions.items()):
        for x in calls_in(f.node, local=True):
            d = unparse(x.func)
            if d in ("object.__setattr__", "setattr") and f.cls is not cls and x.args and "config" in unparse(x.args[0]):
                n += 1
                obl(rep, f, x, "R10.1", False, "no code outside Config writes the configuration", "", f"`{short(x)}` bypasses / performs a configuration write")
            if isinstance(x.func, ast.Attribute) and x.func.attr == "update" and unparse(x.func.value) in ("config.__dict__", "vars(config)"):
                obl(rep, f, x, "R10.1", False, "no __dict__ write to the configuration", "", f"`{short(x)}` bypasses validation")
        for s in walk_local(f.node):
            tgts = s.targets if isinstance(s, ast.Assign) else [s.target] if isinstance(s, (ast.AugAssign, ast.AnnAssign)) else []
            for t in tgts:
                if isinstance(t, (ast.Attribute, ast.Subscript)) and unparse(t.value) in ("config", "formulae.config", "config.__dict__"):
                    obl(rep, f, s, "R10.1", False, "the package itself never changes the configuration", "",
                        f"`{short(s)}` changes the process-global configuration from inside the package")
    # positive control: the rule sees a write when there is one
    probe = ast.parse("config['EVAL_UNSEEN_CATEGORIES'] = 'silent'").body[0]
    if not (isinstance(probe.targets[0], ast.Subscript) and unparse(probe.targets[0].value) == "config"):
        raise AnalysisError("R10.1 positive control failed")
    return fields


def r10_2_3_4(prog, rep, fields):
    declared = set(fields.get("EVAL_UNSEEN_CATEGORIES", []))
    # every literal compared with the config anywhere
    n = 0
    for q, f in sorted(prog.functions.items()):
        for cmp_ in [x for x in ast.walk(f.node) if isinstance(x, ast.Compare)]:
            sides = [cmp_.left] + list(cmp_.comparators)
            if any(unparse(s_) in ("config['EVAL_UNSEEN_CATEGORIES']", "config.EVAL_UNSEEN_CATEGORIES") for s_ in sides):
                for s_ in sides:
                    if is_str_const(s_):
                        n += 1
                        obl(rep, f, cmp_, "R10.2", s_.value in declared, f"literal {s_.value!r} compared with the configuration is a declared value",
                            "", f"{s_.value!r} is not one of {sorted(declared)}: this branch can never be selected")
                    elif isinstance(s_, (ast.List, ast.Tuple, ast.Set)):
                        for e in s_.elts:
                            if is_str_const(e):
                                n += 1
                                obl(rep, f, cmp_, "R10.2", e.value in declared, f"literal {e.value!r} compared with the configuration is a declared value")
    if n < 4:
        raise AnalysisError(f"R10.2: only {n} comparisons with config['EVAL_UNSEEN_CATEGORIES'] found (expected >= 4)")
    # 'warning' mode must be heard: nothing in the package filters or swallows warnings
    muted = []
    for q, f in sorted(prog.functions.items()):
        if f.parent is not None:
            continue
        for c in calls_in(f.node, local=False):
            d = dotted(c.func) or ""
            if d.split(".")[-1] in ("catch_warnings", "simplefilter", "filterwarnings", "resetwarnings") and d.split(".")[0] in ("warnings", "catch_warnings", "simplefilter", "filterwarnings"):
                muted.append((f, c))
            if d in ("np.errstate", "np.seterr") or d.endswith(".showwarning"):
                muted.append((f, c))
    for f, c in muted:
        obl(rep, f, c, "R10.2", False, f"`{short(c, 60)}`", "",
            "warnings are filtered / captured here: in 'warning' mode an unseen level reached through this code is zeroed without the documented warning")
    anchor = prog.fn("terms.variable.Variable.eval_new_data_categoric")
    obl(rep, anchor, anchor.node, "R10.2", not muted, "no code of the package filters, captures or resets warnings", f"{len(prog.functions)} functions scanned")
    sibs = ["terms.variable.Variable.eval_new_data_categoric", "terms.call.Call.eval_new_data_categoric"]
    sums = []
    for q in sibs:
        f = prog.fn(q)
        s = shared.categoric_rules(prog, rep, "R10.2", "R10.3", f)
        if s is None:
            raise AnalysisError(f"R10.2: no summary of {q} (see the deferred analysis error)")
        handled = set(s["policy"])
        rest = declared - handled
        obl(rep, f, f.node, "R10.2", handled <= declared and rest == {"silent"},
            f"{f.qual.split('.')[-2]}: handles error/warning explicitly, 'silent' is the fall-through",
            str(sorted(handled)), f"handled {sorted(handled)}; declared {sorted(declared)}")
        sums.append(s)
    a, b = sums
    f = prog.fn(sibs[1])
    diffs = [k for k in a if a[k] != b[k]]
    obl(rep, f, f.node, "R10.4", not diffs, "Variable.eval_new_data_categoric and Call.eval_new_data_categoric have equal abstract summaries",
        f"compared: {sorted(a)}", f"the siblings differ in {diffs}: {[(a[k], b[k]) for k in diffs]} - the policy changed in one of them only")
    # eval_new_data_categorical_box delegates to the sibling with the box's data
    bx = prog.fn("terms.call.Call.eval_new_data_categorical_box")
    rets = [n_ for n_ in walk_local(bx.node) if isinstance(n_, ast.Return)]
    obl(rep, bx, bx.node, "R10.4", len(rets) == 1 and unparse(rets[0].value) == f"self.eval_new_data_categoric({bx.params[1]}.data)",
        "C()/T()/S() terms go through the same policy code (eval_new_data_categoric on the box's data)")


def r10_5(prog, rep):
    """new-group bookkeeping of the group matrix, decided on the abstract evaluation of the loop body (shared with R17.1)"""
    from .C17 import loop_model
    from .. import symexec as SX

    shared.new_group_block(prog, rep, "R10.5")
    q = "matrices.GroupEffectsMatrix.evaluate_new_data"
    try:
        M = loop_model(prog, q, None)
    except AnalysisError as e:
        rep.defer(f"R10.5: {e}")
        return
    f, lp, tv, ex, pre, container, body = (M[k] for k in ("f", "lp", "tv", "ex", "pre", "container", "body"))
    data = f.params[1]
    # the list that becomes factors_with_new_levels
    fin = [st for st in body if isinstance(st, ast.Assign) and unparse(st.targets[0]) == f"{container}.factors_with_new_levels"]
    L = None
    dedup_late = False  # tuple(dict.fromkeys(L)): duplicates are removed afterwards, first appearance kept
    if len(fin) == 1 and isinstance(fin[0].value, ast.Call) and dotted(fin[0].value.func) == "tuple" and len(fin[0].value.args) == 1 \
            and body.index(fin[0]) > body.index(lp):
        a0 = fin[0].value.args[0]
        if isinstance(a0, ast.Name):
            L = a0.id
        elif isinstance(a0, ast.Call) and dotted(a0.func) == "dict.fromkeys" and len(a0.args) == 1 and isinstance(a0.args[0], ast.Name):
            L, dedup_late = a0.args[0].id, True
    obl(rep, f, fin[0] if fin else f.node, "R10.5", L is not None, "factors_with_new_levels is returned as a tuple of the collected names")
    if L is None:
        return
    init = pre.env.get(L)
    if init is None:
        # the collection is built in a pass of its own AFTER the slices are complete:
        #   L = {t.factor.name: None for t in <same terms> if <old width of t> != <width of container.slices[t.name]>}
        # container.slices[t.name] then is the slice stored for t by the loop: the comprehension is read as the guarded report of
        # the same iteration
        import copy as _copy
        d = [st for st in body if isinstance(st, ast.Assign) and len(st.targets) == 1 and unparse(st.targets[0]) == L and body.index(st) > body.index(lp)]
        comp = d[0].value if len(d) == 1 else None
        if isinstance(comp, ast.Call) and dotted(comp.func) in ("dict.fromkeys", "list", "tuple") and len(comp.args) == 1:
            comp = comp.args[0]
        stores_ = [e for e in ex.effects if e[0] == "store" and e[1][0] == f"{container}.slices"]
        extra_bind = {}
        if isinstance(comp, (ast.DictComp, ast.ListComp, ast.GeneratorExp)) and len(comp.generators) == 1 \
                and isinstance(comp.generators[0].target, ast.Tuple) and isinstance(comp.generators[0].iter, ast.Call) \
                and dotted(comp.generators[0].iter.func) == "zip" and len(comp.generators[0].iter.args) == len(comp.generators[0].target.elts) \
                and all(isinstance(t_, ast.Name) for t_ in comp.generators[0].target.elts):
            # for t, w in zip(<the terms>, <a list filled once per iteration of the slice loop>): w is what that iteration appended
            g0 = comp.generators[0]
            aliases = {unparse(st.targets[0]): st.value.id for st in body if isinstance(st, ast.Assign) and len(st.targets) == 1
                       and isinstance(st.targets[0], ast.Name) and isinstance(st.value, ast.Name)}
            first = None
            ok_zip = True
            for t_, a_ in zip(g0.target.elts, g0.iter.args):
                if M["coll"](a_) == M["it"] or (isinstance(a_, ast.Name) and any(
                        isinstance(st, ast.Assign) and unparse(st.targets[0]) == a_.id and M["coll"](st.value.args[0] if isinstance(st.value, ast.Call)
                                                                                               and dotted(st.value.func) in ("list", "tuple") and st.value.args else st.value) == M["it"]
                        for st in body if isinstance(st, ast.Assign) and len(st.targets) == 1)):
                    first = t_.id
                    continue
                nm = aliases.get(a_.id, a_.id) if isinstance(a_, ast.Name) else None
                apps_ = [e for e in ex.effects if e[0] == "call" and e[1][0] == f"{nm}.append" and e[2] == () and len(e[1][1]) == 1] if nm else []
                if len(apps_) != 1:
                    ok_zip = False
                    break
                extra_bind[t_.id] = SX.render(apps_[0][1][1][0])
            if ok_zip and first is not None:
                import copy as _copy2
                comp = _copy2.deepcopy(comp)
                comp.generators[0].target = ast.Name(id=first, ctx=ast.Store())
                comp.generators[0].iter = [a_ for t_, a_ in zip(g0.target.elts, g0.iter.args) if t_.id == first][0]
        if not (isinstance(comp, (ast.DictComp, ast.ListComp, ast.GeneratorExp)) and len(comp.generators) == 1 and isinstance(comp.generators[0].target, ast.Name)
                and (M["coll"](comp.generators[0].iter) == M["it"] or extra_bind) and len(stores_) == 1 and isinstance(stores_[0][1][2], SX.Slice)):
            rep.defer(f"R10.5: `{L}` is not built in the slice loop nor by a comprehension over the same terms after it ({q})")
            return
        g = comp.generators[0]
        key = comp.key if isinstance(comp, ast.DictComp) else comp.elt
        stored_txt = SX.render(stores_[0][1][2])

        class ToIter(ast.NodeTransformer):
            def visit_Subscript(self, n):
                self.generic_visit(n)
                if unparse(n.value) == f"{container}.slices" and unparse(n.slice) == f"{tv}.name":
                    return ast.parse(stored_txt, mode="eval").body
                return n

            def visit_Name(self, n):
                if n.id == g.target.id:
                    return ast.copy_location(ast.Name(id=tv, ctx=n.ctx), n)
                if n.id in extra_bind and isinstance(n.ctx, ast.Load):
                    return ast.parse(extra_bind[n.id], mode="eval").body
                return n

        conds = [ToIter().visit(_copy.deepcopy(c)) for c in g.ifs]
        key = ToIter().visit(_copy.deepcopy(key))
        obl(rep, f, d[0], "R10.5", True, "the collection is built anew from the finished slices on every evaluation (no carry-over between calls)")
        okn = unparse(key) == f"{tv}.factor.name"
        obl(rep, f, d[0], "R10.5", okn, "the reported name is the grouping factor's name of the term being evaluated", "", f"collected: {unparse(key)}")
        val = stores_[0][1][2]
        W = SX.add(val.hi, val.lo, -1)
        arr = f"{tv}.eval_new_data({data})"
        obl(rep, f, stores_[0][1][3], "R10.5", W is not None and SX.width_of(W, arr) and stores_[0][2] == (),
            "every term's slice is rebuilt from the NEW width of its block (later terms shift when a block widens)", SX.render(W) if W is not None else "")
        fresh = SX.SymExec()
        old_slice = f"self.slices[{tv}.name]"
        sides = set()
        for c in conds:
            if isinstance(c, ast.Compare) and len(c.ops) == 1 and isinstance(c.ops[0], ast.NotEq):
                for side in (c.left, c.comparators[0]):
                    txt = unparse(side)
                    if txt in (f"get_slice_width({old_slice})", f"{old_slice}.stop - {old_slice}.start"):
                        sides.add("old")
                        continue
                    arg = side.args[0] if isinstance(side, ast.Call) and dotted(side.func) == "get_slice_width" and len(side.args) == 1 else None
                    v = fresh.val(arg) if arg is not None else None
                    if isinstance(v, SX.Slice):
                        w = SX.add(v.hi, v.lo, -1)
                        sides.add("new" if (w is not None and SX.width_of(w, arr)) else f"other `{txt}`")
                    else:
                        wv = fresh.val(side)
                        try:
                            if isinstance(wv, SX.Ite):
                                wv = SX.mk_ite(wv.cond, SX.add(wv.a, SX.Lin(0)) or wv.a, SX.add(wv.b, SX.Lin(0)) or wv.b)
                            direct = SX.width_of(wv, arr)
                        except Exception:  # noqa: BLE001
                            direct = False
                        sides.add("new" if direct else f"`{txt}`")
        unique = isinstance(comp, ast.DictComp) or (isinstance(d[0].value, ast.Call) and dotted(d[0].value.func) == "dict.fromkeys")
        obl(rep, f, d[0], "R10.5", len(conds) == 1 and sides == {"old", "new"} and unique,
            "a factor is reported iff the training slice width of the SAME term differs from its new width, once per factor",
            str(sorted(sides)), f"the report is guarded by {[unparse(c) for c in conds]} (sides {sorted(sides)}, unique={unique})")
        gw = prog.fn("matrices.get_slice_width")
        rets = [n for n in walk_local(gw.node) if isinstance(n, ast.Return)]
        obl(rep, gw, gw.node, "R10.5", len(rets) == 1 and unparse(rets[0].value) == f"{gw.params[0]}.stop - {gw.params[0]}.start", "get_slice_width = stop - start")
        return
    as_dict = init in (SX.Opaque("{}"), SX.Opaque("dict()"))
    obl(rep, f, lp, "R10.5", init == SX.Opaque("[]") or as_dict, "the collection starts empty for every evaluation (no carry-over between calls)",
        "", f"`{L}` is `{SX.render(pre.env[L]) if L in pre.env else 'undefined'}` before the loop")
    if as_dict:
        # a dict used as an insertion-ordered set: `L[name] = <anything>`; tuple(L) lists the keys in order of first insertion
        dst = [e for e in ex.effects if e[0] == "store" and e[1][0] == L]
        apps = [("call", (f"{L}.append", [SX.Opaque(e[1][1])], e[1][3]), e[2]) for e in dst]
        apps += [("call", (f"{L}.append", [e[1][1][0]], e[1][2]), e[2]) for e in ex.effects
                 if e[0] == "call" and e[1][0] == f"{L}.setdefault" and len(e[1][1]) in (1, 2)]
        ok = len(apps) == 1 and SX.render(apps[0][1][1][0]) == f"{tv}.factor.name"
        dedup_late = True  # keys are unique by construction
    else:
        apps = [e for e in ex.effects if e[0] == "call" and e[1][0] == f"{L}.append"]
        ok = len(apps) == 1 and len(apps[0][1][1]) == 1 and SX.render(apps[0][1][1][0]) == f"{tv}.factor.name"
    obl(rep, f, apps[0][1][2] if apps else lp, "R10.5", ok, "the reported name is the grouping factor's name of the term being evaluated",
        "", f"collected: {[SX.render(a[1][1][0]) for a in apps if a[1][1]]}")
    # the slice stored for the term and its width
    stores = [e for e in ex.effects if e[0] == "store" and e[1][0] == f"{container}.slices"]
    val = stores[0][1][2] if len(stores) == 1 else None
    W = SX.add(val.hi, val.lo, -1) if isinstance(val, SX.Slice) else None
    arr = f"{tv}.eval_new_data({data})"
    obl(rep, f, stores[0][1][3] if stores else lp, "R10.5", W is not None and SX.width_of(W, arr) and stores[0][2] == (),
        "every term's slice is rebuilt from the NEW width of its block (later terms shift when a block widens)",
        SX.render(W) if W is not None else "", f"the stored slice has width `{SX.render(W) if W is not None else '?'}`, not the column count of `{arr}`")
    if not ok or W is None:
        return
    path = apps[0][2]
    okc = len(path) >= 1 and all(c_[1] is True for c_ in path)
    width_cmp = False
    dedup = dedup_late
    parts = []
    if okc:
        # nested `if a: if b:` is the conjunction a and b
        conj = []
        for c_ in path:
            t = ast.parse(c_[0], mode="eval").body
            conj.extend(t.values if isinstance(t, ast.BoolOp) and isinstance(t.op, ast.And) else [t])
        parts = [unparse(c) for c in conj]
        fresh = SX.SymExec()

        def width_desc(n):
            txt = unparse(n)
            old_slice = f"self.slices[{tv}.name]"
            if txt in (f"get_slice_width({old_slice})", f"{old_slice}.stop - {old_slice}.start"):
                return "old"
            if isinstance(n, ast.Call) and dotted(n.func) == "get_slice_width" and len(n.args) == 1:
                v = fresh.val(n.args[0])
                if isinstance(v, SX.Slice):
                    w = SX.add(v.hi, v.lo, -1)
                    return "new" if w == W else f"other width `{SX.render(w) if w is not None else txt}`"
            v = fresh.val(n)
            vn = SX.add(v, SX.Lin(0))
            if v == W or (vn is not None and vn == W):
                return "new"
            if vn == SX.Lin(0, {f"{old_slice}.stop": 1, f"{old_slice}.start": -1}):
                return "old"
            return f"`{txt}`"

        for c in conj:
            if isinstance(c, ast.UnaryOp) and isinstance(c.op, ast.Not) and isinstance(c.operand, ast.Compare) and len(c.operand.ops) == 1 \
                    and isinstance(c.operand.ops[0], ast.In):
                c = ast.Compare(left=c.operand.left, ops=[ast.NotIn()], comparators=c.operand.comparators)
            if isinstance(c, ast.Compare) and len(c.ops) == 1 and isinstance(c.ops[0], ast.NotIn) and unparse(c.left) == f"{tv}.factor.name" \
                    and unparse(c.comparators[0]) == L:
                dedup = True
            elif isinstance(c, ast.Compare) and len(c.ops) == 1 and isinstance(c.ops[0], ast.NotEq):
                pair = {width_desc(c.left), width_desc(c.comparators[0])}
                width_cmp = pair == {"old", "new"}
                parts.append(f"width comparison sides: {sorted(pair)}")
        okc = width_cmp and dedup and len(conj) == (1 if dedup_late else 2)
    obl(rep, f, apps[0][1][2], "R10.5", okc,
        "a factor is reported iff the training slice width of the SAME term differs from its new width, once per factor",
        str(parts), f"the report is guarded by {parts or [c for c in path]}: not `training width of this term != its new width, and not yet reported`")
    gw = prog.fn("matrices.get_slice_width")
    rets = [n for n in walk_local(gw.node) if isinstance(n, ast.Return)]
    obl(rep, gw, gw.node, "R10.5", len(rets) == 1 and unparse(rets[0].value) == f"{gw.params[0]}.stop - {gw.params[0]}.start",
        "get_slice_width = stop - start")


from ..core import guard_rules  # noqa: E402

guard_rules(globals())

"""Rule implementations used by more than one property (the rule id is passed in)."""
import ast

from ..core import (
    AnalysisError,
    obl,
    unparse,
    short,
    dotted,
    is_str_const,
    is_self_attr,
    walk_local,
    calls_in,
    block_raises,
    strip_docstring,
    const_value,
)
from ..cfg import cfg_of


def _assigns(fn, name):
    return [s for s in walk_local(fn.node) if isinstance(s, ast.Assign) and len(s.targets) == 1 and unparse(s.targets[0]) == name]


# ------------------------------------------------------------------------------------------
# new-group block of GroupSpecificTerm.eval_new_data (R5.3 / R10.5)
# ------------------------------------------------------------------------------------------
def new_group_block(prog, rep, rule):
    f = prog.fn("terms.terms.GroupSpecificTerm.eval_new_data")
    c = cfg_of(f)
    data = f.params[1]
    first = [s for s in walk_local(f.node) if isinstance(s, ast.Assign) and len(s.targets) == 1 and isinstance(s.targets[0], ast.Name)
             and unparse(s.value) == f"self.factor.eval_new_data({data})"]
    obl(rep, f, first[0] if first else f.node, rule, len(first) == 1, "Ji is the factor's indicator matrix evaluated on the new frame")
    J = first[0].targets[0].id if len(first) == 1 else "Ji"
    # NOT `J.sum(axis=1) == 0`: the columns of a grouping factor need not be 0/1 indicators (a sum-coded factor has rows such
    # as [1, -1]), so a zero row sum does not mean "no group"
    masks = [s for s in walk_local(f.node) if isinstance(s, ast.Assign) and unparse(s.value) in (
        f"~{J}.any(axis=1)", f"~{J}.any(1)", f"~np.any({J}, axis=1)", f"np.logical_not({J}.any(axis=1))", f"({J} == 0).all(axis=1)", f"np.all({J} == 0, axis=1)",
        f"~{J}.astype(bool).any(axis=1)")]
    ok = len(masks) == 1
    mv = unparse(masks[0].targets[0]) if ok else "all_zeros"
    obl(rep, f, masks[0] if masks else f.node, rule, ok, "a row with all-zero indicators marks an unseen group (row-wise test, axis=1)", "",
        f"the unseen-group mask is not `~{J}.any(axis=1)` (a row without any non-zero entry)")
    conds = [i for i in walk_local(f.node) if isinstance(i, ast.If) and unparse(i.test) in (f"{mv}.any()", f"np.any({mv})", f"{mv}.sum() > 0")]
    ok = len(conds) == 1
    obl(rep, f, conds[0] if conds else f.node, rule, ok, "the extra block is added only when some row belongs to an unseen group", "",
        "the extra column is not conditional on `all_zeros.any()`: existing designs would gain an empty block")
    if not ok:
        return
    body = conds[0].body
    # abstract evaluation of the guarded statements: the indicator matrix is [original columns] + appended columns, each appended
    # column carrying its value on the rows of seen groups and on the rows of unseen groups (the two cases of the mask)
    INTS = ("int", "'int'", '"int"', "np.int64", "'int64'", "np.int_", "np.intp")
    local = {}

    def strip2d(e):
        """(expression without the 1-D -> column reshaping, was it reshaped)"""
        if isinstance(e, ast.Subscript) and isinstance(e.slice, ast.Tuple) and len(e.slice.elts) == 2 and unparse(e.slice.elts[0]) == ":" \
                and unparse(e.slice.elts[1]) in ("None", "np.newaxis"):
            return e.value, True
        if isinstance(e, ast.Call) and isinstance(e.func, ast.Attribute) and e.func.attr == "reshape" and [unparse(a) for a in e.args] in (["-1", "1"], ["(-1, 1)"]):
            return e.func.value, True
        return e, False

    def column(e):
        """per-case value of a would-be column: ({'seen': v, 'unseen': v}, is it 2-D) or None"""
        if isinstance(e, ast.Name) and e.id in local:
            return local[e.id]
        e, two_d = strip2d(e)
        if isinstance(e, ast.Name) and e.id in local:
            return local[e.id][0], two_d or local[e.id][1]
        if isinstance(e, ast.Call) and dotted(e.func) in ("np.zeros", "np.zeros_like"):
            shp = unparse(e.args[0]) if e.args else ""
            if dotted(e.func) == "np.zeros" and shp in (f"({J}.shape[0], 1)", f"(len({J}), 1)", f"({mv}.shape[0], 1)", f"(len({mv}), 1)", f"({mv}.size, 1)"):
                return {"seen": 0, "unseen": 0}, True
            if dotted(e.func) == "np.zeros" and shp in (f"{J}.shape[0]", f"len({J})", f"{mv}.shape[0]", f"len({mv})", f"{mv}.size", f"{mv}.shape"):
                return {"seen": 0, "unseen": 0}, two_d
            if dotted(e.func) == "np.zeros_like" and shp == mv and any(k.arg == "dtype" and unparse(k.value) in INTS for k in e.keywords):
                return {"seen": 0, "unseen": 0}, two_d
            return None
        inner, reshaped_first = strip2d(e.func.value) if isinstance(e, ast.Call) and isinstance(e.func, ast.Attribute) and e.func.attr == "astype" else (None, False)
        if inner is not None and len(e.args) == 1 and unparse(e.args[0]) in INTS and unparse(inner) == mv:
            return {"seen": 0, "unseen": 1}, two_d or reshaped_first
        if inner is not None and len(e.args) == 1 and unparse(e.args[0]) in INTS and unparse(inner) in (f"~{mv}", f"np.logical_not({mv})"):
            return {"seen": 1, "unseen": 0}, two_d or reshaped_first
        if isinstance(e, ast.Call) and dotted(e.func) == "np.where" and len(e.args) == 3 and unparse(e.args[0]) == mv \
                and all(isinstance(const_value(a, None), int) and not isinstance(const_value(a, None), bool) for a in e.args[1:]):
            return {"seen": const_value(e.args[2]), "unseen": const_value(e.args[1])}, two_d
        if isinstance(e, ast.Call) and dotted(e.func) in ("np.ones", "np.ones_like"):
            return {"seen": 1, "unseen": 1}, two_d or (bool(e.args) and isinstance(e.args[0], ast.Tuple))
        if isinstance(e, ast.Call) and dotted(e.func) in ("np.asarray", "np.array") and e.args and unparse(e.args[0]) == mv \
                and any(k.arg == "dtype" and unparse(k.value) in INTS for k in e.keywords):
            return {"seen": 0, "unseen": 1}, two_d
        if isinstance(e, ast.BinOp) and isinstance(e.op, ast.Mult) and {unparse(e.left), unparse(e.right)} == {mv, "1"}:
            return {"seen": 0, "unseen": 1}, two_d
        return None

    appended = None      # list of per-case columns appended after the original ones
    stack_node = None
    problems = []
    for st_ in body:
        if isinstance(st_, ast.Assign) and len(st_.targets) == 1 and isinstance(st_.targets[0], ast.Name) and st_.targets[0].id != J:
            cv = column(st_.value)
            if cv is not None:
                local[st_.targets[0].id] = cv
            continue
        if isinstance(st_, ast.Assign) and len(st_.targets) == 1 and unparse(st_.targets[0]) == J:
            v = st_.value
            d = dotted(v.func) if isinstance(v, ast.Call) else None
            parts = None
            if d in ("np.column_stack", "np.hstack") and len(v.args) == 1 and isinstance(v.args[0], (ast.List, ast.Tuple)):
                parts, need2d = v.args[0].elts, d == "np.hstack"
            elif d == "np.concatenate" and len(v.args) == 1 and isinstance(v.args[0], (ast.List, ast.Tuple)) \
                    and any(k.arg == "axis" and unparse(k.value) in ("1", "-1") for k in v.keywords):
                parts, need2d = v.args[0].elts, True
            elif d == "np.append" and len(v.args) == 2 and any(k.arg == "axis" and unparse(k.value) in ("1", "-1") for k in v.keywords):
                parts, need2d = list(v.args), True
            if parts is None or appended is not None:
                problems.append(f"`{short(st_, 60)}` is not a single column-wise stacking of the indicator matrix")
                continue
            stack_node = st_
            if unparse(parts[0]) != J:
                problems.append(f"the original indicator columns are not the first block of `{short(v, 60)}`")
            cols = []
            for pe in parts[1:] if unparse(parts[0]) == J else [x for x in parts if unparse(x) != J]:
                cv = column(pe)
                if cv is None:
                    raise AnalysisError(f"{rule}: unmodelled new-group column `{unparse(pe)[:60]}` in {f.qual}")
                if need2d and not cv[1]:
                    raise AnalysisError(f"{rule}: 1-D column `{unparse(pe)[:60]}` given to {d} in {f.qual}")
                cols.append(dict(cv[0]))
            appended = cols
            continue
        if isinstance(st_, ast.Assign) and isinstance(st_.targets[0], ast.Subscript) and unparse(st_.targets[0].value) == J:
            sl = st_.targets[0].slice
            val = const_value(st_.value, None)
            if appended is None or not appended:
                problems.append(f"`{short(st_, 60)}` writes into the indicator matrix before a column was appended")
                continue
            if isinstance(sl, ast.Tuple) and len(sl.elts) == 2 and unparse(sl.elts[1]) == "-1" and isinstance(val, int) and not isinstance(val, bool):
                rows = unparse(sl.elts[0])
                if rows == mv:
                    appended[-1]["unseen"] = val
                elif rows in (f"~{mv}", f"np.logical_not({mv})"):
                    appended[-1]["seen"] = val
                elif rows == ":":
                    appended[-1] = {"seen": val, "unseen": val}
                else:
                    problems.append(f"`{short(st_, 60)}`: rows selected by `{rows}`, not by the unseen-group mask `{mv}`")
                continue
            if isinstance(sl, ast.Tuple) and len(sl.elts) == 2 and unparse(sl.elts[0]) == ":" and unparse(sl.elts[1]) == "-1":
                cv = column(st_.value)
                if cv is not None:
                    appended[-1] = dict(cv[0])
                    continue
            problems.append(f"`{short(st_, 60)}` writes into existing blocks of the indicator matrix")
            continue
        if isinstance(st_, (ast.Expr, ast.Pass)):
            continue
        raise AnalysisError(f"{rule}: unmodelled statement `{unparse(st_)[:60]}` in the new-group block of {f.qual}")
    ok = appended is not None and len(appended) == 1 and not [p_ for p_ in problems if "first block" in p_ or "single column-wise" in p_]
    obl(rep, f, stack_node or conds[0], rule, ok, "exactly one column is stacked AFTER the existing indicator columns (trailing block, fresh array)",
        "", "; ".join(problems) or f"the new-group columns are {appended}: not one trailing column of a fresh array (existing blocks would shift)")
    want = {"seen": 0, "unseen": 1}
    ok2 = ok and appended[0] == want and not problems
    obl(rep, f, stack_node or conds[0], rule, ok2, "the new column is 1 exactly on the unseen-group rows and 0 elsewhere (same mask as the test)",
        str(appended), "; ".join(problems) or f"the appended column is {appended[0] if appended else None} on seen / unseen rows, expected {want}")
    # the product is built after the block was added, factor first
    kr = [x for x in calls_in(f.node) if dotted(x.func) == "linalg.khatri_rao"]
    ok = len(kr) == 1 and c.dominates(c.node_of(conds[0]), c.node_of(kr[0]))
    obl(rep, f, kr[0] if kr else f.node, rule, ok, "the Khatri-Rao product is formed after the extra group column was added")
    return f


# ------------------------------------------------------------------------------------------
# eval_new_data_categoric siblings: structure summary (R10.2, R10.3, R10.4, R6.3)
# ------------------------------------------------------------------------------------------
def categoric_summary(prog, fn):
    """Abstract summary of one eval_new_data_categoric implementation."""
    x = fn.params[1]
    S = {"fn": fn, "problems": [], "facts": {}}
    F = S["facts"]
    c = cfg_of(fn)
    # Categorical constructions
    cats = [n for n in ast.walk(fn.node) if isinstance(n, ast.Call) and dotted(n.func) == "pd.Categorical"]
    F["categorical_sites"] = len(cats)
    F["categorical_all_with_remembered_levels"] = bool(cats) and all(
        [unparse(k.value) for k in n.keywords if k.arg == "categories"] == ["self.levels"] and unparse(n.args[0]) == x for n in cats
    )
    # matrix indexing
    idx = [n for n in ast.walk(fn.node) if isinstance(n, ast.Subscript) and unparse(n.value) == "self.contrast_matrix.matrix" and isinstance(n.ctx, ast.Load)]
    F["matrix_index_sites"] = len(idx)
    # every index into the remembered contrast matrix derives (through copies only) from codes taken w.r.t. the remembered levels
    defs = {}
    for st in walk_local(fn.node):
        if isinstance(st, ast.Assign) and len(st.targets) == 1 and isinstance(st.targets[0], ast.Name):
            defs.setdefault(st.targets[0].id, []).append(st.value)

    def from_remembered(e, depth=0):
        if depth > 6:
            return False
        if isinstance(e, ast.Attribute) and e.attr == "codes" and isinstance(e.value, ast.Call) and dotted(e.value.func) == "pd.Categorical":
            n = e.value
            return [unparse(k.value) for k in n.keywords if k.arg == "categories"] == ["self.levels"] and bool(n.args) and unparse(n.args[0]) == x
        if isinstance(e, ast.Call) and dotted(e.func) in ("np.copy", "np.array", "np.asarray") and e.args:
            return from_remembered(e.args[0], depth + 1)
        if isinstance(e, ast.Call) and isinstance(e.func, ast.Attribute) and e.func.attr in ("copy", "to_numpy", "astype") and not isinstance(e.func.value, ast.Name):
            return from_remembered(e.func.value, depth + 1)
        if isinstance(e, ast.Call) and isinstance(e.func, ast.Attribute) and e.func.attr in ("copy", "to_numpy", "astype") and isinstance(e.func.value, ast.Name):
            return from_remembered(e.func.value, depth + 1)
        if isinstance(e, ast.Name) and e.id in defs:
            return all(from_remembered(d, depth + 1) for d in defs[e.id])
        if isinstance(e, ast.IfExp):
            return from_remembered(e.body, depth + 1) and from_remembered(e.orelse, depth + 1)
        if isinstance(e, ast.Call) and dotted(e.func) == "np.where" and len(e.args) == 3:
            return all(isinstance(a, ast.Constant) or from_remembered(a, depth + 1) for a in e.args[1:]) \
                and any(from_remembered(a, depth + 1) for a in e.args[1:])
        if isinstance(e, ast.Call) and dotted(e.func) in ("np.maximum", "np.clip") and e.args:
            return from_remembered(e.args[0], depth + 1)
        return False

    F["matrix_indices_from_remembered_levels"] = bool(idx) and all(from_remembered(n.slice) for n in idx)
    S["foreign_index"] = [unparse(n.slice) for n in idx if not from_remembered(n.slice)]
    # config comparisons
    lits = {}
    for i in walk_local(fn.node):
        if isinstance(i, ast.If) and isinstance(i.test, ast.Compare) and isinstance(i.test.ops[0], ast.Eq) \
                and unparse(i.test.left) == "config['EVAL_UNSEEN_CATEGORIES']" and is_str_const(i.test.comparators[0]):
            lit = i.test.comparators[0].value
            raises = block_raises(i.body)
            warns = any(dotted(x_.func) == "warnings.warn" for x_ in calls_in(ast.Module(body=i.body, type_ignores=[]), local=False))
            lits[lit] = ("raise" if raises else "warn" if warns else "other", i)
    F["policy"] = {k: v[0] for k, v in lits.items()}
    S["policy_nodes"] = {k: v[1] for k, v in lits.items()}
    # fast path
    fast = [i for i in walk_local(fn.node) if isinstance(i, ast.If) and isinstance(i.test, ast.UnaryOp) and isinstance(i.test.op, ast.Not)
            and isinstance(i.test.operand, ast.Name)]
    S["fast"] = fast[0] if fast else None
    # masks
    stores = [s for s in walk_local(fn.node) if isinstance(s, ast.Assign) and isinstance(s.targets[0], ast.Subscript)]
    S["stores"] = stores
    return S



def comp_signature(e):
    """a one-`for` comprehension / generator expression up to the name(s) of its loop variable and list-vs-generator:
    ('list' | 'dict', element text with the variables written $0, $1, ..., iterable text) or None.  The arguments of a starred
    call may be a list or a generator alike; dict comprehensions keep 'key: value'."""
    if isinstance(e, ast.Call) and dotted(e.func) in ("list", "tuple") and len(e.args) == 1:
        e = e.args[0]
    if isinstance(e, ast.Call) and dotted(e.func) == "dict" and len(e.args) == 1 and isinstance(e.args[0], (ast.GeneratorExp, ast.ListComp)) \
            and isinstance(e.args[0].elt, ast.Tuple) and len(e.args[0].elt.elts) == 2:
        g = e.args[0]
        e = ast.DictComp(key=g.elt.elts[0], value=g.elt.elts[1], generators=g.generators)
    # dict(zip(D, (f(v) for v in D.values()))): keys and values of one dict iterate in the same order = {k: f(v) for k, v in D.items()}
    if isinstance(e, ast.Call) and dotted(e.func) == "dict" and len(e.args) == 1 and isinstance(e.args[0], ast.Call) and dotted(e.args[0].func) == "zip" \
            and len(e.args[0].args) == 2:
        ks, vs = e.args[0].args
        if isinstance(ks, ast.Call) and isinstance(ks.func, ast.Attribute) and ks.func.attr == "keys" and not ks.args:
            ks = ks.func.value
        if isinstance(vs, (ast.GeneratorExp, ast.ListComp)) and len(vs.generators) == 1 and not vs.generators[0].ifs and isinstance(vs.generators[0].target, ast.Name) \
                and isinstance(vs.generators[0].iter, ast.Call) and isinstance(vs.generators[0].iter.func, ast.Attribute) \
                and vs.generators[0].iter.func.attr == "values" and unparse(vs.generators[0].iter.func.value) == unparse(ks):
            import copy as _copy0
            v = vs.generators[0].target.id
            val = _copy0.deepcopy(vs.elt)
            for n in ast.walk(val):
                if isinstance(n, ast.Name) and n.id == v:
                    n.id = "$1"
            return "dict", f"$0: {unparse(val)}", f"{unparse(ks)}.items()"
    if not (isinstance(e, (ast.ListComp, ast.GeneratorExp, ast.DictComp)) and len(e.generators) == 1 and not e.generators[0].ifs):
        return None
    import copy as _copy
    e = _copy.deepcopy(e)
    names = [n.id for n in ast.walk(e.generators[0].target) if isinstance(n, ast.Name)]
    ren = {nm: f"${i}" for i, nm in enumerate(names)}
    for n in ast.walk(e):
        if isinstance(n, ast.Name) and n.id in ren:
            n.id = ren[n.id]
    if isinstance(e, ast.DictComp):
        return "dict", f"{unparse(e.key)}: {unparse(e.value)}", unparse(e.generators[0].iter)
    return "list", unparse(e.elt), unparse(e.generators[0].iter)


def broadcast_of(e):
    """`e` builds an array of a given shape filled with one value: (shape text, value text, dtype text or None) or None.
    Recognised: np.ones(S[, dtype=T]) * V, V * np.ones(S), np.full(S, V[, dtype=T]), np.full(shape=S, fill_value=V),
    np.repeat(V, N), np.tile(V, N), np.zeros(S) + V"""
    def alloc(x, names):
        if isinstance(x, ast.Call) and dotted(x.func) in names and x.args:
            dt = [unparse(k.value) for k in x.keywords if k.arg == "dtype"]
            if len(x.args) > 1:
                dt = [unparse(x.args[1])]
            return unparse(x.args[0]), (dt[0] if dt else None)
        return None

    if isinstance(e, ast.BinOp) and isinstance(e.op, ast.Mult):
        for a, b in ((e.left, e.right), (e.right, e.left)):
            al = alloc(a, ("np.ones",))
            if al is not None:
                return al[0], unparse(b), al[1]
    if isinstance(e, ast.BinOp) and isinstance(e.op, ast.Add):
        for a, b in ((e.left, e.right), (e.right, e.left)):
            al = alloc(a, ("np.zeros",))
            if al is not None:
                return al[0], unparse(b), al[1]
    if isinstance(e, ast.Call) and dotted(e.func) == "np.full":
        kw = {k.arg: k.value for k in e.keywords}
        args = list(e.args)
        shp = args[0] if args else kw.get("shape")
        val = args[1] if len(args) > 1 else kw.get("fill_value")
        dt = args[2] if len(args) > 2 else kw.get("dtype")
        if shp is not None and val is not None:
            return unparse(shp), unparse(val), (unparse(dt) if dt is not None else None)
    if isinstance(e, ast.Call) and dotted(e.func) in ("np.repeat", "np.tile") and len(e.args) == 2 and not e.keywords:
        return unparse(e.args[1]), unparse(e.args[0]), None
    return None


def indicator_of(e):
    """`e` is an integer 0/1 indicator of an equality test: (text of left, text of right) or None.
    Recognised: np.where(A == B, 1, 0), np.where(A != B, 0, 1), (A == B).astype(int), (A == B) * 1, 1 * (A == B),
    np.asarray(A == B, dtype=int), np.equal(A, B).astype(int)"""
    def eq(t):
        if isinstance(t, ast.Compare) and len(t.ops) == 1 and isinstance(t.ops[0], ast.Eq):
            return unparse(t.left), unparse(t.comparators[0]), True
        if isinstance(t, ast.Compare) and len(t.ops) == 1 and isinstance(t.ops[0], ast.NotEq):
            return unparse(t.left), unparse(t.comparators[0]), False
        if isinstance(t, ast.Call) and dotted(t.func) in ("np.equal", "np.not_equal") and len(t.args) == 2:
            return unparse(t.args[0]), unparse(t.args[1]), dotted(t.func) == "np.equal"
        return None

    def intlike(t):
        return unparse(t) in ("int", "'int'", '"int"', "np.int64", "'int64'", "np.int_", "np.intp")

    if isinstance(e, ast.Call) and dotted(e.func) == "np.where" and len(e.args) == 3:
        c = eq(e.args[0])
        vals = [const_value(a, None) for a in e.args[1:]]
        if c and vals in ([1, 0], [0, 1]) and not any(isinstance(v, bool) for v in vals):
            if (vals == [1, 0]) == c[2]:
                return c[0], c[1]
        return None
    if isinstance(e, ast.Call) and isinstance(e.func, ast.Attribute) and e.func.attr == "astype" and len(e.args) == 1 and intlike(e.args[0]):
        c = eq(e.func.value)
        return (c[0], c[1]) if c and c[2] else None
    if isinstance(e, ast.Call) and dotted(e.func) in ("np.asarray", "np.array") and e.args and any(k.arg == "dtype" and intlike(k.value) for k in e.keywords):
        c = eq(e.args[0])
        return (c[0], c[1]) if c and c[2] else None
    if isinstance(e, ast.BinOp) and isinstance(e.op, ast.Mult):
        for a, b in ((e.left, e.right), (e.right, e.left)):
            if const_value(b, None) == 1 and not isinstance(const_value(b, None), bool):
                c = eq(a)
                if c and c[2]:
                    return c[0], c[1]
    return None


CASES = ("-1", "0", "+")


def zeroing_model(fn, S):
    """Interpret the statements of eval_new_data_categoric's slow path over the three abstract cases of a row's categorical
    code.  Values per case: int, 'c' (the positive code itself), bool, ('row', k) = row k of the remembered contrast matrix,
    ('zero',).  Returns (table of the returned array per case, all stores go to fresh arrays?, explanation)."""
    x = fn.params[1]
    fast = S["fast"]
    policy = {id(n) for n in S["policy_nodes"].values()}
    state, freshness, notes = {}, {}, []

    def const(v):
        return {k: v for k in CASES}

    def is_codes(e):
        return isinstance(e, ast.Attribute) and e.attr == "codes" and isinstance(e.value, ast.Call) and dotted(e.value.func) == "pd.Categorical" \
            and [unparse(k.value) for k in e.value.keywords if k.arg == "categories"] == ["self.levels"] and e.value.args and unparse(e.value.args[0]) == x

    def cmp(a, op, b):
        if a == "c" and isinstance(b, int):
            # c is an unknown integer >= 1
            t = {ast.Eq: False if b < 1 else None, ast.NotEq: True if b < 1 else None, ast.Lt: False if b <= 1 else None,
                 ast.LtE: False if b < 1 else None, ast.Gt: True if b < 1 else None, ast.GtE: True if b <= 1 else None}.get(type(op))
            if t is None:
                raise AnalysisError(f"zeroing model: cannot decide `code {type(op).__name__} {b}` for a positive code in {fn.qual}")
            return t
        if isinstance(a, int) and isinstance(b, int) and not isinstance(a, bool):
            return {ast.Eq: a == b, ast.NotEq: a != b, ast.Lt: a < b, ast.LtE: a <= b, ast.Gt: a > b, ast.GtE: a >= b}[type(op)]
        raise AnalysisError(f"zeroing model: unmodelled comparison of {a!r} and {b!r} in {fn.qual}")

    def col_mask(e):
        """m[:, None] / m[:, np.newaxis] / m.reshape(-1, 1) -> m"""
        if isinstance(e, ast.Subscript) and isinstance(e.slice, ast.Tuple) and len(e.slice.elts) == 2 \
                and unparse(e.slice.elts[0]) == ":" and unparse(e.slice.elts[1]) in ("None", "np.newaxis"):
            return e.value
        if isinstance(e, ast.Call) and isinstance(e.func, ast.Attribute) and e.func.attr == "reshape" and [unparse(a) for a in e.args] in (["-1", "1"], ["(-1, 1)"]):
            return e.func.value
        return e

    def ev(e):
        e = col_mask(e)
        if is_codes(e):
            return {"-1": -1, "0": 0, "+": "c"}
        if isinstance(e, ast.Name):
            if e.id in state:
                return dict(state[e.id])
            raise AnalysisError(f"zeroing model: `{e.id}` is not a tracked array in {fn.qual}")
        if isinstance(e, ast.Constant) and isinstance(e.value, (int, float)) and not isinstance(e.value, bool):
            return const(int(e.value)) if e.value == int(e.value) else const(("other",))
        if isinstance(e, ast.UnaryOp) and isinstance(e.op, ast.USub) and isinstance(e.operand, ast.Constant):
            return const(-e.operand.value)
        if isinstance(e, ast.Call):
            d = dotted(e.func) or ""
            if d in ("np.copy", "np.array", "np.asarray", "np.ascontiguousarray") and e.args:
                return ev(e.args[0])
            if isinstance(e.func, ast.Attribute) and e.func.attr in ("copy", "to_numpy") and not e.args:
                return ev(e.func.value)
            if isinstance(e.func, ast.Attribute) and e.func.attr == "astype" and e.args and unparse(e.args[0]) in ("int", "'int'", "np.int64", "np.intp", "'int64'"):
                return ev(e.func.value)
            if d == "np.where" and len(e.args) == 3:
                m, a, b = (ev(z) for z in e.args)
                return {k: (a[k] if m[k] is True else b[k] if m[k] is False else _bad(m[k])) for k in CASES}
            if d in ("np.logical_not", "np.invert") and len(e.args) == 1:
                m = ev(e.args[0])
                return {k: _neg(m[k]) for k in CASES}
            if d in ("np.logical_and", "np.logical_or") and len(e.args) == 2:
                a, b = ev(e.args[0]), ev(e.args[1])
                f = (lambda p_, q_: p_ and q_) if d.endswith("and") else (lambda p_, q_: p_ or q_)
                return {k: f(_b(a[k]), _b(b[k])) for k in CASES}
            if d in ("np.zeros", "np.zeros_like"):
                return const(("zero",))
            if d in ("np.maximum", "np.clip") and len(e.args) >= 2:
                a = ev(e.args[0])
                lo = ev(e.args[1])
                if d == "np.clip" and len(e.args) == 3 and not (isinstance(e.args[2], ast.Constant) and e.args[2].value is None):
                    raise AnalysisError(f"zeroing model: clip with an upper bound in {fn.qual}")
                out = {}
                for k in CASES:
                    if a[k] == "c":
                        if isinstance(lo[k], int) and lo[k] <= 1:
                            out[k] = "c"
                        else:
                            raise AnalysisError(f"zeroing model: maximum of a positive code and {lo[k]!r}")
                    else:
                        out[k] = max(a[k], lo[k])
                return out
            raise AnalysisError(f"zeroing model: unmodelled call `{unparse(e)[:60]}` in {fn.qual}")
        if isinstance(e, ast.Compare) and len(e.ops) == 1:
            a, b = ev(e.left), ev(e.comparators[0])
            return {k: cmp(a[k], e.ops[0], b[k]) for k in CASES}
        if isinstance(e, ast.UnaryOp) and isinstance(e.op, (ast.Invert, ast.Not)):
            m = ev(e.operand)
            return {k: _neg(m[k]) for k in CASES}
        if isinstance(e, ast.BinOp) and isinstance(e.op, (ast.BitAnd, ast.BitOr)):
            a, b = ev(e.left), ev(e.right)
            f = (lambda p_, q_: p_ and q_) if isinstance(e.op, ast.BitAnd) else (lambda p_, q_: p_ or q_)
            return {k: f(_b(a[k]), _b(b[k])) for k in CASES}
        if isinstance(e, ast.BinOp) and isinstance(e.op, ast.Mult):
            a, b = ev(e.left), ev(e.right)
            out = {}
            for k in CASES:
                r, m = (a[k], b[k]) if isinstance(a[k], tuple) else (b[k], a[k])
                if not isinstance(r, tuple) or not (isinstance(m, bool) or m in (0, 1)):
                    raise AnalysisError(f"zeroing model: unmodelled product `{unparse(e)[:60]}` in {fn.qual}")
                out[k] = r if m else ("zero",)
            return out
        if isinstance(e, ast.Subscript) and unparse(e.value) == "self.contrast_matrix.matrix":
            i = ev(e.slice)
            out = {}
            for k in CASES:
                if i[k] == "c" or (isinstance(i[k], int) and not isinstance(i[k], bool)):
                    out[k] = ("row", i[k])
                else:
                    raise AnalysisError(f"zeroing model: the contrast matrix is indexed by {i[k]!r} in {fn.qual}")
            return out
        if isinstance(e, ast.Attribute) and unparse(e) == "self.contrast_matrix.matrix":
            return const(("matrix",))
        raise AnalysisError(f"zeroing model: unmodelled expression `{unparse(e)[:60]}` in {fn.qual}")

    def _bad(v):
        raise AnalysisError(f"zeroing model: {v!r} used as a mask in {fn.qual}")

    def _b(v):
        if isinstance(v, bool):
            return v
        _bad(v)

    def _neg(v):
        return not _b(v)

    def is_fresh(e):
        """the value of e is a new array (advanced indexing / np.where / arithmetic / explicit copy), not a view of the matrix"""
        if isinstance(e, ast.Name):
            return freshness.get(e.id, True)
        if isinstance(e, ast.Subscript) and unparse(e.value) == "self.contrast_matrix.matrix":
            return not isinstance(e.slice, (ast.Slice, ast.Constant))
        if isinstance(e, ast.Attribute) and unparse(e) == "self.contrast_matrix.matrix":
            return False
        if isinstance(e, ast.Call) and dotted(e.func) == "np.asarray" and e.args:
            return is_fresh(e.args[0])
        return True

    ret = None
    fresh_ok = True
    body = [st for st in fn.body]

    def run(stmts):
        nonlocal ret, fresh_ok
        for st in stmts:
            if st is fast or id(st) in policy:
                continue
            if isinstance(st, ast.If):
                # policy chains (if error: raise / elif warning: warn) do not touch the arrays (checked separately)
                if any(id(n) in policy for n in ast.walk(st)):
                    continue
                raise AnalysisError(f"zeroing model: unmodelled branch `{unparse(st.test)[:50]}` in {fn.qual}")
            if isinstance(st, ast.Expr):
                continue
            if isinstance(st, ast.Return):
                ret = ev(st.value)
                if not is_fresh(st.value):
                    pass
                return
            if isinstance(st, ast.Assign) and len(st.targets) == 1:
                t = st.targets[0]
                if isinstance(t, ast.Name):
                    try:
                        src = st.value
                        while isinstance(src, ast.Call) and dotted(src.func) == "np.asarray" and src.args:
                            src = src.args[0]
                        if isinstance(src, ast.Name) and src.id in state:
                            state[t.id] = state[src.id]   # an alias: stores through one name are seen through the other
                        else:
                            state[t.id] = ev(st.value)
                        freshness[t.id] = is_fresh(st.value)
                    except AnalysisError:
                        state.pop(t.id, None)  # not an array of this model (difference sets, messages)
                    continue
                if isinstance(t, ast.Subscript) and isinstance(t.value, ast.Name) and t.value.id in state:
                    if unparse(t.slice) in (":", "...", "slice(None)"):
                        m = const(True)
                    else:
                        m = ev(t.slice)
                    v = ev(st.value)
                    cur = state[t.value.id]
                    for k in CASES:
                        if _b(m[k]):
                            nv = v[k]
                            if nv == 0 and isinstance(cur[k], tuple):
                                nv = ("zero",)
                            cur[k] = nv
                    if not freshness.get(t.value.id, True):
                        fresh_ok = False
                        notes.append(f"`{unparse(st)[:60]}` stores into a view of self.contrast_matrix.matrix")
                    continue
                if isinstance(t, ast.Subscript) and unparse(t.value).startswith("self."):
                    fresh_ok = False
                    notes.append(f"`{unparse(st)[:60]}` stores into an attribute")
                    continue
                if isinstance(t, ast.Subscript) and isinstance(t.value, ast.Name) and t.value.id not in state:
                    continue  # not an array of this model (e.g. a configuration store: R10.1's business)
                if isinstance(t, ast.Attribute):
                    continue  # attribute writes at prediction are R6.3 / R7.1's business
            if isinstance(st, ast.AugAssign) and isinstance(st.target, ast.Name) and st.target.id in state and isinstance(st.op, ast.Mult):
                state[st.target.id] = ev(ast.BinOp(left=st.target, op=ast.Mult(), right=st.value))
                if not freshness.get(st.target.id, True):
                    fresh_ok = False
                    notes.append(f"`{unparse(st)[:60]}` multiplies a view of self.contrast_matrix.matrix in place")
                continue
            raise AnalysisError(f"zeroing model: unmodelled statement `{unparse(st)[:60]}` in {fn.qual}")

    run(body)
    if ret is None:
        raise AnalysisError(f"zeroing model: no return on the slow path of {fn.qual}")
    return ret, fresh_ok, "; ".join(notes) or "see the statements of the slow path"


def categoric_rules(prog, rep, rule_policy, rule_zero, fn):
    """R10.2 (consumer side) and R10.3 for one sibling; returns the comparable summary."""
    S = categoric_summary(prog, fn)
    F = S["facts"]
    c = cfg_of(fn)
    x = fn.params[1]
    obl(rep, fn, fn.node, rule_zero, F["categorical_all_with_remembered_levels"] and F["categorical_sites"] >= 2,
        "codes are taken from pd.Categorical(x, categories=self.levels) on the fast and on the slow path",
        f"{F['categorical_sites']} site(s)", "a categorical without the remembered `categories=self.levels` is built at prediction: levels are re-derived from the new data")
    obl(rep, fn, fn.node, rule_zero, F["matrix_index_sites"] >= 2,
        "both paths index the remembered self.contrast_matrix.matrix", f"{F['matrix_index_sites']} site(s)")
    # difference = set(x) - set(self.levels)
    diff = [s for s in walk_local(fn.node) if isinstance(s, ast.Assign) and isinstance(s.value, ast.BinOp) and isinstance(s.value.op, ast.Sub)]
    defs = {unparse(s.targets[0]): unparse(s.value) for s in walk_local(fn.node) if isinstance(s, ast.Assign) and len(s.targets) == 1}
    dname = None
    for s in diff:
        l, r = unparse(s.value.left), unparse(s.value.right)
        l, r = defs.get(l, l), defs.get(r, r)
        if l == f"set({x})" and r == "set(self.levels)":
            dname = unparse(s.targets[0])
    obl(rep, fn, diff[0] if diff else fn.node, rule_policy, dname is not None,
        "unseen levels = set(new values) - set(remembered levels)", "", "the unseen-level set is not `set(x) - set(self.levels)`")
    fast = S["fast"]

    def flag_source(name):
        """`flag = bool(X)` / `flag = len(X) > 0` / `flag = X`: the collection whose emptiness the flag stands for"""
        ds = [s_.value for s_ in walk_local(fn.node) if isinstance(s_, ast.Assign) and len(s_.targets) == 1 and unparse(s_.targets[0]) == name]
        if len(ds) != 1:
            return name
        v = ds[0]
        if isinstance(v, ast.Call) and dotted(v.func) == "bool" and len(v.args) == 1 and isinstance(v.args[0], ast.Name):
            return v.args[0].id
        if isinstance(v, ast.Compare) and len(v.ops) == 1 and isinstance(v.left, ast.Call) and dotted(v.left.func) == "len" and len(v.left.args) == 1 \
                and isinstance(v.left.args[0], ast.Name) and isinstance(v.ops[0], (ast.Gt, ast.NotEq)) and const_value(v.comparators[0], None) == 0:
            return v.left.args[0].id
        if isinstance(v, ast.Name):
            return v.id
        return name

    ok = fast is not None and dname is not None and flag_source(fast.test.operand.id) == dname
    if ok:
        rets = [n for n in fast.body if isinstance(n, ast.Return)]
        ok = len(rets) == 1 and isinstance(rets[0].value, ast.Subscript) and unparse(rets[0].value.value) == "self.contrast_matrix.matrix"
    obl(rep, fn, fast or fn.node, rule_zero, ok, "no unseen level: rows of the remembered contrast matrix are returned unchanged")
    # policy: error raises before any result is produced; warning warns and falls through
    pol = F["policy"]
    obl(rep, fn, fn.node, rule_policy, pol.get("error") == "raise", "'error' mode raises", str(pol), f"policy handling is {pol}")
    if "error" in S["policy_nodes"] and fast is not None:
        en = c.node_of(S["policy_nodes"]["error"])
        rets = [c.node_of(r) for r in walk_local(fn.node) if isinstance(r, ast.Return) and not any(r is z for z in ast.walk(fast))]
        obl(rep, fn, S["policy_nodes"]["error"], rule_policy, bool(rets) and all(c.dominates(en, r) for r in rets),
            "the 'error' test dominates every result that involves an unseen level")
    obl(rep, fn, fn.node, rule_policy, pol.get("warning") == "warn", "'warning' mode warns and falls through to the zeroed result")
    if "warning" in S["policy_nodes"]:
        w = S["policy_nodes"]["warning"]
        has_ret = any(isinstance(n, (ast.Return, ast.Raise)) for n in ast.walk(w))
        assigns_result = any(isinstance(n, ast.Assign) and not unparse(n.targets[0]).startswith("difference") for s in w.body for n in ast.walk(s))
        obl(rep, fn, w, rule_policy, not has_ret and not assigns_result,
            "the 'warning' branch only warns: the result is the same as in 'silent' mode", "",
            "the 'warning' branch returns/raises/changes the result: 'warning' and 'silent' differ in more than the warning")
    # zeroing discipline: abstract interpretation of the slow path over the three cases of a row's code
    # (-1 = unseen level, 0 = first remembered level, + = any later level)
    try:
        table, fresh, why = zeroing_model(fn, S)
    except AnalysisError as e:
        rep.defer(f"{rule_zero}: {e}")
        table, fresh, why = None, True, str(e)
    want = {"-1": ("zero",), "0": ("row", 0), "+": ("row", "c")}
    if table is None:
        want = None
    obl(rep, fn, fn.node, rule_zero, table == want,
        "per-row result: unseen level -> zero row; level k -> row k of the remembered contrast matrix (cases code=-1 / 0 / >0)",
        str(table), f"the rows returned for codes -1 / 0 / >0 are {table}, expected {want} ({why})")
    obl(rep, fn, fn.node, rule_zero, fresh,
        "masked stores go to an advanced-indexing copy (or a new array), never to the remembered contrast matrix", "",
        f"a store writes through to the remembered matrix: {why}")
    summary = dict(F)
    summary["fields"] = sorted({n.attr for n in ast.walk(fn.node) if is_self_attr(n)})
    summary["row_table"] = sorted(table.items()) if isinstance(table, dict) else table
    return summary


# ------------------------------------------------------------------------------------------
# component / effect ownership at Term(...) and GroupSpecificTerm(...) constructor sites (R6.4, R4.5, R5.6)
# ------------------------------------------------------------------------------------------
COPY_FUNCS = {"deepcopy", "copy.deepcopy"}


def _is_copy(node):
    return isinstance(node, ast.Call) and dotted(node.func) in COPY_FUNCS and len(node.args) == 1


def _innermost_branch(fn, node):
    """statements of the innermost if/elif/else branch (or function body) that contains node"""
    best = fn.body
    for i in ast.walk(fn.node):
        if isinstance(i, ast.If):
            for br in (i.body, i.orelse):
                if br and any(node is x for s in br for x in ast.walk(s)):
                    if len(br) == 1 and isinstance(br[0], ast.If) and br is i.orelse:
                        continue  # elif chain: descend
                    if sum(1 for s in br for _ in ast.walk(s)) < sum(1 for s in best for _ in ast.walk(s)):
                        best = br
    return best


def _product_info(fn, comp, defs):
    """for a comprehension `... for p in <product(A, B)>`: (var, [A, B]) or None"""
    if len(comp.generators) != 1 or not isinstance(comp.generators[0].target, ast.Name):
        return None
    it = comp.generators[0].iter
    if isinstance(it, ast.Name) and it.id in defs:
        it = defs[it.id]
    if isinstance(it, ast.Call) and dotted(it.func) in ("product", "itertools.product") and len(it.args) == 2:
        return comp.generators[0].target.id, list(it.args)
    return None


def ownership_sites(prog):
    """classify every Term(...) / GroupSpecificTerm(...) constructor site in terms.py.
    returns list of dict(fn, node, cls, args=[(position, source text, verdict, reason)])"""
    mod = prog.mod("terms.terms")
    out = []
    for q, fn in sorted(prog.functions.items()):
        if fn.module is not mod or fn.parent is not None:
            continue
        defs = {}
        for s in walk_local(fn.node):
            if isinstance(s, ast.Assign) and len(s.targets) == 1 and isinstance(s.targets[0], ast.Name):
                defs[s.targets[0].id] = s.value
        params = fn.params
        for call in calls_in(fn.node, local=False):
            cname = dotted(call.func)
            if cname not in ("Term", "GroupSpecificTerm"):
                continue
            branch = _innermost_branch(fn, call)
            # uses inside tests and raise statements do not keep an object in the result
            skip = set()
            for s in branch:
                for x in ast.walk(s):
                    if isinstance(x, ast.If):
                        skip |= {id(y) for y in ast.walk(x.test)}
                    if isinstance(x, ast.Raise):
                        skip |= {id(y) for y in ast.walk(x)}
            branch_src = [x for s in branch for x in ast.walk(s) if id(x) not in skip]
            # definitions local to this branch take precedence (names such as `products` are re-used per branch)
            bdefs = dict(defs)
            for s in branch:
                for x in ast.walk(s):
                    if isinstance(x, ast.Assign) and len(x.targets) == 1 and isinstance(x.targets[0], ast.Name):
                        bdefs[x.targets[0].id] = x.value
            # enclosing comprehension (multiplicity)
            comp = None
            for n in ast.walk(fn.node):
                if isinstance(n, (ast.ListComp, ast.GeneratorExp)) and any(call is x for x in ast.walk(n.elt)):
                    comp = n
            pinfo = _product_info(fn, comp, bdefs) if comp is not None else None
            site = {"fn": fn, "node": call, "cls": cname, "args": []}

            def classify(arg, position):
                a = arg.value if isinstance(arg, ast.Starred) else arg
                src = unparse(a)
                # copied
                if _is_copy(a):
                    return ("copied", f"{dotted(a.func)}(...)")
                if isinstance(a, (ast.ListComp, ast.GeneratorExp)) and _is_copy(a.elt):
                    return ("copied", "every element is deep-copied")
                if isinstance(a, ast.BinOp) and isinstance(a.op, ast.Add) and all(_is_copy(x) for x in (a.left, a.right)):
                    return ("copied", "concatenation of deep copies")
                # fresh
                if isinstance(a, ast.Call) and dotted(a.func) in ("Intercept", "Variable", "Call", "NegatedIntercept"):
                    return ("fresh", f"new {dotted(a.func)} object")
                # factor position of a group-specific term: sharing is benign (always full coding, same data)
                if cname == "GroupSpecificTerm" and position == 1:
                    return ("benign-shared", "grouping factor: every holder evaluates it with the same (full) coding")
                # an Intercept as effect carries no holder-dependent state
                if cname == "GroupSpecificTerm" and position == 0 and src == "self" and fn.cls is not None and fn.cls.name == "Intercept":
                    return ("benign-shared", "Intercept effect: evaluation state does not depend on the holder")
                # moved: owner object
                owner = None
                if isinstance(a, ast.Attribute) and a.attr in ("components", "common_components") and isinstance(a.value, ast.Name):
                    owner = a.value.id
                elif isinstance(a, ast.Name):
                    owner = a.id
                elif isinstance(a, ast.Subscript) and isinstance(a.value, ast.Name) and isinstance(a.slice, ast.Constant):
                    owner = f"{a.value.id}[{a.slice.value}]"
                elif isinstance(a, ast.Attribute) and isinstance(a.value, ast.Subscript) and isinstance(a.value.value, ast.Name) \
                        and isinstance(a.value.slice, ast.Constant) and a.attr == "components":
                    owner = f"{a.value.value.id}[{a.value.slice.value}]"
                if owner is None:
                    return ("shared", f"source `{src}` is neither copied, fresh nor a recognised moved operand")
                # multiplicity through product(...)
                if pinfo is not None and owner.startswith(pinfo[0] + "["):
                    k = int(owner[len(pinfo[0]) + 1:-1])
                    other_iter = pinfo[1][1 - k] if k in (0, 1) else None
                    this_iter0 = pinfo[1][k] if k in (0, 1) else None
                    if (cname == "GroupSpecificTerm" and position == 0 and fn.cls is not None and fn.cls.name == "Intercept"
                            and isinstance(this_iter0, ast.List) and [unparse(e) for e in this_iter0.elts] == ["self"]):
                        return ("benign-shared", "Intercept effect: evaluation state does not depend on the holder")
                    single = isinstance(other_iter, ast.List) and len(other_iter.elts) == 1
                    if not single:
                        return ("shared", f"`{src}`: the operand is paired with every element of `{unparse(other_iter)}`, "
                                          "so one object ends up in several terms")
                    this_iter = pinfo[1][k]
                    root_owner = unparse(this_iter)
                    # elements of a list literal like [self]: the owner is that name
                    if isinstance(this_iter, ast.List) and len(this_iter.elts) == 1 and isinstance(this_iter.elts[0], ast.Name):
                        owner_name = this_iter.elts[0].id
                    else:
                        owner_name = None
                    if owner_name == "self" and fn.cls is not None and fn.cls.name == "Intercept" and cname == "GroupSpecificTerm" and position == 0:
                        return ("benign-shared", "Intercept effect: evaluation state does not depend on the holder")
                    if owner_name is not None:
                        uses = [x for x in branch_src if isinstance(x, ast.Name) and x.id == owner_name and isinstance(x.ctx, ast.Load)]
                        iters = sum(1 for x in branch_src if isinstance(x, ast.Call) and dotted(x.func) in ("product", "itertools.product")
                                    and any(isinstance(e, ast.List) and any(isinstance(z, ast.Name) and z.id == owner_name for z in e.elts) for e in x.args))
                        if len(uses) > iters:
                            return ("shared", f"`{owner_name}` is used again in the same result")
                    return ("moved", f"each element of `{root_owner}` is used for exactly one new term")
                if comp is not None and pinfo is None and isinstance(a, ast.Name):
                    # the operand is the loop variable of the comprehension itself: [C(v, ...) for v in ITER (for w in OTHER)]
                    tg = {g.target.id: g for g in comp.generators if isinstance(g.target, ast.Name)}
                    if a.id in tg:
                        rest = [g for g in comp.generators if g is not tg[a.id]]
                        multi = [g for g in rest if not (isinstance(g.iter, ast.List) and len(g.iter.elts) == 1)]
                        if multi:
                            return ("shared", f"`{src}`: the operand is paired with every element of `{unparse(multi[0].iter)}`, "
                                              "so one object ends up in several terms")
                        uses_in_elt = [x for x in ast.walk(comp.elt) if isinstance(x, ast.Name) and x.id == a.id]
                        if len(uses_in_elt) > 1:
                            return ("shared", f"`{src}` is used {len(uses_in_elt)} times in one element of the comprehension")
                        return ("moved", f"each element of `{unparse(tg[a.id].iter)}` is used for exactly one new term")
                if comp is not None and pinfo is None:
                    # comprehension that does not iterate a product: owner constant across iterations?
                    tgt_names = {n.id for g in comp.generators for n in ast.walk(g.target) if isinstance(n, ast.Name)}
                    base = owner.split("[")[0]
                    if base not in tgt_names:
                        return ("shared", f"`{src}` is the same object in every iteration of the comprehension")
                # plain operand: must not occur anywhere else in the branch (it would stay part of the result)
                base = owner.split("[")[0]
                if base in ("self", *params):
                    others = [x for x in branch_src if isinstance(x, ast.Name) and x.id == base and isinstance(x.ctx, ast.Load)]
                    mine = [x for x in ast.walk(a) if isinstance(x, ast.Name) and x.id == base]
                    # other uses inside *other* constructor args of the same kind of source or in Model(...)/return position
                    extra = [x for x in others if not any(x is y for y in mine)]
                    # uses in tests (`self == other`) do not keep the object in the result: only consider uses in this branch
                    if extra:
                        return ("shared", f"`{base}` also occurs elsewhere in the same result ({len(extra)} more use(s)): "
                                          "the operand and the new term hold the same objects")
                    return ("moved", f"`{base}` is consumed: it occurs nowhere else in the result")
                return ("shared", f"source `{src}` is not an operand of this method")

            for i, a in enumerate(call.args):
                site["args"].append((i, unparse(a), *classify(a, i)))
            out.append(site)
    return out


OP_DUNDER = {ast.Add: "__add__", ast.Sub: "__sub__", ast.Mult: "__mul__", ast.MatMult: "__matmul__", ast.Div: "__truediv__",
             ast.BitOr: "__or__", ast.Pow: "__pow__"}


def consuming_operator_sites(prog, sites):
    """An operator overload that builds its result out of its operand's own objects (a constructor argument classified
    `moved` whose owner is `self` / the parameter) *consumes* that operand.  Applying such an operator to the same operand
    in every iteration of a comprehension or loop (`[self @ t for t in ...]`) puts the operand's objects into several
    results.  Returns pseudo-sites (cls 'Term' so that the ownership rule reports them) for loop-invariant operands."""
    mod = prog.mod("terms.terms")
    consumes = {}  # (class name, dunder) -> set of consumed roles {'self', 'other'}
    for st in sites:
        fn = st["fn"]
        if fn.cls is None or not fn.name.startswith("__"):
            continue
        for (_i, src, verdict, _why) in st["args"]:
            if verdict != "moved":
                continue
            base = src.lstrip("*").split(".")[0].split("[")[0]
            if base == "self":
                consumes.setdefault((fn.cls.name, fn.name), set()).add("self")
            elif len(fn.params) > 1 and base == fn.params[1]:
                consumes.setdefault((fn.cls.name, fn.name), set()).add("other")
    out = []
    for q, fn in sorted(prog.functions.items()):
        if fn.module is not mod or fn.parent is not None or fn.cls is None:
            continue
        for loop in ast.walk(fn.node):
            if isinstance(loop, (ast.ListComp, ast.GeneratorExp, ast.SetComp)):
                targets = {n.id for g in loop.generators for n in ast.walk(g.target) if isinstance(n, ast.Name)}
                bodies = [loop.elt]
            elif isinstance(loop, ast.For):
                targets = {n.id for n in ast.walk(loop.target) if isinstance(n, ast.Name)}
                bodies = loop.body
            else:
                continue
            for b in bodies:
                for x in ast.walk(b):
                    if isinstance(x, ast.BinOp) and type(x.op) in OP_DUNDER and isinstance(x.left, ast.Name) and x.left.id == "self" \
                            and "self" not in targets:
                        d = OP_DUNDER[type(x.op)]
                        if "self" in consumes.get((fn.cls.name, d), set()):
                            out.append({"fn": fn, "node": x, "cls": "Term", "args": [
                                (0, "self", "shared", f"`self` is the left operand of `{fn.cls.name}.{d}` in every iteration, and that operator "
                                                      "builds its result from self's own components (no copy)")]})
    # the same operator applied once, while the operand also stays in the result: `Model(self, self @ other)`
    for q, fn in sorted(prog.functions.items()):
        if fn.module is not mod or fn.parent is not None or fn.cls is None:
            continue
        in_loop = {id(x) for st in out if st["fn"] is fn for x in [st["node"]]}
        for x in ast.walk(fn.node):
            if not (isinstance(x, ast.BinOp) and type(x.op) in OP_DUNDER and id(x) not in in_loop):
                continue
            if not (isinstance(x.left, ast.Name) and x.left.id == "self"):
                continue
            d = OP_DUNDER[type(x.op)]
            roles = consumes.get((fn.cls.name, d), set())
            branch = _innermost_branch(fn, x)
            skip = set()
            for s in branch:
                for y in ast.walk(s):
                    if isinstance(y, ast.If):
                        skip |= {id(z) for z in ast.walk(y.test)}
                    if isinstance(y, ast.Raise):
                        skip |= {id(z) for z in ast.walk(y)}
            if id(x) in skip:
                continue
            for role, operand in (("self", x.left), ("other", x.right)):
                if role not in roles or not isinstance(operand, ast.Name):
                    continue
                if role == "other" and operand.id not in fn.params:
                    continue
                extra = [y for s in branch for y in ast.walk(s) if isinstance(y, ast.Name) and y.id == operand.id
                         and isinstance(y.ctx, ast.Load) and y is not operand and id(y) not in skip]
                if extra:
                    out.append({"fn": fn, "node": x, "cls": "Term", "args": [
                        (0, operand.id, "shared", f"`{operand.id}` is an operand of `{fn.cls.name}.{d}`, which builds its result from that operand's "
                                                  f"own components (no copy), and `{operand.id}` occurs {len(extra)} more time(s) in the same result")]})
    return out


def ownership_rule(prog, rep, rule, which=("Term", "GroupSpecificTerm")):
    all_sites = ownership_sites(prog)
    sites = [s for s in all_sites if s["cls"] in which]
    if "Term" in which:
        sites += consuming_operator_sites(prog, all_sites)
    for s in sites:
        fn, call = s["fn"], s["node"]
        bad = [a for a in s["args"] if a[2] == "shared"]
        verdicts = ", ".join(f"{a[1]}: {a[2]}" for a in s["args"])
        obl(rep, fn, call, rule, not bad, short(call, 90),
            verdicts,
            "; ".join(f"{a[1]}: {a[3]}" for a in bad) + " - objects with per-term evaluation state get two holders "
            "(labels and columns disagree; evaluating the training frame as new data changes the width)")
    return len(sites)


# ------------------------------------------------------------------------------------------
# identity: __eq__ compares every identity field completely (R2.1e, R12.6)
# ------------------------------------------------------------------------------------------
_REF_PROG = []


def _reference_program():
    """the snapshot the rules were confirmed on (sa/reference_src), loaded once; None if it is not there"""
    if not _REF_PROG:
        import os
        from ..core import Program, VERIF
        root = os.path.join(VERIF, "sa", "reference_src")
        try:
            _REF_PROG.append(Program(root, normalise=False) if os.path.isdir(os.path.join(root, "formulae")) else None)
        except Exception:  # noqa: BLE001
            _REF_PROG.append(None)
    return _REF_PROG[0]


def eq_compares_fields(prog, rep, rule, class_quals, extra_from_str=False):
    from .C02 import _constant_fields, _self_fields

    for q in class_quals:
        cls = prog.cls(q)
        e, h = cls.methods.get("__eq__"), cls.methods.get("__hash__")
        if e is None or h is None:
            continue
        fields = _self_fields(h.node) - {"__class__"} - _constant_fields(cls)
        # the identity fields confirmed on the reference tree stay identity fields: replacing them in BOTH __eq__ and __hash__ by
        # a derived, lossy summary (a name, a length) would otherwise go unnoticed
        ref = _reference_program()
        if ref is not None:
            rq = q if q.startswith("formulae.") else f"formulae.{q}"
            rc = ref.classes.get(rq)
            if rc is not None and "__hash__" in rc.methods:
                init = cls.methods.get("__init__")
                assigned = {n.attr for n in ast.walk(init.node) if isinstance(n, ast.Attribute) and isinstance(n.ctx, ast.Store) and is_self_attr(n)} if init else set()
                fields |= (_self_fields(rc.methods["__hash__"].node) - {"__class__"} - _constant_fields(rc)) & assigned
        if extra_from_str and "__str__" in cls.methods:
            fields |= (_self_fields(cls.methods["__str__"].node) & _self_fields(e.node)) - {"__class__"}
        other = e.params[1]
        direct = set()
        for n in ast.walk(e.node):
            if isinstance(n, ast.Compare) and len(n.ops) == 1 and isinstance(n.ops[0], ast.Eq):
                a, b = n.left, n.comparators[0]
                for x, y in ((a, b), (b, a)):
                    if is_self_attr(x) and isinstance(y, ast.Attribute) and isinstance(y.value, ast.Name) and y.value.id == other and y.attr == x.attr:
                        direct.add(x.attr)
        # the direct comparisons must all be conjuncts of what is returned (not under `or`, not negated)
        ors = [n for n in ast.walk(e.node) if isinstance(n, ast.BoolOp) and isinstance(n.op, ast.Or)]
        missing = sorted(fields - direct)
        obl(rep, e, e.node, rule, not missing and not ors,
            f"{cls.name}.__eq__ compares every identity field completely: {sorted(fields)}",
            "each field is compared as `self.f == other.f`",
            f"{cls.name}.__eq__ does not compare {missing} as a whole (`self.f == other.f`): objects that differ only there "
            "(a longer argument list, another keyword value) are treated as the same term and merged by + / removed by -")


# ------------------------------------------------------------------------------------------
# dtype narrowing: no data-dependent value is stored into an integer-typed / borrowed-dtype array
# ------------------------------------------------------------------------------------------
ALLOC = {"np.zeros", "np.empty", "np.ones", "np.full", "np.eye", "np.zeros_like", "np.empty_like", "np.ones_like", "np.ndarray", "np.identity"}


def _int_like_dtype(node):
    """'int' | 'borrowed:<expr>' | None for the dtype= argument of an allocation"""
    if node is None:
        return None
    s = unparse(node)
    if s in ("int", "'int'", "np.int64", "np.int32", "np.int_", "np.intp", "'int64'", "'int32'", "'i8'", "'i4'", "bool", "np.bool_", "np.int8", "np.uint8"):
        return "int"
    if isinstance(node, ast.Attribute) and node.attr == "dtype":
        return "borrowed:" + unparse(node.value)
    if isinstance(node, ast.IfExp):
        a, b = _int_like_dtype(node.body), _int_like_dtype(node.orelse)
        if a or b:
            return "conditional:" + s
    if isinstance(node, ast.Name) and node.id not in ("float", "complex", "object"):
        return "computed:" + s
    return None


def dtype_narrowing(prog, rep, rule, fns=None):
    n = 0
    for q, f in sorted(prog.functions.items()):
        if f.parent is not None or (fns is not None and q not in fns):
            continue
        allocs = {}
        ldefs = {}
        for s in ast.walk(f.node):
            if isinstance(s, ast.Assign) and len(s.targets) == 1 and isinstance(s.targets[0], ast.Name):
                ldefs.setdefault(s.targets[0].id, []).append(s.value)
        for s in ast.walk(f.node):
            if isinstance(s, ast.Assign) and len(s.targets) == 1 and isinstance(s.targets[0], (ast.Name, ast.Attribute)) and isinstance(s.value, ast.Call) \
                    and dotted(s.value.func) in ALLOC:
                dt = None
                for k in s.value.keywords:
                    if k.arg == "dtype":
                        dv = k.value
                        if isinstance(dv, ast.Name) and len(ldefs.get(dv.id, [])) == 1:
                            dv = ldefs[dv.id][0]
                        dt = _int_like_dtype(dv)
                if dotted(s.value.func) in ("np.zeros_like", "np.empty_like", "np.ones_like") and s.value.args and dt is None:
                    dt = "borrowed:" + unparse(s.value.args[0])
                if dt:
                    allocs[unparse(s.targets[0])] = (dt, s)
        if not allocs:
            continue
        for s in ast.walk(f.node):
            tgt, val = None, None
            if isinstance(s, ast.Assign) and len(s.targets) == 1 and isinstance(s.targets[0], ast.Subscript):
                tgt, val = unparse(s.targets[0].value), s.value
            elif isinstance(s, ast.AugAssign) and isinstance(s.target, ast.Subscript):
                tgt, val = unparse(s.target.value), s.value
            elif isinstance(s, ast.AugAssign) and isinstance(s.target, (ast.Name, ast.Attribute)):
                tgt, val = unparse(s.target), s.value
            if tgt not in allocs:
                continue
            n += 1
            dt, alloc = allocs[tgt]

            def int_valued(v):
                if isinstance(v, ast.Constant) and isinstance(v.value, (int, bool)) and not isinstance(v.value, float):
                    return True
                if isinstance(v, ast.UnaryOp) and isinstance(v.op, ast.USub):
                    return int_valued(v.operand)
                if isinstance(v, ast.Subscript) and unparse(v.value) in allocs and allocs[unparse(v.value)][0] == "int":
                    return True
                if isinstance(v, (ast.Name, ast.Attribute)) and unparse(v) in allocs and allocs[unparse(v)][0] == "int":
                    return True
                if isinstance(v, ast.BinOp) and isinstance(v.op, (ast.Add, ast.Sub, ast.Mult)):
                    return int_valued(v.left) and int_valued(v.right)
                return False

            ok = int_valued(val)
            if not ok and dt.startswith("borrowed:"):
                # values taken from the very array the dtype was borrowed from keep their type
                src = dt.split(":", 1)[1]
                v = val
                while isinstance(v, ast.Subscript):
                    v = v.value
                ok = unparse(v) == src
            obl(rep, f, s, rule, ok, f"`{short(s, 60)}` into `{tgt}` allocated as `{short(alloc.value, 50)}`",
                "the stored value is an integer constant / comes from an integer table",
                f"`{tgt}` has dtype {dt.split(':')[0]} ({short(alloc.value, 50)}) but receives `{short(val, 40)}`: numpy silently truncates / wraps "
                "real-valued data (e.g. -1.75 becomes -1)")
    return n


# ---- what a set-valued function collects ------------------------------------------------------
def union_summary(fn):
    """Summarise a function that builds and returns a set: frozenset of contributions
         ('each', <iterable text>, <element text with the loop variable written $>, <filter text or None>)
         ('one', <set expression text>, <guard text or None>)
         ('elem', <element expression text>, <guard text or None>)
    or None when the function does something this little algebra does not model (then the caller must not guess).
    Recognised spellings: set()/set(E)/{a, b}/A | B/A.union(B, ...)/set().union(*[E for v in I])/{x for v in I for x in E}
    and an accumulator filled with .update / |= / .add, inside `for v in I` loops and `if` guards."""
    import copy
    from ..canon import _else_form

    body = _else_form(copy.deepcopy(strip_docstring(fn.node.body)))

    def forward_adjacent(stmts):
        """`t = E` directly followed by the only statement that reads t (once): E is written where t was read"""
        changed = True
        while changed:
            changed = False
            for i in range(len(stmts) - 1):
                a, b = stmts[i], stmts[i + 1]
                if isinstance(a, ast.Assign) and len(a.targets) == 1 and isinstance(a.targets[0], ast.Name) and isinstance(b, (ast.Expr, ast.Assign, ast.Return, ast.AugAssign)):
                    t = a.targets[0].id
                    reads_b = [n for n in ast.walk(b) if isinstance(n, ast.Name) and n.id == t and isinstance(n.ctx, ast.Load)]
                    stores_b = [n for n in ast.walk(b) if isinstance(n, ast.Name) and n.id == t and isinstance(n.ctx, ast.Store)]
                    later = [n for st in stmts[i + 2:] for n in ast.walk(st) if isinstance(n, ast.Name) and n.id == t and isinstance(n.ctx, ast.Load)]
                    # later reads are fine when every one of them is preceded by a new definition of t (same pattern repeated)
                    redefined = any(isinstance(st, ast.Assign) and len(st.targets) == 1 and isinstance(st.targets[0], ast.Name) and st.targets[0].id == t
                                    for st in stmts[i + 2:])
                    if len(reads_b) == 1 and not stores_b and (not later or redefined) and t.startswith("gen__item"):
                        class R(ast.NodeTransformer):
                            def visit_Name(self, n):
                                return copy.deepcopy(a.value) if n is reads_b[0] else n
                        stmts[i + 1] = R().visit(b)
                        del stmts[i]
                        changed = True
                        break
        for st in stmts:
            for fld in ("body", "orelse"):
                sub_ = getattr(st, fld, None)
                if isinstance(sub_, list) and sub_ and isinstance(sub_[0], ast.stmt):
                    forward_adjacent(sub_)

    forward_adjacent(body)

    def split_extended_list(stmts):
        """L = A ; if G: L = L + [x] ; for v in L: BODY(v)   ->   for v in A: BODY(v) ; if G: BODY(x)      (L used nowhere else)"""
        for i in range(len(stmts) - 2):
            a, b, c = stmts[i], stmts[i + 1], stmts[i + 2]
            if not (isinstance(a, ast.Assign) and len(a.targets) == 1 and isinstance(a.targets[0], ast.Name) and isinstance(b, ast.If) and not b.orelse
                    and len(b.body) == 1 and isinstance(c, ast.For) and not c.orelse and isinstance(c.iter, ast.Name) and isinstance(c.target, ast.Name)):
                continue
            L = a.targets[0].id
            if c.iter.id != L:
                continue
            ext = b.body[0]
            extra = None
            if isinstance(ext, ast.Assign) and len(ext.targets) == 1 and unparse(ext.targets[0]) == L and isinstance(ext.value, ast.BinOp) and isinstance(ext.value.op, ast.Add) \
                    and unparse(ext.value.left) == L and isinstance(ext.value.right, ast.List):
                extra = ext.value.right.elts
            elif isinstance(ext, ast.AugAssign) and isinstance(ext.op, ast.Add) and unparse(ext.target) == L and isinstance(ext.value, ast.List) and False:
                extra = ext.value.elts   # `L += [x]` would extend A itself: not the same
            if extra is None or any(isinstance(e_, ast.Starred) for e_ in extra):
                continue
            uses = [n for st in stmts for n in ast.walk(st) if isinstance(n, ast.Name) and n.id == L]
            if len(uses) != 4 + 0 and len(uses) != 4:
                continue
            v = c.target.id
            loop_a = ast.For(target=c.target, iter=copy.deepcopy(a.value), body=c.body, orelse=[])
            tail = []
            for e_ in extra:
                class S(ast.NodeTransformer):
                    def visit_Name(self, n):
                        return copy.deepcopy(e_) if n.id == v and isinstance(n.ctx, ast.Load) else n
                tail.extend(S().visit(copy.deepcopy(st)) for st in c.body)
            guarded = ast.If(test=b.test, body=tail or [ast.Pass()], orelse=[])
            for x_ in (loop_a, guarded):
                ast.copy_location(x_, c)
                ast.fix_missing_locations(x_)
            stmts[i:i + 3] = [loop_a, guarded]
            return True
        return False

    def drop_name_aliases(stmts):
        """t = u (two plain names, t bound once, u not re-bound afterwards): t is u"""
        for i, a in enumerate(stmts):
            if isinstance(a, ast.Assign) and len(a.targets) == 1 and isinstance(a.targets[0], ast.Name) and isinstance(a.value, ast.Name):
                t, u = a.targets[0].id, a.value.id
                st_t = [n for st in stmts for n in ast.walk(st) if isinstance(n, ast.Name) and n.id == t and isinstance(n.ctx, ast.Store)]
                st_u = [n for st in stmts[i + 1:] for n in ast.walk(st) if isinstance(n, ast.Name) and n.id == u and isinstance(n.ctx, ast.Store)]
                if len(st_t) == 1 and not st_u and t != u:
                    for st in stmts[i + 1:]:
                        for n in ast.walk(st):
                            if isinstance(n, ast.Name) and n.id == t:
                                n.id = u
                    del stmts[i]
                    return True
        return False

    while drop_name_aliases(body):
        pass
    while split_extended_list(body):
        pass
    # `if g: ...; return acc  else: ...; return acc`  ->  single trailing `return acc`
    def leaf_returns(stmts):
        if not stmts:
            return None
        last = stmts[-1]
        if isinstance(last, ast.Return) and isinstance(last.value, ast.Name):
            return {last.value.id}
        if isinstance(last, ast.If) and last.orelse:
            a, b = leaf_returns(last.body), leaf_returns(last.orelse)
            return None if a is None or b is None else a | b
        return None

    def drop_leaf_returns(stmts):
        last = stmts[-1]
        if isinstance(last, ast.Return):
            stmts.pop()
            if not stmts:
                stmts.append(ast.Pass())
        else:
            drop_leaf_returns(last.body)
            drop_leaf_returns(last.orelse)

    if body and isinstance(body[-1], ast.If):
        names = leaf_returns(body)
        if names is not None and len(names) == 1:
            drop_leaf_returns(body)
            body.append(ast.Return(value=ast.Name(id=next(iter(names)), ctx=ast.Load())))
    rets = [n for st in body for n in ast.walk(st) if isinstance(n, ast.Return)]
    if len(rets) != 1 or rets[0].value is None or rets[0] is not body[-1]:
        return None

    def sub(expr, var):
        e = ast.parse(unparse(expr), mode="eval").body
        for n in ast.walk(e):
            if isinstance(n, ast.Name) and n.id == var:
                n.id = "$"
        return unparse(e)

    def comp(c, guard):
        """comprehension / generator whose elements are SETS to be united (flatten=True) or elements"""
        if len(c.generators) == 1 and isinstance(c.generators[0].target, ast.Name):
            g = c.generators[0]
            flt = " and ".join(unparse(i) for i in g.ifs) or None
            if flt is not None:
                flt = sub(ast.parse(flt, mode="eval").body, g.target.id)
            return g, flt
        return None, None

    def list_sources(name):
        """a local list built as list(X) / [*X] / [] and then grown by .append(e) / .extend(Y) under optional guards:
        [('iter', X text) | ('item', e node, guard)] or None"""
        out = []
        inited = False

        def walk(stmts, guard):
            nonlocal inited
            for st in stmts:
                if isinstance(st, ast.Assign) and len(st.targets) == 1 and isinstance(st.targets[0], ast.Name) and st.targets[0].id == name:
                    v = st.value
                    # name = name + [e, ...]  (a new, longer list; possibly under a guard)
                    if inited and isinstance(v, ast.BinOp) and isinstance(v.op, ast.Add) and unparse(v.left) == name and isinstance(v.right, ast.List) \
                            and not any(isinstance(x, ast.Starred) for x in v.right.elts):
                        out.extend(("item", x, guard) for x in v.right.elts)
                        continue
                    if inited or guard is not None:
                        return False
                    inited = True
                    if isinstance(v, ast.Call) and dotted(v.func) in ("list", "tuple") and len(v.args) == 1:
                        out.append(("iter", unparse(v.args[0])))
                    elif isinstance(v, ast.List) and not v.elts:
                        pass
                    elif isinstance(v, ast.List) and all(isinstance(x, ast.Starred) for x in v.elts):
                        out.extend(("iter", unparse(x.value)) for x in v.elts)
                    elif isinstance(v, ast.BinOp) and isinstance(v.op, ast.Add):
                        out.append(("iter", unparse(v.left)))
                        out.append(("iter", unparse(v.right)))
                    elif isinstance(v, (ast.Attribute, ast.Name)):
                        out.append(("iter", unparse(v)))  # an existing sequence (it is only read here)
                    else:
                        return False
                elif isinstance(st, ast.Expr) and isinstance(st.value, ast.Call) and isinstance(st.value.func, ast.Attribute) \
                        and unparse(st.value.func.value) == name and len(st.value.args) == 1:
                    if st.value.func.attr == "append":
                        out.append(("item", st.value.args[0], guard))
                    elif st.value.func.attr == "extend" and guard is None:
                        out.append(("iter", unparse(st.value.args[0])))
                    else:
                        return False
                elif isinstance(st, ast.If):
                    g = unparse(st.test)
                    if not walk(st.body, g if guard is None else f"{guard} and {g}"):
                        return False
                    if not walk(st.orelse, f"not ({g})" if guard is None else f"{guard} and not ({g})"):
                        return False
                elif isinstance(st, (ast.For, ast.While, ast.Try, ast.With)):
                    if any(isinstance(n, ast.Name) and n.id == name and isinstance(n.ctx, ast.Store) for n in ast.walk(st)) or \
                            any(isinstance(n, ast.Attribute) and unparse(n.value) == name and n.attr in ("append", "extend", "insert", "remove", "pop") for n in ast.walk(st)):
                        return False
            return True

        if not walk(body, None) or not inited:
            return None
        return out

    def set_list_sources(name):
        got = set()
        inited = False

        def walk(stmts, guard):
            nonlocal inited
            for st in stmts:
                if isinstance(st, ast.Assign) and len(st.targets) == 1 and isinstance(st.targets[0], ast.Name) and st.targets[0].id == name:
                    if inited or guard is not None:
                        return False
                    inited = True
                    v = st.value
                    if isinstance(v, ast.ListComp):
                        g, flt = comp(v, None)
                        if g is None:
                            return False
                        got.add(("each", unparse(g.iter), sub(v.elt, g.target.id), flt))
                    elif isinstance(v, ast.List):
                        for x in v.elts:
                            if isinstance(x, ast.Starred):
                                return False
                            got.add(("one", unparse(x), None))
                    else:
                        return False
                elif isinstance(st, ast.Expr) and isinstance(st.value, ast.Call) and isinstance(st.value.func, ast.Attribute) \
                        and unparse(st.value.func.value) == name and st.value.func.attr == "append" and len(st.value.args) == 1:
                    got.add(("one", unparse(st.value.args[0]), guard))
                elif isinstance(st, ast.If):
                    g_ = unparse(st.test)
                    if not walk(st.body, g_ if guard is None else f"{guard} and {g_}") or \
                            not walk(st.orelse, f"not ({g_})" if guard is None else f"{guard} and not ({g_})"):
                        return False
                elif isinstance(st, ast.For) and isinstance(st.target, ast.Name) and not st.orelse and guard is None and inited \
                        and any(isinstance(n, ast.Name) and n.id == name for n in ast.walk(st)):
                    # for v in I: [if c:] name.append(E)
                    inner, flt = st.body, None
                    if len(inner) == 1 and isinstance(inner[0], ast.If) and not inner[0].orelse:
                        flt = sub(inner[0].test, st.target.id)
                        inner = inner[0].body
                    if not (len(inner) == 1 and isinstance(inner[0], ast.Expr) and isinstance(inner[0].value, ast.Call)
                            and isinstance(inner[0].value.func, ast.Attribute) and unparse(inner[0].value.func.value) == name
                            and inner[0].value.func.attr == "append" and len(inner[0].value.args) == 1):
                        return False
                    got.add(("each", unparse(st.iter), sub(inner[0].value.args[0], st.target.id), flt))
                elif isinstance(st, (ast.For, ast.While, ast.Try, ast.With)):
                    if any(isinstance(n, ast.Name) and n.id == name for n in ast.walk(st)):
                        return False
                elif any(isinstance(n, ast.Name) and n.id == name and isinstance(n.ctx, ast.Store) for n in ast.walk(st)):
                    return False
            return True

        if not walk(body, None) or not inited:
            return None
        return got

    def ev(e, guard):
        if isinstance(e, ast.Call):
            d = dotted(e.func)
            if d == "set" and not e.args and not e.keywords:
                return set()
            if d in ("set", "frozenset") and len(e.args) == 1 and not e.keywords:
                a = e.args[0]
                if isinstance(a, (ast.ListComp, ast.GeneratorExp, ast.SetComp)):
                    g, flt = comp(a, guard)
                    if g is None:
                        return None
                    return {("each-elem", unparse(g.iter), sub(a.elt, g.target.id), flt)}
                return {("one", unparse(a), guard)}
            if isinstance(e.func, ast.Attribute) and e.func.attr == "copy" and not e.args and not e.keywords:
                return ev(e.func.value, guard)
            if isinstance(e.func, ast.Attribute) and e.func.attr == "union" and not e.keywords:
                base = ev(e.func.value, guard) if not (isinstance(e.func.value, ast.Name) and e.func.value.id == "set") else set()
                if base is None:
                    return None
                out = set(base)
                for a in e.args:
                    if isinstance(a, ast.Starred):
                        inner = a.value
                        if isinstance(inner, (ast.ListComp, ast.GeneratorExp)):
                            g, flt = comp(inner, guard)
                            if g is None:
                                return None
                            srcs = list_sources(g.iter.id) if isinstance(g.iter, ast.Name) else None
                            if srcs is not None and flt is None:
                                # the comprehension ranges over a local list assembled from several sources
                                for src in srcs:
                                    if src[0] == "iter":
                                        out.add(("each", src[1], sub(inner.elt, g.target.id), None))
                                    else:
                                        one = ast.parse(unparse(inner.elt), mode="eval").body
                                        for n_ in ast.walk(one):
                                            if isinstance(n_, ast.Name) and n_.id == g.target.id:
                                                n_.id = "__ITEM__"
                                        out.add(("one", unparse(one).replace("__ITEM__", unparse(src[1])), src[2]))
                            else:
                                out.add(("each", unparse(g.iter), sub(inner.elt, g.target.id), flt))
                        elif isinstance(inner, ast.Name):
                            # *L with L a local list of SETS: [E(v) for v in I] grown by .append(S) under optional guards
                            got = set_list_sources(inner.id)
                            if got is None:
                                return None
                            out |= got
                        else:
                            return None
                    else:
                        r = ev(a, guard)
                        if r is None:
                            r = {("one", unparse(a), guard)}
                        out |= r
                return out
            return None
        if isinstance(e, ast.Set):
            return {("elem", unparse(x), guard) for x in e.elts}
        if isinstance(e, ast.SetComp):
            if len(e.generators) == 2 and isinstance(e.generators[0].target, ast.Name) and isinstance(e.generators[1].target, ast.Name) \
                    and unparse(e.elt) == e.generators[1].target.id and not e.generators[1].ifs:
                g = e.generators[0]
                flt = " and ".join(unparse(i) for i in g.ifs) or None
                return {("each", unparse(g.iter), sub(e.generators[1].iter, g.target.id), flt and sub(ast.parse(flt, mode="eval").body, g.target.id))}
            return None
        if isinstance(e, ast.BinOp) and isinstance(e.op, ast.BitOr):
            a, b = ev(e.left, guard), ev(e.right, guard)
            if a is None:
                a = {("one", unparse(e.left), guard)}
            if b is None:
                b = {("one", unparse(e.right), guard)}
            return a | b
        if isinstance(e, ast.Name):
            return acc(e.id)
        if isinstance(e, ast.Attribute):
            return {("one", unparse(e), guard)}
        return None

    seen = set()

    def acc(name):
        if name in seen:
            return None
        seen.add(name)
        out = set()
        found_init = False

        def walk(stmts, loop, guard):
            nonlocal found_init
            for s in stmts:
                if isinstance(s, ast.Assign) and len(s.targets) == 1 and isinstance(s.targets[0], ast.Name) and s.targets[0].id == name:
                    v = s.value
                    # acc = acc | E  /  acc = acc.union(E)
                    selfref = any(isinstance(n, ast.Name) and n.id == name for n in ast.walk(v))
                    if selfref:
                        if isinstance(v, ast.BinOp) and isinstance(v.op, ast.BitOr) and unparse(v.left) == name:
                            if not contribute(v.right, loop, guard):
                                return False
                        elif isinstance(v, ast.Call) and isinstance(v.func, ast.Attribute) and v.func.attr == "union" and unparse(v.func.value) == name \
                                and len(v.args) == 1 and not isinstance(v.args[0], ast.Starred):
                            if not contribute(v.args[0], loop, guard):
                                return False
                        else:
                            return False
                    else:
                        if loop is not None or guard is not None or found_init:
                            return False
                        r = ev(v, None)
                        if r is None:
                            return False
                        out.update(r)
                        found_init = True
                elif isinstance(s, ast.AugAssign) and isinstance(s.target, ast.Name) and s.target.id == name:
                    if not isinstance(s.op, ast.BitOr) or not contribute(s.value, loop, guard):
                        return False
                elif isinstance(s, ast.Expr) and isinstance(s.value, ast.Call) and isinstance(s.value.func, ast.Attribute) \
                        and unparse(s.value.func.value) == name:
                    c = s.value
                    if c.func.attr == "update" and len(c.args) >= 1 and not c.keywords:
                        for a in c.args:
                            if not contribute(a, loop, guard):
                                return False
                    elif c.func.attr == "add" and len(c.args) == 1:
                        if loop is not None:
                            out.add(("each-elem", loop[0], sub(c.args[0], loop[1]), guard))
                        else:
                            out.add(("elem", unparse(c.args[0]), guard))
                    else:
                        return False
                elif isinstance(s, ast.For):
                    if s.orelse or loop is not None or not isinstance(s.target, ast.Name):
                        if any(isinstance(n, ast.Name) and n.id == name for n in ast.walk(s)):
                            return False
                        continue
                    if any(isinstance(n, (ast.Break, ast.Continue, ast.Return)) for n in ast.walk(s)):
                        if any(isinstance(n, ast.Name) and n.id == name for n in ast.walk(s)):
                            return False
                    if not walk(s.body, (unparse(s.iter), s.target.id), guard):
                        return False
                elif isinstance(s, ast.If):
                    g = unparse(s.test)
                    if loop is not None:
                        g = sub(s.test, loop[1])
                    g1 = g if guard is None else f"{guard} and {g}"
                    g2 = f"not ({g})" if guard is None else f"{guard} and not ({g})"
                    if not walk(s.body, loop, g1) or not walk(s.orelse, loop, g2):
                        return False
                elif isinstance(s, (ast.Return, ast.Pass)):
                    continue
                elif isinstance(s, ast.Expr) and isinstance(s.value, ast.Constant):
                    continue
                else:
                    if any(isinstance(n, ast.Name) and n.id == name for n in ast.walk(s)):
                        return False
            return True

        def contribute(e, loop, guard):
            if loop is not None:
                uses_var = any(isinstance(n, ast.Name) and n.id == loop[1] for n in ast.walk(e))
                if uses_var:
                    out.add(("each", loop[0], sub(e, loop[1]), guard))
                    return True
            r = ev(e, guard)
            if r is None:
                out.add(("one", unparse(e), guard))
            else:
                out.update(r)
            return True

        if not walk(body, None, None) or not found_init:
            return None
        return out

    r = ev(rets[0].value, None)
    return None if r is None else frozenset(r)


# ---- one-shot iterators --------------------------------------------------------------------
ITERATOR_MAKERS = {"product", "combinations", "permutations", "chain", "zip", "map", "filter", "iter", "enumerate", "reversed",
                   "combinations_with_replacement", "islice", "starmap", "zip_longest", "groupby", "accumulate", "compress", "takewhile", "dropwhile"}


def one_shot_iterators(prog, rep, rule, modules=None):
    """A local bound to an iterator (itertools.product(...), zip, map, a generator expression, ...) yields its items once.
    If it is consumed at two program points where the second is reachable from the first, the second consumer sees an empty
    sequence and silently produces nothing.  Reports every such local; returns the number of iterator locals examined."""
    n = 0
    for q, fn in sorted(prog.functions.items()):
        if fn.parent is not None:
            continue
        if modules is not None and fn.module.name not in modules:
            continue
        makers = {}
        for s in walk_local(fn.node):
            if isinstance(s, ast.Assign) and len(s.targets) == 1 and isinstance(s.targets[0], ast.Name):
                v = s.value
                is_it = isinstance(v, ast.GeneratorExp) or (isinstance(v, ast.Call) and (dotted(v.func) or "").split(".")[-1] in ITERATOR_MAKERS
                                                            and (dotted(v.func) or "").split(".")[0] in ("itertools", "product", "combinations", "zip", "map", "filter", "iter", "enumerate", "reversed", "chain", "permutations", "islice", "groupby"))
                if is_it:
                    makers.setdefault(s.targets[0].id, []).append(s)
        if not makers:
            continue
        c = cfg_of(fn)
        for name, defs in sorted(makers.items()):
            stores = [x for x in ast.walk(fn.node) if isinstance(x, ast.Name) and x.id == name and isinstance(x.ctx, ast.Store)]
            if len(stores) != len(defs):
                continue  # re-bound to something else as well: not modelled, not reported
            n += 1
            uses = [x for x in ast.walk(fn.node) if isinstance(x, ast.Name) and x.id == name and isinstance(x.ctx, ast.Load)]
            nodes = []
            for u in uses:
                try:
                    nodes.append((c.node_of(u), u))
                except AnalysisError:
                    continue
            bad = None
            for i, (a, ua) in enumerate(nodes):
                for b, ub in nodes[i + 1:]:
                    if a == b or _reaches(c, a, b) or _reaches(c, b, a):
                        # a fresh definition between the two uses re-arms the iterator
                        if len(defs) > 1:
                            continue
                        bad = (ua, ub)
                        break
                if bad:
                    break
            obl(rep, fn, defs[0], rule, bad is None, f"the one-shot iterator `{name} = {short(defs[0].value, 50)}` is consumed once",
                f"{len(uses)} use(s)",
                f"`{name}` is an iterator ({short(defs[0].value, 50)}) and is consumed at line {bad[0].lineno} and again at line {bad[1].lineno}: "
                "the second consumer gets nothing" if bad else "")
    return n


def _reaches(c, a, b):
    seen = set()
    work = list(c.succ.get(a, []))
    while work:
        x = work.pop()
        if x == b:
            return True
        if x in seen:
            continue
        seen.add(x)
        work.extend(c.succ.get(x, []))
    return False


# ---- deciding tests on an option parameter ---------------------------------------------------
def option_decider(prog, fn, var, value):
    """decide(test) for `var == value` (a string option such as na_action): ==, !=, in / not in a literal container or a
    module-level constant container; `not`, and/or with short-circuit; None when the test does not depend on var alone"""
    def members(c):
        if isinstance(c, (ast.Tuple, ast.List, ast.Set)) and all(is_str_const(e) for e in c.elts):
            return {e.value for e in c.elts}
        if isinstance(c, ast.Name):
            kind, q = prog.resolve(fn.module, c.id)
            if kind == "var":
                mod, g = q.rsplit(".", 1)
                vals = prog.modules[mod].globals.get(g, [])
                if len(vals) == 1:
                    v = vals[0]
                    if isinstance(v, (ast.Tuple, ast.List, ast.Set)) and all(is_str_const(e) for e in v.elts):
                        return {e.value for e in v.elts}
                    if isinstance(v, ast.Dict) and all(k is not None and is_str_const(k) for k in v.keys):
                        return {k.value for k in v.keys}
        return None

    def decide(t, _sx=None):
        if isinstance(t, ast.UnaryOp) and isinstance(t.op, ast.Not):
            r = decide(t.operand)
            return None if r is None else not r
        if isinstance(t, ast.BoolOp):
            rs = [decide(v) for v in t.values]
            if isinstance(t.op, ast.And):
                if any(r is False for r in rs):
                    return False
                return True if all(r is True for r in rs) else None
            if any(r is True for r in rs):
                return True
            return False if all(r is False for r in rs) else None
        if isinstance(t, ast.Compare) and len(t.ops) == 1:
            left, op, right = t.left, t.ops[0], t.comparators[0]
            if isinstance(right, ast.Name) and right.id == var and is_str_const(left):
                left, right = right, left
            if isinstance(left, ast.Name) and left.id == var:
                if isinstance(op, (ast.Eq, ast.NotEq)) and is_str_const(right):
                    return (right.value == value) == isinstance(op, ast.Eq)
                if isinstance(op, (ast.In, ast.NotIn)):
                    m = members(right)
                    if m is not None:
                        return (value in m) == isinstance(op, ast.In)
        return None

    return decide


def groupby_needs_sorted(prog, rep, rule, modules=None):
    """itertools.groupby only merges ADJACENT equal keys: grouping a sequence that is not sorted by the same key splits a
    group whenever its members are interleaved with others.  Every groupby(X, key) whose X is not sorted(..., key=<same key>)
    is reported.  Returns the number of groupby calls seen."""
    n = 0
    for q, fn in sorted(prog.functions.items()):
        if modules is not None and fn.module.name not in modules:
            continue
        if fn.parent is not None:
            continue
        defs = {}
        for s in walk_local(fn.node):
            if isinstance(s, ast.Assign) and len(s.targets) == 1 and isinstance(s.targets[0], ast.Name):
                defs.setdefault(s.targets[0].id, []).append(s.value)
        for c in calls_in(fn.node, local=False):
            d = dotted(c.func) or ""
            if d.split(".")[-1] != "groupby" or d.split(".")[0] not in ("itertools", "groupby"):
                continue
            n += 1
            seq = c.args[0] if c.args else None
            key = c.args[1] if len(c.args) > 1 else next((k.value for k in c.keywords if k.arg == "key"), None)
            if isinstance(seq, ast.Name) and len(defs.get(seq.id, [])) == 1:
                seq = defs[seq.id][0]
            ok = isinstance(seq, ast.Call) and dotted(seq.func) == "sorted"
            if ok:
                skey = next((k.value for k in seq.keywords if k.arg == "key"), None)
                ok = (key is None and skey is None) or (key is not None and skey is not None and unparse(key) == unparse(skey))
            obl(rep, fn, c, rule, ok, f"`{short(c, 70)}` groups a sequence sorted by the same key", "",
                f"`{short(c, 70)}`: groupby merges only adjacent items, and `{unparse(c.args[0]) if c.args else '?'}` is not sorted by that key - "
                "members of one group that are not next to each other are treated as different groups")
    return n



# ---- partial evaluation of a dispatch on a string-valued variable ------------------------------
OPERATOR_FUNCS = {"add": ast.Add, "sub": ast.Sub, "mul": ast.Mult, "truediv": ast.Div, "pow": ast.Pow, "matmul": ast.MatMult, "or_": ast.BitOr,
                  "floordiv": ast.FloorDiv, "mod": ast.Mod, "and_": ast.BitAnd, "xor": ast.BitXor}


def const_table(prog, f, node):
    """{key: value node} of a dict display with string keys that `node` denotes from inside f: a module-level name bound once,
    or self.X / cls.X / ClassName.X for a class attribute; None if it is not such a table or if anything writes to it"""
    name = None
    d = None
    if isinstance(node, ast.Name):
        kind, q = prog.resolve(f.module, node.id)
        if kind == "var":
            mod, g = q.rsplit(".", 1)
            vals = prog.modules[mod].globals.get(g, [])
            if len(vals) == 1 and isinstance(vals[0], ast.Dict):
                d, name = vals[0], g
    elif isinstance(node, ast.Attribute) and isinstance(node.value, ast.Name):
        cls = None
        if node.value.id in ("self", "cls") and f.cls is not None:
            cls = f.cls
        else:
            kind, q = prog.resolve(f.module, node.value.id)
            if kind == "class":
                cls = prog.classes.get(q)
        if cls is not None and isinstance(cls.class_attrs.get(node.attr), ast.Dict):
            d, name = cls.class_attrs[node.attr], node.attr
    if d is None or not all(k is not None and is_str_const(k) for k in d.keys):
        return None
    for fn in prog.functions.values():
        for n in ast.walk(fn.node):
            tgt = None
            if isinstance(n, ast.Subscript) and isinstance(n.ctx, (ast.Store, ast.Del)):
                tgt = n.value
            if isinstance(n, ast.Call) and isinstance(n.func, ast.Attribute) and n.func.attr in ("update", "pop", "setdefault", "clear", "popitem", "__setitem__"):
                tgt = n.func.value
            if tgt is not None and ((isinstance(tgt, ast.Name) and tgt.id == name) or (isinstance(tgt, ast.Attribute) and tgt.attr == name)):
                return None
    return {k.value: v for k, v in zip(d.keys, d.values)}


def specialise(prog, f, var, value, operator_calls=False):
    """Partial evaluation of f's body for `var == value` (a string): ('return', expression with locals expanded, stmt),
    ('raise', stmt) or ('falloff',).  Tests on `var` are decided: ==, !=, in / not in a literal container or a constant
    table; TABLE[var] / TABLE.get(var) become the table's entry (or None); `x is None` is decided on expanded values;
    with operator_calls, operator.add(a, b) becomes a + b."""
    import copy

    env = {}
    NONE = ast.Constant(value=None)

    def table_entry(tnode, default=None):
        t = const_table(prog, f, tnode)
        if t is None:
            return None
        if value in t:
            return copy.deepcopy(t[value])
        return default

    def expand(e):
        e = copy.deepcopy(e)

        class T(ast.NodeTransformer):
            def visit_Name(s_, n):
                if isinstance(n.ctx, ast.Load) and n.id in env:
                    return copy.deepcopy(env[n.id])
                return n

            def visit_Subscript(s_, n):
                s_.generic_visit(n)
                if (isinstance(n.slice, ast.Constant) and n.slice.value == value) or (isinstance(n.slice, ast.Name) and n.slice.id == var):
                    ent = table_entry(n.value)
                    if ent is not None:
                        return ent
                return n

            def visit_Call(s_, n):
                if isinstance(n.func, ast.Attribute) and n.func.attr == "get" and 1 <= len(n.args) <= 2 and not n.keywords \
                        and ((isinstance(n.args[0], ast.Name) and n.args[0].id == var) or (isinstance(n.args[0], ast.Constant) and n.args[0].value == value)):
                    if const_table(prog, f, n.func.value) is not None:
                        default = s_.visit(copy.deepcopy(n.args[1])) if len(n.args) == 2 else copy.deepcopy(NONE)
                        return table_entry(n.func.value, default)
                s_.generic_visit(n)
                d = dotted(n.func) or ""
                if operator_calls and d.startswith("operator.") and d.split(".")[1] in OPERATOR_FUNCS and len(n.args) == 2 and not n.keywords:
                    return ast.copy_location(ast.BinOp(left=n.args[0], op=OPERATOR_FUNCS[d.split(".")[1]](), right=n.args[1]), n)
                return n

        return T().visit(e)

    base = option_decider(prog, f, var, value)

    def members_of_table(c):
        t = const_table(prog, f, c)
        return None if t is None else set(t)

    def decide(t):
        r = base(t)
        if r is not None:
            return r
        if isinstance(t, ast.UnaryOp) and isinstance(t.op, ast.Not):
            r = decide(t.operand)
            return None if r is None else not r
        if isinstance(t, ast.BoolOp):
            rs = [decide(v) for v in t.values]
            if any(x is None for x in rs):
                return None
            return all(rs) if isinstance(t.op, ast.And) else any(rs)
        if isinstance(t, ast.Compare) and len(t.ops) == 1:
            op, left, right = t.ops[0], t.left, t.comparators[0]
            if isinstance(op, (ast.In, ast.NotIn)) and isinstance(left, ast.Name) and left.id == var:
                m = members_of_table(right)
                if m is not None:
                    return (value in m) == isinstance(op, ast.In)
            if isinstance(op, (ast.Is, ast.IsNot)) and isinstance(right, ast.Constant) and right.value is None:
                v = expand(left)
                if isinstance(v, ast.Constant) and v.value is None:
                    return isinstance(op, ast.Is)
                if isinstance(v, (ast.Attribute, ast.Name, ast.Lambda)) and unparse(v) != unparse(left):
                    # expanded to a table entry (a function object): not None
                    return isinstance(op, ast.IsNot)
        return None

    def run(stmts):
        for st in stmts:
            if isinstance(st, ast.Expr) and isinstance(st.value, ast.Constant):
                continue
            if isinstance(st, ast.Assign) and len(st.targets) == 1 and isinstance(st.targets[0], ast.Name):
                if st.targets[0].id == var:
                    continue
                env[st.targets[0].id] = expand(st.value)
                continue
            if isinstance(st, ast.If):
                r = decide(st.test)
                if r is None:
                    raise AnalysisError(f"{f.qual}: cannot decide `{unparse(st.test)}` for {var} == {value!r}")
                out = run(st.body if r else st.orelse)
                if out is not None:
                    return out
                continue
            if isinstance(st, ast.Return):
                return ("return", expand(st.value) if st.value is not None else ast.Constant(value=None), st)
            if isinstance(st, ast.Raise):
                return ("raise", st)
            if isinstance(st, ast.Pass):
                continue
            raise AnalysisError(f"{f.qual}: unmodelled statement `{short(st)}` in the operator dispatch")
        return None

    return run(f.body) or ("falloff",)


from ..core import guard_rules  # noqa: E402

guard_rules(globals(), extra=("new_group_block", "categoric_rules", "ownership_rule", "eq_compares_fields", "dtype_narrowing",
                               "one_shot_iterators", "groupby_needs_sorted"))


def formula_text_untouched(prog, rep, rule):
    """The scanner must see the caller's formula text itself: in design_matrices the first argument of model_description(...)
    and in model_description the first argument of Scanner(...) is the function's own first parameter, and that name is never
    re-bound (strings are immutable, so re-binding is the only way to hand on another text: stripped, whitespace-collapsed, with a
    leading `~` removed...).  The tilde count, the quote handling and the end-of-input check all act on what the scanner is given."""
    for fq, callee in (("model_description.model_description", "Scanner"), ("matrices.design_matrices", "model_description")):
        md = prog.fn(fq)
        scans = [c for c in calls_in(md.node) if (dotted(c.func) or "").split(".")[-1] == callee]
        p = md.params[0] if md.params else None
        rebound = [n for n in ast.walk(md.node) if isinstance(n, ast.Name) and n.id == p and isinstance(n.ctx, (ast.Store, ast.Del))]
        ok = len(scans) == 1 and p is not None and len(scans[0].args) >= 1 and isinstance(scans[0].args[0], ast.Name) and scans[0].args[0].id == p and not rebound \
            and not any(k.arg is None for k in scans[0].keywords)
        obl(rep, md, rebound[0] if rebound else (scans[0] if scans else md.node), rule, ok,
            f"{md.name} hands its `{p}` argument to {callee}(...) as it is (never re-bound, no derived text)", "",
            f"the text given to {callee}(...) is not the caller's formula: " + (f"`{p}` is re-bound at line {rebound[0].lineno}" if rebound else
                                                                              (unparse(scans[0]) if scans else f"no single {callee}(...) call")))


def _axisless_squeezes(tree):
    out = []
    for c in ast.walk(tree):
        if not isinstance(c, ast.Call):
            continue
        d = dotted(c.func) or ""
        is_sq = d in ("np.squeeze", "numpy.squeeze") and len(c.args) == 1 or (isinstance(c.func, ast.Attribute) and c.func.attr == "squeeze" and not c.args
                                                                                and d not in ("np.squeeze", "numpy.squeeze"))
        if is_sq and not any(k.arg == "axis" for k in c.keywords):
            out.append(c)
    return out


def no_axisless_squeeze(prog, rep, rule):
    """An axis-less squeeze removes EVERY axis of length one - also the row axis when a frame has a single observation: a (1, k)
    block becomes (k,), rows no longer match observations (and column_stack of the blocks fails or transposes).  No function on
    the evaluation path (terms, utils, matrices, transforms) may apply one; `squeeze(axis=1)` only drops a single column axis.
    Expected count on a correct tree is zero, so the recogniser is run on a positive control on every run."""
    control = ast.parse("def f(x):\n    a = np.squeeze(np.column_stack(x))\n    b = x.squeeze()\n    c = np.squeeze(x, axis=1)\n    return a, b, c")
    if len(_axisless_squeezes(control)) != 2:
        raise AnalysisError(f"{rule}: the squeeze recogniser does not fire on its positive control")
    n = 0
    for fq, f in sorted(prog.functions.items()):
        mname = f.module.name
        if f.parent is not None or fq != f.qual:
            continue
        if not (mname.startswith("formulae.terms") or mname in ("formulae.utils", "formulae.matrices", "formulae.transforms")):
            continue
        n += 1
        for c in _axisless_squeezes(f.node):
            rep.bad(rule, f.loc(c), f.qual, short(c), "squeeze without an axis also removes the row axis of a one-row block: "
                    "the result is (k,) instead of (1, k) for a single observation")
    rep.ok(rule, "formulae/", "evaluation path", f"no axis-less squeeze in {n} functions of terms/, utils, matrices, transforms",
           "positive control matched 2 of 3 calls")


def ensure_kind_variable(f, p_):
    """the visitor's operator kind `<p>.operator.kind` under a local name: the name of the existing temporary, or - when the
    function uses the expression directly - a fresh temporary introduced at the top of the (model of the) function"""
    for st_ in f.body:
        if isinstance(st_, ast.Assign) and unparse(st_.value) == f"{p_}.operator.kind" and isinstance(st_.targets[0], ast.Name):
            return st_.targets[0].id
    txt = f"{p_}.operator.kind"
    if not any(isinstance(n, ast.Attribute) and unparse(n) == txt for n in ast.walk(f.node)):
        return None
    if any(isinstance(n, ast.Name) and n.id == p_ and isinstance(n.ctx, ast.Store) for n in ast.walk(f.node)):
        return None
    kv = "otype__k"

    class R(ast.NodeTransformer):
        def visit_Attribute(self, n):
            if isinstance(n.ctx, ast.Load) and unparse(n) == txt:
                return ast.copy_location(ast.Name(id=kv, ctx=ast.Load()), n)
            self.generic_visit(n)
            return n

    body = f.node.body
    k0 = 1 if body and isinstance(body[0], ast.Expr) and isinstance(body[0].value, ast.Constant) and isinstance(body[0].value.value, str) else 0
    new_body = body[:k0] + [ast.Assign(targets=[ast.Name(id=kv, ctx=ast.Store())], value=ast.parse(txt, mode="eval").body)] + [R().visit(b) for b in body[k0:]]
    f.node.body = new_body
    ast.fix_missing_locations(f.node)
    return kv

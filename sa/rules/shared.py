"""Rule implementations used by more than one property (the rule id is passed in)."""
import ast

from ..core import (
    AnalysisError,
    obl,
    unparse,
    short,
    dotted,
    is_str_const,
    is_self_attr,
    walk_local,
    calls_in,
    block_raises,
)
from ..cfg import cfg_of


def _assigns(fn, name):
    return [s for s in walk_local(fn.node) if isinstance(s, ast.Assign) and len(s.targets) == 1 and unparse(s.targets[0]) == name]


# ------------------------------------------------------------------------------------------
# new-group block of GroupSpecificTerm.eval_new_data (R5.3 / R10.5)
# ------------------------------------------------------------------------------------------
def new_group_block(prog, rep, rule):
    f = prog.fn("terms.terms.GroupSpecificTerm.eval_new_data")
    c = cfg_of(f)
    ji = _assigns(f, "Ji")
    first = [s for s in ji if unparse(s.value) == "self.factor.eval_new_data(data)"]
    obl(rep, f, first[0] if first else f.node, rule, len(first) == 1, "Ji is the factor's indicator matrix evaluated on the new frame")
    masks = [s for s in walk_local(f.node) if isinstance(s, ast.Assign) and unparse(s.value) in ("~Ji.any(axis=1)", "Ji.sum(axis=1) == 0", "~Ji.any(1)")]
    ok = len(masks) == 1
    mv = unparse(masks[0].targets[0]) if ok else "all_zeros"
    obl(rep, f, masks[0] if masks else f.node, rule, ok, "a row with all-zero indicators marks an unseen group (row-wise test, axis=1)", "",
        "the unseen-group mask is not `~Ji.any(axis=1)`")
    conds = [i for i in walk_local(f.node) if isinstance(i, ast.If) and unparse(i.test) in (f"{mv}.any()", f"np.any({mv})", f"{mv}.sum() > 0")]
    ok = len(conds) == 1
    obl(rep, f, conds[0] if conds else f.node, rule, ok, "the extra block is added only when some row belongs to an unseen group", "",
        "the extra column is not conditional on `all_zeros.any()`: existing designs would gain an empty block")
    if not ok:
        return
    body = conds[0].body
    stack = [s for s in body if isinstance(s, ast.Assign) and unparse(s.targets[0]) == "Ji" and isinstance(s.value, ast.Call)
             and dotted(s.value.func) in ("np.column_stack", "np.hstack")]
    ok = len(stack) == 1
    if ok:
        arg = stack[0].value.args[0]
        ok = isinstance(arg, (ast.List, ast.Tuple)) and len(arg.elts) == 2 and unparse(arg.elts[0]) == "Ji" \
            and isinstance(arg.elts[1], ast.Call) and dotted(arg.elts[1].func) == "np.zeros" \
            and unparse(arg.elts[1].args[0]) in ("(Ji.shape[0], 1)", "(len(Ji), 1)")
    obl(rep, f, stack[0] if stack else conds[0], rule, ok, "one zero column is stacked AFTER the existing indicator columns (trailing block, fresh array)",
        "", "the new-group column is not appended as the last column of a fresh array: existing blocks would shift")
    sets = [s for s in body if isinstance(s, ast.Assign) and isinstance(s.targets[0], ast.Subscript) and unparse(s.targets[0].value) == "Ji"]
    ok = len(sets) == 1 and unparse(sets[0].targets[0].slice) in (f"({mv}, -1)", f"{mv}, -1") and unparse(sets[0].value) == "1"
    if ok and stack:
        ok = body.index(sets[0]) > body.index(stack[0])
    obl(rep, f, sets[0] if sets else conds[0], rule, ok, f"the new column is set to 1 exactly on the unseen-group rows (`Ji[{mv}, -1] = 1`, same mask as the test)",
        "", "the new-group column is not set to 1 on exactly the rows selected by the unseen-group mask")
    # the product is built after the block was added, factor first
    kr = [x for x in calls_in(f.node) if dotted(x.func) == "linalg.khatri_rao"]
    ok = len(kr) == 1 and c.dominates(c.node_of(conds[0]), c.node_of(kr[0]))
    obl(rep, f, kr[0] if kr else f.node, rule, ok, "the Khatri-Rao product is formed after the extra group column was added")
    return f


# ------------------------------------------------------------------------------------------
# eval_new_data_categoric siblings: structure summary (R10.2, R10.3, R10.4, R6.3)
# ------------------------------------------------------------------------------------------
def categoric_summary(prog, fn):
    """Abstract summary of one eval_new_data_categoric implementation."""
    x = fn.params[1]
    S = {"fn": fn, "problems": [], "facts": {}}
    F = S["facts"]
    c = cfg_of(fn)
    # Categorical constructions
    cats = [n for n in ast.walk(fn.node) if isinstance(n, ast.Call) and dotted(n.func) == "pd.Categorical"]
    F["categorical_sites"] = len(cats)
    F["categorical_all_with_remembered_levels"] = bool(cats) and all(
        [unparse(k.value) for k in n.keywords if k.arg == "categories"] == ["self.levels"] and unparse(n.args[0]) == x for n in cats
    )
    # matrix indexing
    idx = [n for n in ast.walk(fn.node) if isinstance(n, ast.Subscript) and unparse(n.value) == "self.contrast_matrix.matrix" and isinstance(n.ctx, ast.Load)]
    F["matrix_index_sites"] = len(idx)
    # config comparisons
    lits = {}
    for i in walk_local(fn.node):
        if isinstance(i, ast.If) and isinstance(i.test, ast.Compare) and isinstance(i.test.ops[0], ast.Eq) \
                and unparse(i.test.left) == "config['EVAL_UNSEEN_CATEGORIES']" and is_str_const(i.test.comparators[0]):
            lit = i.test.comparators[0].value
            raises = block_raises(i.body)
            warns = any(dotted(x_.func) == "warnings.warn" for x_ in calls_in(ast.Module(body=i.body, type_ignores=[]), local=False))
            lits[lit] = ("raise" if raises else "warn" if warns else "other", i)
    F["policy"] = {k: v[0] for k, v in lits.items()}
    S["policy_nodes"] = {k: v[1] for k, v in lits.items()}
    # fast path
    fast = [i for i in walk_local(fn.node) if isinstance(i, ast.If) and isinstance(i.test, ast.UnaryOp) and isinstance(i.test.op, ast.Not)
            and isinstance(i.test.operand, ast.Name)]
    S["fast"] = fast[0] if fast else None
    # masks
    stores = [s for s in walk_local(fn.node) if isinstance(s, ast.Assign) and isinstance(s.targets[0], ast.Subscript)]
    S["stores"] = stores
    return S


def categoric_rules(prog, rep, rule_policy, rule_zero, fn):
    """R10.2 (consumer side) and R10.3 for one sibling; returns the comparable summary."""
    S = categoric_summary(prog, fn)
    F = S["facts"]
    c = cfg_of(fn)
    x = fn.params[1]
    obl(rep, fn, fn.node, rule_zero, F["categorical_all_with_remembered_levels"] and F["categorical_sites"] >= 2,
        "codes are taken from pd.Categorical(x, categories=self.levels) on the fast and on the slow path",
        f"{F['categorical_sites']} site(s)", "a categorical without the remembered `categories=self.levels` is built at prediction: levels are re-derived from the new data")
    obl(rep, fn, fn.node, rule_zero, F["matrix_index_sites"] >= 2,
        "both paths index the remembered self.contrast_matrix.matrix", f"{F['matrix_index_sites']} site(s)")
    # difference = set(x) - set(self.levels)
    diff = [s for s in walk_local(fn.node) if isinstance(s, ast.Assign) and isinstance(s.value, ast.BinOp) and isinstance(s.value.op, ast.Sub)]
    defs = {unparse(s.targets[0]): unparse(s.value) for s in walk_local(fn.node) if isinstance(s, ast.Assign) and len(s.targets) == 1}
    dname = None
    for s in diff:
        l, r = unparse(s.value.left), unparse(s.value.right)
        l, r = defs.get(l, l), defs.get(r, r)
        if l == f"set({x})" and r == "set(self.levels)":
            dname = unparse(s.targets[0])
    obl(rep, fn, diff[0] if diff else fn.node, rule_policy, dname is not None,
        "unseen levels = set(new values) - set(remembered levels)", "", "the unseen-level set is not `set(x) - set(self.levels)`")
    fast = S["fast"]
    ok = fast is not None and dname is not None and fast.test.operand.id == dname
    if ok:
        rets = [n for n in fast.body if isinstance(n, ast.Return)]
        ok = len(rets) == 1 and isinstance(rets[0].value, ast.Subscript) and unparse(rets[0].value.value) == "self.contrast_matrix.matrix"
    obl(rep, fn, fast or fn.node, rule_zero, ok, "no unseen level: rows of the remembered contrast matrix are returned unchanged")
    # policy: error raises before any result is produced; warning warns and falls through
    pol = F["policy"]
    obl(rep, fn, fn.node, rule_policy, pol.get("error") == "raise", "'error' mode raises", str(pol), f"policy handling is {pol}")
    if "error" in S["policy_nodes"] and fast is not None:
        en = c.node_of(S["policy_nodes"]["error"])
        rets = [c.node_of(r) for r in walk_local(fn.node) if isinstance(r, ast.Return) and not any(r is z for z in ast.walk(fast))]
        obl(rep, fn, S["policy_nodes"]["error"], rule_policy, bool(rets) and all(c.dominates(en, r) for r in rets),
            "the 'error' test dominates every result that involves an unseen level")
    obl(rep, fn, fn.node, rule_policy, pol.get("warning") == "warn", "'warning' mode warns and falls through to the zeroed result")
    if "warning" in S["policy_nodes"]:
        w = S["policy_nodes"]["warning"]
        has_ret = any(isinstance(n, (ast.Return, ast.Raise)) for n in ast.walk(w))
        assigns_result = any(isinstance(n, ast.Assign) and not unparse(n.targets[0]).startswith("difference") for s in w.body for n in ast.walk(s))
        obl(rep, fn, w, rule_policy, not has_ret and not assigns_result,
            "the 'warning' branch only warns: the result is the same as in 'silent' mode", "",
            "the 'warning' branch returns/raises/changes the result: 'warning' and 'silent' differ in more than the warning")
    # zeroing discipline
    stores = S["stores"]
    idx_store = [s for s in stores if unparse(s.value) == "0" and isinstance(s.targets[0].value, ast.Name)]
    ok = len(idx_store) == 2
    why = ""
    if ok:
        a, b = sorted(idx_store, key=lambda s: s.lineno)
        m1, m2 = unparse(a.targets[0].slice), unparse(b.targets[0].slice)
        ok = m1 == m2 and m1.endswith("== -1")
        why = f"index patch mask `{m1}`, zeroing mask `{m2}`"
        obl(rep, fn, b, rule_zero, ok, "the mask that patches the index and the mask that zeroes the rows are the same expression (codes == -1)", why,
            f"masks differ or are not `codes == -1`: {why}")
        # patched index array is a copy of the codes; codes come from the remembered categorical
        mvar = m1.split(" ==")[0]
        patched = unparse(a.targets[0].value)
        zeroed = unparse(b.targets[0].value)
        ok1 = defs.get(patched) in (f"np.copy({mvar})", f"{mvar}.copy()", f"np.array({mvar})")
        obl(rep, fn, a, rule_zero, ok1, f"`{patched}` is a copy of the codes (the codes themselves stay -1 for the mask)",
            str(defs.get(patched)), f"`{patched}` = {defs.get(patched)}: patching it also changes the mask source")
        ok2 = defs.get(zeroed) == f"self.contrast_matrix.matrix[{patched}]"
        obl(rep, fn, b, rule_zero, ok2,
            f"the zeroed array `{zeroed}` is a fresh advanced-indexing copy of the remembered matrix (never the matrix itself)",
            str(defs.get(zeroed)), f"`{zeroed}` = {defs.get(zeroed)}: zeroing writes through to the remembered contrast matrix or to another array")
        ok3 = defs.get(mvar, "").startswith("pd.Categorical(") and defs.get(mvar, "").endswith(".codes")
        obl(rep, fn, a, rule_zero, ok3, f"`{mvar}` are the categorical codes (-1 for unseen levels)", str(defs.get(mvar)))
        rets = [r for r in walk_local(fn.node) if isinstance(r, ast.Return) and unparse(r.value) == zeroed]
        ok4 = len(rets) == 1 and c.dominates(c.node_of(b), c.node_of(rets[0]))
        obl(rep, fn, rets[0] if rets else fn.node, rule_zero, ok4, "the zeroed array is what is returned, after the masked store")
    else:
        obl(rep, fn, fn.node, rule_zero, False, "index patch and masked zeroing present", "",
            f"expected two masked stores of 0 (index patch, row zeroing); found {[short(s) for s in idx_store]}")
    whole = [s for s in stores if unparse(s.targets[0].slice) in (":", "...", "slice(None)") or "[:]" in unparse(s.targets[0])]
    obl(rep, fn, whole[0] if whole else fn.node, rule_zero, not whole, "no whole-array store: rows with seen levels are untouched")
    summary = dict(F)
    summary["fields"] = sorted({n.attr for n in ast.walk(fn.node) if is_self_attr(n)})
    summary["n_stores"] = len(stores)
    return summary

"""C04 - every column holds what its label says: ordering, source and ownership clauses (R4.1 .. R4.6)."""
import ast

from ..core import (
    AnalysisError,
    obl,
    unparse,
    short,
    dotted,
    is_self_attr,
    block_raises,
    walk_local,
    calls_in,
)
from ..cfg import cfg_of
from .. import order as O
from . import shared

EXPLANATION = (
    "Values and labels are computed by separately written code. R4.1 an order algebra derives the major-to-minor "
    "order of the column index at the four sites that combine factors (get_interaction_matrix, the reduce folds "
    "of Term.set_data / Term.eval_new_data, itertools.product in Term.labels / Term.levels) and requires them to "
    "be identical (components in list order, leftmost-major). R4.2 values and labels have one source: the rows of "
    "the contrast matrix are indexed by the codes of the very categorical whose categories were coded; labels are "
    "read from the same contrast object; the index that inserts the zero row / the -1 row is the index removed "
    "from the label list. R4.3 the level list is of canonical order kind (sorted / np.unique) unless declared "
    "(ordered dtype or explicit levels=). R4.4 numeric values are the looked-up column through representation "
    "changes only. R4.5 one holder per component (see C06 R6.4). R4.6 label order = stacking order. Not decided: "
    "point-wise equality of a column with its data (runtime)."
    ' R4.8 new data: the rows returned for categorical codes -1 / 0 / >0 are zero row / row 0 / row c of the remembered coding (abstract interpretation of the slow path of eval_new_data_categoric, with alias, copy and freshness tracking). R4.1 also: the stacked element of get_interaction_matrix is the plain product.'
)
ASSUMPTIONS = [
    "itertools.product varies its first argument slowest; functools.reduce is a left fold; np.column_stack preserves list order",
    "pd.Categorical(...).codes index the categories in their declared order",
]

CANONICAL = ("sorted", "np.unique", "np.sort")


def run(prog, rep, tier):
    r4_1(prog, rep)
    r4_2(prog, rep)
    r4_3(prog, rep)
    r4_4(prog, rep)
    n = shared.ownership_rule(prog, rep, "R4.5")
    if n is not None and n < 8:
        raise AnalysisError(f"R4.5: only {n} Term(...) constructor sites found (floor 8)")
    r4_6(prog, rep)
    # labels and columns of a group-specific block (e|g[l]): same product order, same groups, labels read from the training
    # objects only (C05's R5.1, reported here as R4.1)
    from . import C05
    sub = rep.sub()
    C05.r5_1(prog, sub)
    for it in sub.items:
        it = dict(it)
        it["rule"] = "R4.1"
        rep.items.append(it)
        rep.counts["R4.1"] = rep.counts.get("R4.1", 0) + 1
    shared.dtype_narrowing(prog, rep, "R4.7")
    r4_8(prog, rep)
    rep.floor("R4.1", 6)
    rep.floor("R4.2", 12)
    rep.floor("R4.3", 5)
    rep.floor("R4.4", 4)
    rep.floor("R4.8", 4)


def r4_8(prog, rep):
    """a v[l] column of a design evaluated on new data: row k of the remembered coding for level k, zero for an unseen level
    (the per-case model of C10's R10.3, here for the label clause)"""
    want = {"-1": ("zero",), "0": ("row", 0), "+": ("row", "c")}
    for q in ("terms.variable.Variable.eval_new_data_categoric", "terms.call.Call.eval_new_data_categoric"):
        f = prog.fn(q)
        S = shared.categoric_summary(prog, f)
        table, fresh, why = shared.zeroing_model(f, S)
        obl(rep, f, f.node, "R4.8", table == want and fresh,
            "new data: a row whose value is level k gets row k of the remembered coding (cases code=-1 / 0 / >0)", str(table),
            f"the rows returned for codes -1 / 0 / >0 are {table}, expected {want} ({why}): a column labelled v[l] is not 1 exactly where v equals l")
        fast = S["fast"]
        rets = [n for n in (fast.body if fast is not None else []) if isinstance(n, ast.Return)]
        ok = len(rets) == 1 and isinstance(rets[0].value, ast.Subscript) and unparse(rets[0].value.value) == "self.contrast_matrix.matrix" \
            and S["facts"]["matrix_indices_from_remembered_levels"]
        obl(rep, f, fast or f.node, "R4.8", ok, "new data without unseen levels: the rows of the remembered coding, indexed by the codes of the remembered levels")


def r4_1(prog, rep):
    gim = prog.fn("utils.get_interaction_matrix")
    major, why = O.pairwise_major(gim)
    obl(rep, gim, gim.node, "R4.1", major == 0, "get_interaction_matrix(x, y): the first operand's column index is major (varies slowest)", why,
        f"get_interaction_matrix is not first-operand-major: {why}")
    kind, etxt = getattr(gim, "_pairwise_element", ("product", "matrix product form"))
    obl(rep, gim, gim.node, "R4.1", kind == "product", "a column of a:b is the plain element-wise product of one column of a and one of b", etxt,
        f"the stacked element is `{etxt}`: the product is post-processed by a data-dependent selection, so the column is not the "
        "element-wise product its label denotes (NaN / inf / signed zeros of a factor are replaced)")
    sites = []
    for q in ("terms.terms.Term.set_data", "terms.terms.Term.eval_new_data"):
        f = prog.fn(q)
        cs = [x for x in calls_in(f.node) if dotted(x.func) in ("reduce", "functools.reduce")]
        if len(cs) != 1:
            raise AnalysisError(f"{q}: expected one reduce(...) call")
        if dotted(cs[0].args[0]) != "get_interaction_matrix":
            obl(rep, f, cs[0], "R4.1", False, "interaction columns are folded with get_interaction_matrix", "", f"folded with {unparse(cs[0].args[0])}")
            continue
        src, order, elt = O.fold_order(cs[0], major if major in (0, 1) else 0, fn=f)
        sites.append((f, cs[0], src, order, f"reduce(get_interaction_matrix, [{elt} ...])"))
    for q, lname in (("terms.terms.Term.labels", "labels"), ("terms.terms.Term.levels", "levels")):
        f = prog.fn(q)
        prods = [x for x in calls_in(f.node, local=False) if dotted(x.func) in ("itertools.product", "product")]
        if len(prods) != 1:
            raise AnalysisError(f"{q}: expected one itertools.product call")
        lst, order = O.product_order(prods[0], None)
        src, rev = O.list_fill_source(f, lst)
        if rev:
            order = "rightmost-major" if order == "leftmost-major" else "leftmost-major"
        sites.append((f, prods[0], src, order, f"itertools.product(*{lst}) with {lst} filled from {src}"))
    for f, node, src, order, what in sites:
        obl(rep, f, node, "R4.1", src == "self.components" and order == "leftmost-major",
            f"{f.qual.split('.')[-2]}.{f.name}: column index order = components in list order, leftmost-major", what,
            f"{what}: order is {order} over {src}; values and labels of interaction columns no longer agree when factors have "
            "different numbers of levels")
    # separator conventions of the two label builders
    lb = prog.fn("terms.terms.Term.labels")
    joins = [c for c in ast.walk(lb.node) if isinstance(c, ast.Call) and isinstance(c.func, ast.Attribute) and c.func.attr == "join"
             and isinstance(c.func.value, ast.Constant) and c.func.value.value == ":" and len(c.args) == 1 and isinstance(c.args[0], ast.Name)]
    obl(rep, lb, lb.node, "R4.1", len(joins) == 1, "interaction labels join the component labels with ':' in the same order", nontrivial=False)


class _Defs(dict):
    def __init__(self, fn, items):
        super().__init__(items)
        self.fn = fn

    def __missing__(self, key):
        raise AnalysisError(f"{self.fn.qual}: no local `{key}` is assigned (the function no longer has the shape the rule reads)")


def _defs(fn):
    return _Defs(fn, {unparse(s.targets[0]): s for s in walk_local(fn.node) if isinstance(s, ast.Assign) and len(s.targets) == 1})


def _attr_stores(prog, q):
    """abstract evaluation of a method: [(attribute text, rendered value, value, path, stmt)] in program order"""
    from .. import symexec as SX

    f = prog.fn(q)
    ex = SX.SymExec().run(f.body)
    return f, [(e[1][0], SX.render(e[1][1]), e[1][1], e[2], e[1][2]) for e in ex.effects if e[0] == "setattr"]


def _leaves(v):
    from .. import symexec as SX
    if isinstance(v, SX.Ite):
        return _leaves(v.a) + _leaves(v.b)
    return [SX.render(v)]


def r4_2(prog, rep):
    """values, levels and contrast of a categorical term come from ONE categorical object; decided on the abstract values that
    are stored into self.levels / self.contrast_matrix / self.value (temporaries and statement order do not matter)"""
    for q in ("terms.variable.Variable.eval_categoric", "terms.call.Call.eval_categoric"):
        try:
            f, st = _attr_stores(prog, q)
        except AnalysisError as e:
            rep.defer(f"R4.2: {q}: {e}")
            continue
        from .. import symexec as SX
        # a contrast kept in a local and stored once (`c = full if spans_intercept else reduced; self.contrast_matrix = c`) is the
        # two conditional stores; a value that reads the local reads the attribute
        cm_texts = [x[1] for x in st if x[0] == "self.contrast_matrix"]
        st2 = []
        for x in st:
            if x[0] == "self.contrast_matrix" and isinstance(x[2], SX.Ite):
                st2.append((x[0], SX.render(x[2].a), x[2].a, tuple(x[3]) + ((x[2].cond, True),), x[4]))
                st2.append((x[0], SX.render(x[2].b), x[2].b, tuple(x[3]) + ((x[2].cond, False),), x[4]))
            else:
                st2.append(x)
        st = st2
        lv = [x for x in st if x[0] == "self.levels"]
        ok = len(lv) == 1 and lv[0][3] == () and lv[0][1].endswith(".categories.tolist()")
        X = lv[0][1][: -len(".categories.tolist()")] if ok else None
        obl(rep, f, lv[0][4] if lv else f.node, "R4.2", ok, "self.levels are the categories of the categorical that is coded", lv[0][1][:80] if lv else "")
        val = [x for x in st if x[0] == "self.value"]
        leaves = [l_ for x in val for l_ in _leaves(x[2])]
        for t_ in sorted(cm_texts, key=len, reverse=True):
            leaves = [l_.replace(t_, "self.contrast_matrix") if len(t_) > 20 else l_ for l_ in leaves]
        want = {f"self.contrast_matrix.matrix[{X}.codes]"}
        if q.endswith("Variable.eval_categoric"):
            # y[level]: any spelling of the 0/1 indicator of `<the categorical> == self.reference`
            for l_ in leaves:
                try:
                    ind = shared.indicator_of(ast.parse(l_, mode="eval").body)
                except SyntaxError:
                    ind = None
                try:
                    xn = unparse(ast.parse(X, mode="eval").body) if X else X
                except SyntaxError:
                    xn = X
                if ind is not None and set(ind) == {xn, "self.reference"}:
                    want.add(l_)
        ok = X is not None and bool(leaves) and set(leaves) <= want and f"self.contrast_matrix.matrix[{X}.codes]" in leaves
        obl(rep, f, val[0][4] if val else f.node, "R4.2", ok, "rows of the contrast matrix are selected by the codes of that same categorical",
            "", f"self.value is built from {sorted(set(leaves) - want)[:2] or leaves[:2]}: the contrast matrix is indexed by codes of another object than "
            "the one whose categories were coded")
        cm = [x for x in st if x[0] == "self.contrast_matrix"]
        okc = len(cm) == 2 and bool(lv)
        if okc:
            L = {"self.levels", lv[0][1]}
            full = [x for x in cm if x[3] and x[3][-1] == ("spans_intercept", True)]
            red = [x for x in cm if x[3] and x[3][-1] == ("spans_intercept", False)]
            okc = len(full) == 1 and len(red) == 1 and full[0][1] in {f"Treatment().code_with_intercept({l_})" for l_ in L} \
                and red[0][1] in {f"Treatment().code_without_intercept({l_})" for l_ in L}
            # reading self.levels requires that it was stored before
            if okc and ("self.levels" in full[0][1] or "self.levels" in red[0][1]):
                okc = st.index(lv[0]) < min(st.index(full[0]), st.index(red[0]))
        obl(rep, f, cm[0][4] if cm else f.node, "R4.2", okc, "the contrast matrix is built from self.levels (the same list, the same order)", "",
            f"contrast stores: {[(x[1][:70], list(x[3][-1:])) for x in cm]}")
        obl(rep, f, cm[0][4] if cm else f.node, "R4.2", okc, "spans_intercept selects the full coding, otherwise the reduced one", nontrivial=False)
    q = "terms.call.Call.eval_categorical_box"
    try:
        f, st = _attr_stores(prog, q)
    except AnalysisError as e:
        rep.defer(f"R4.2: {q}: {e}")
        st, f = [], prog.fn(q)
    lv = [x for x in st if x[0] == "self.levels"]
    val = [x for x in st if x[0] == "self.value"]
    cm = [x for x in st if x[0] == "self.contrast_matrix"]
    V = lv[0][1] if len(lv) == 1 else None
    def norm(t):
        return unparse(ast.parse(t, mode="eval").body)

    okv = False
    if V is not None and len(val) == 1:
        try:
            e = ast.parse(val[0][1], mode="eval").body
            # self.contrast_matrix.matrix[ pd.Categorical(D).astype(pd.api.types.CategoricalDtype(categories=K, ordered=True)).codes ]
            sl = e.slice if isinstance(e, ast.Subscript) and unparse(e.value) == "self.contrast_matrix.matrix" else None
            if isinstance(sl, ast.Attribute) and sl.attr == "codes" and isinstance(sl.value, ast.Call) and isinstance(sl.value.func, ast.Attribute) \
                    and sl.value.func.attr == "astype" and isinstance(sl.value.func.value, ast.Call) and dotted(sl.value.func.value.func) == "pd.Categorical" \
                    and len(sl.value.args) == 1 and isinstance(sl.value.args[0], ast.Call) \
                    and dotted(sl.value.args[0].func) in ("pd.api.types.CategoricalDtype", "pd.CategoricalDtype", "CategoricalDtype"):
                kw = {k.arg: k.value for k in sl.value.args[0].keywords}
                okv = "categories" in kw and unparse(kw["categories"]) == norm(V) and unparse(kw.get("ordered", ast.Constant(value=False))) == "True"
        except SyntaxError:
            okv = False
    obl(rep, f, val[0][4] if val else f.node, "R4.2", okv, "box: data is recoded with exactly the `categories` list that becomes self.levels", "",
        f"self.value = {val[0][1][:160] if val else '?'} with self.levels = {V}")
    okc = V is not None and len(cm) == 2
    if okc:
        full = [x for x in cm if x[3] and x[3][-1] == ("spans_intercept", True)]
        red = [x for x in cm if x[3] and x[3][-1] == ("spans_intercept", False)]
        def split_call(t, meth):
            e = ast.parse(t, mode="eval").body
            if isinstance(e, ast.Call) and isinstance(e.func, ast.Attribute) and e.func.attr == meth and len(e.args) == 1:
                return unparse(e.func.value), unparse(e.args[0])
            return None, None

        okc = len(full) == 1 and len(red) == 1
        if okc:
            r1, a1 = split_call(full[0][1], "code_with_intercept")
            r2, a2 = split_call(red[0][1], "code_without_intercept")
            okc = r1 is not None and r1 == r2 and a1 in (norm(V), "self.levels") and a2 in (norm(V), "self.levels")
    obl(rep, f, cm[0][4] if cm else f.node, "R4.2", okc, "box: the contrast codes the same `categories` list", str([x[1][:80] for x in cm]))
    obl(rep, f, val[0][4] if val else f.node, "R4.2", okv, "box: rows selected by the recoded data's codes", nontrivial=False)
    # box: codes are taken with the declared levels as categories - a value outside them gets code -1 and `matrix[codes]` then
    # silently reads the LAST row: the levels setter must refuse level lists that do not cover the data
    ls = prog.classes.get("formulae.categorical.CategoricalBox")
    setter = ls.setters.get("levels") if ls is not None else None
    if setter is None:
        raise AnalysisError("R4.2: CategoricalBox.levels setter not found")
    vp = setter.params[1]
    covers = {f"set({vp}) != set(self.data)", f"set(self.data) != set({vp})", f"not set(self.data) <= set({vp})", f"not set(self.data).issubset({vp})",
              f"not set(self.data).issubset(set({vp}))", f"set(self.data) - set({vp})", f"set(self.data).difference({vp})", f"not set({vp}) >= set(self.data)",
              f"not set({vp}).issuperset(self.data)", f"not set({vp}).issuperset(set(self.data))"}
    guards_ = []
    for i_ in walk_local(setter.node):
        if isinstance(i_, ast.If) and block_raises(i_.body):
            parts_ = i_.test.values if isinstance(i_.test, ast.BoolOp) and isinstance(i_.test.op, ast.And) else [i_.test]
            if any(unparse(p_) in covers for p_ in parts_) and all(unparse(p_) in covers or unparse(p_) == f"{vp} is not None" for p_ in parts_):
                guards_.append(i_)
    stores_ = [s_ for s_ in walk_local(setter.node) if isinstance(s_, ast.Assign) and is_self_attr(s_.targets[0], "_levels")]
    cst = cfg_of(setter)
    okb = len(guards_) >= 1 and len(stores_) == 1 and cst.dominates(cst.node_of(guards_[0]), cst.node_of(stores_[0]))
    obl(rep, setter, guards_[0] if guards_ else setter.node, "R4.2", okb,
        "box: declared levels that do not cover the values of the data are refused before they are stored", "",
        "the levels setter accepts a level list that misses observed values: those rows get code -1 and are coded as the LAST level")
    for q in ("terms.variable.Variable.labels", "terms.call.Call.labels"):
        f = prog.fn(q)
        comps = [n for n in ast.walk(f.node) if isinstance(n, ast.ListComp) and unparse(n.generators[0].iter) == "self.contrast_matrix.labels"]
        ok = len(comps) == 1 and not comps[0].generators[0].ifs and unparse(comps[0].elt) == "f'{self.name}[{label}]'"
        obl(rep, f, f.node, "R4.2", ok, "categorical labels are name[label] over the contrast object's own labels, in order", "",
            "labels are not read from the contrast matrix that produced the values")
    # Treatment: the zero row and the removed label use the same index
    f = prog.fn("categorical.Treatment.code_without_intercept")
    src = unparse(f.node)
    d = _defs(f)
    ok = "contrast" in d and unparse(d["contrast"].value) == "np.vstack((eye[:reference, :], np.zeros((1, len(levels) - 1)), eye[reference:, :]))"
    obl(rep, f, d.get("contrast", f.node), "R4.2", ok, "Treatment: the zero row is inserted at position `reference`")
    lv = [s for s in walk_local(f.node) if isinstance(s, ast.Assign) and unparse(s.targets[0]) == "levels"]
    ok = len(lv) == 1 and unparse(lv[0].value) == "levels[:reference] + levels[reference + 1:]"
    obl(rep, f, lv[0] if lv else f.node, "R4.2", ok, "Treatment: the label removed is the one at the same position `reference`", "",
        "the reference row and the dropped label use different positions: every label after the reference is shifted")
    refs = [s for s in walk_local(f.node) if isinstance(s, ast.Assign) and unparse(s.targets[0]) == "reference"]
    ok = sorted(unparse(s.value) for s in refs) == ["0", "levels.index(self.reference)"]
    # ... and "by default" means: exactly when no reference was requested (`self.reference is None`).  A truthiness test would
    # also send the requested levels 0, '' and False to the first level.
    def guards(stmt):
        out = []

        def walk(stmts, acc):
            for st in stmts:
                if st is stmt:
                    out.extend(acc)
                    return True
                if isinstance(st, ast.If):
                    if walk(st.body, acc + [(unparse(st.test), True)]) or walk(st.orelse, acc + [(unparse(st.test), False)]):
                        return True
                elif isinstance(st, (ast.For, ast.While, ast.With, ast.Try)):
                    for fld in ("body", "orelse", "finalbody"):
                        if walk(getattr(st, fld, []) or [], acc):
                            return True
            return False

        walk(f.node.body, [])
        return out

    NONE_T = {("self.reference is None", True), ("self.reference is not None", False), ("self.reference == None", True), ("self.reference != None", False)}
    NONE_F = {(t, not v) for t, v in NONE_T}
    if ok:
        zero = [s_ for s_ in refs if unparse(s_.value) == "0"][0]
        idx = [s_ for s_ in refs if unparse(s_.value) != "0"][0]
        gz, gi = guards(zero), guards(idx)
        ok = len(gz) == 1 and gz[0] in NONE_T and any(g in NONE_F for g in gi) \
            and all(g in NONE_F or g in {("self.reference in levels", True), ("self.reference not in levels", False)} for g in gi)
    obl(rep, f, refs[0] if refs else f.node, "R4.2", ok, "Treatment: reference = 0 exactly when none was requested (`is None`), else the position of the requested level", "",
        "the default reference (position 0) is not taken exactly when `self.reference is None`: a requested level that is falsy (0, '', False) "
        "or a different test sends other requests to the first level")
    if lv and "contrast" in d:
        obl(rep, f, lv[0], "R4.2", lv[0].lineno > d["contrast"].lineno and all(r.lineno < d["contrast"].lineno for r in refs),
            "Treatment: `reference` is computed on the full level list before either use")
    labs = [s for s in walk_local(f.node) if isinstance(s, ast.Assign) and unparse(s.targets[0]) == "labels"]
    obl(rep, f, labs[0] if labs else f.node, "R4.2", len(labs) == 1 and unparse(labs[0].value) == "[str(level) for level in levels]", "Treatment: labels follow the remaining levels in order")
    f = prog.fn("categorical.Treatment.code_with_intercept")
    d = _defs(f)
    ok = unparse(d["contrast"].value) == "np.eye(len(levels), dtype=int)" and unparse(d["labels"].value) == "[str(level) for level in levels]"
    # ... and that list is the caller's: the rows of the identity are indexed by the caller's category codes, so the labels must
    # keep the caller's order (no re-binding, no in-place reordering of `levels`)
    lvp = f.params[1] if len(f.params) > 1 else "levels"
    moved = [n for n in ast.walk(f.node) if isinstance(n, ast.Name) and n.id == lvp and isinstance(n.ctx, (ast.Store, ast.Del))] + \
        [c for c in calls_in(f.node) if isinstance(c.func, ast.Attribute) and unparse(c.func.value) == lvp
         and c.func.attr in ("insert", "pop", "sort", "reverse", "remove", "append", "extend", "clear")]
    ok = ok and lvp == "levels" and not moved
    obl(rep, f, moved[0] if moved else f.node, "R4.2", ok, "Treatment (full): identity matrix and labels over the same level list, in the caller's order", "",
        "Treatment (full): the labels are not taken from the caller's level list in its own order (the identity's rows are indexed by the caller's codes)")
    # Sum
    f = prog.fn("categorical.Sum.code_without_intercept")
    d = _defs(f)
    ok = unparse(d["matrix"].value) == "self._sum_contrast(levels)" and unparse(d["omit_index"].value) == "self._omit_index(levels)"
    lv = [s for s in walk_local(f.node) if isinstance(s, ast.Assign) and unparse(s.targets[0]) == "levels"]
    ok = ok and len(lv) == 1 and unparse(lv[0].value) == "levels[:omit_index] + levels[omit_index + 1:]" \
        and lv[0].lineno > d["matrix"].lineno and lv[0].lineno > d["omit_index"].lineno
    obl(rep, f, f.node, "R4.2", ok, "Sum: the label removed is at _omit_index(levels), computed on the full list before the list is cut", "",
        "Sum: the omitted label position is not the position coded -1")
    g = prog.fn("categorical.Sum._sum_contrast")
    d = _defs(g)
    ok = unparse(d["omit_index"].value) == "self._omit_index(levels)" and "out[omit_index, :] = -1" in unparse(g.node) \
        and "out[:omit_index, :] = eye[:omit_index, :]" in unparse(g.node) and "out[omit_index + 1:, :] = eye[omit_index:, :]" in unparse(g.node)
    obl(rep, g, g.node, "R4.2", ok, "Sum: the -1 row sits at the same _omit_index(levels)")
    oi = prog.fn("categorical.Sum._omit_index")
    rets = [n for n in walk_local(oi.node) if isinstance(n, ast.Return)]
    by = {unparse(r_.value): r_ for r_ in rets if r_.value is not None}
    ok = set(by) == {"len(levels) - 1", "levels.index(self.omit)"} and len(rets) == 2
    if ok:
        def guards_of(stmt):
            out = []

            def walk(stmts, acc):
                for i, st in enumerate(stmts):
                    if st is stmt:
                        out.extend(acc)
                        return True
                    if isinstance(st, ast.If):
                        if walk(st.body, acc + [(unparse(st.test), True)]) or walk(st.orelse, acc + [(unparse(st.test), False)]):
                            return True
                        # `if C: return a` followed by the rest: the rest runs under not C
                        from ..core import block_terminates
                        if block_terminates(st.body) and not st.orelse:
                            acc = acc + [(unparse(st.test), False)]
                return False

            walk(oi.node.body, [])
            return out

        T = {("self.omit is None", True), ("self.omit is not None", False)}
        F = {(t, not v) for t, v in T}
        gl, gi = guards_of(by["len(levels) - 1"]), guards_of(by["levels.index(self.omit)"])
        ok = len(gl) == 1 and gl[0] in T and len(gi) == 1 and gi[0] in F
    obl(rep, oi, oi.node, "R4.2", ok, "Sum: the last level is omitted exactly when none was requested (`self.omit is None`), else the requested one", "",
        "the default omitted level is not chosen exactly when `self.omit is None` (a truthiness test also catches the requested levels 0, '' and False)")
    h = prog.fn("categorical.Sum.code_with_intercept")
    d = _defs(h)
    ok = unparse(d["matrix"].value) == "np.column_stack((np.ones(len(levels), dtype=int), contrast.matrix))" and unparse(d["labels"].value) == "['mean'] + contrast.labels"
    obl(rep, h, h.node, "R4.2", ok, "Sum (full): the constant column and the label 'mean' are both first")
    cmi = prog.fn("categorical.ContrastMatrix.__init__")
    g = [i for i in walk_local(cmi.node) if isinstance(i, ast.If) and unparse(i.test) == "matrix.shape[1] != len(labels)"]
    obl(rep, cmi, cmi.node, "R4.2", len(g) == 1, "ContrastMatrix refuses a label list whose length differs from the number of columns")


def order_kind(node):
    """'canonical' | 'declared' | 'first-seen' for an expression that defines a level list"""
    n = node
    while True:
        if isinstance(n, ast.Call) and isinstance(n.func, ast.Attribute) and n.func.attr in ("tolist", "to_list", "copy"):
            n = n.func.value
            continue
        if isinstance(n, ast.Call) and dotted(n.func) in ("list", "tuple") and len(n.args) == 1:
            n = n.args[0]
            continue
        break
    if isinstance(n, ast.Call) and dotted(n.func) in CANONICAL:
        # sorted(..., key=f) / reverse=True is an order, but not THE sorted order of the values (key=str puts 10 before 9)
        if any(k.arg in ("key", "reverse") and not (isinstance(k.value, ast.Constant) and k.value.value in (None, False)) for k in n.keywords):
            return "sorted-by-key"
        return "canonical"
    if isinstance(n, ast.Name) and n.id in ("levels",):
        return "declared"
    return "first-seen"


def _unordered_test(t, x):
    """+1 if `t` is true exactly for data WITHOUT a declared order, -1 if it is true exactly for ordered data, 0 otherwise.
    Spellings: `not hasattr(x.dtype, 'ordered') or not x.dtype.ordered` and its negation (De Morgan, getattr default)."""
    txt = unparse(t)
    has, ordd = f"hasattr({x}.dtype, 'ordered')", f"{x}.dtype.ordered"
    if txt in (f"not {has} or not {ordd}", f"not ({has} and {ordd})"):
        return 1
    if txt in (f"{has} and {ordd}", f"not (not {has} or not {ordd})", f"getattr({x}.dtype, 'ordered', False)"):
        return -1
    if txt == f"not getattr({x}.dtype, 'ordered', False)":
        return 1
    return 0


def r4_3(prog, rep):
    """level order: decided on the abstract value of the categorical that is coded (self.levels = <X>.categories.tolist())"""
    for q in ("terms.variable.Variable.eval_categoric", "terms.call.Call.eval_categoric"):
        try:
            f, st = _attr_stores(prog, q)
        except AnalysisError as e:
            rep.defer(f"R4.3: {q}: {e}")
            continue
        x = f.params[1]
        lv = [y for y in st if y[0] == "self.levels"]
        X = None
        if len(lv) == 1 and lv[0][1].endswith(".categories.tolist()"):
            try:
                X = ast.parse(lv[0][1][: -len(".categories.tolist()")], mode="eval").body
            except SyntaxError:
                X = None
        pol = _unordered_test(X.test, x) if isinstance(X, ast.IfExp) else 0
        obl(rep, f, lv[0][4] if lv else f.node, "R4.3", pol != 0, "declared order (ordered dtype) is tested before levels are derived",
            unparse(X.test) if isinstance(X, ast.IfExp) else "",
            "the coded categorical does not distinguish data with a declared order from data without one")
        if pol == 0:
            continue
        unord, ordd = (X.body, X.orelse) if pol == 1 else (X.orelse, X.body)
        # unordered: pd.Categorical(x).astype(CategoricalDtype(categories=<canonical>, ordered=True))
        cats = None
        if isinstance(unord, ast.Call) and isinstance(unord.func, ast.Attribute) and unord.func.attr == "astype" and unparse(unord.func.value) == f"pd.Categorical({x})" \
                and len(unord.args) == 1 and isinstance(unord.args[0], ast.Call) and dotted(unord.args[0].func) in ("pd.api.types.CategoricalDtype", "pd.CategoricalDtype", "CategoricalDtype"):
            kw = {k.arg: k.value for k in unord.args[0].keywords}
            if unparse(kw.get("ordered", ast.Constant(value=False))) == "True":
                cats = kw.get("categories")
        elif isinstance(unord, ast.Call) and dotted(unord.func) == "pd.Categorical" and unord.args and unparse(unord.args[0]) == x:
            kw = {k.arg: k.value for k in unord.keywords}
            if unparse(kw.get("ordered", ast.Constant(value=False))) == "True":
                cats = kw.get("categories")
        k = order_kind(cats) if cats is not None else "?"
        uses_x = cats is not None and any(isinstance(n, ast.Name) and n.id == x for n in ast.walk(cats))
        obl(rep, f, lv[0][4], "R4.3", cats is not None and k == "canonical" and uses_x,
            "unordered data: the level list is of canonical order (sorted / np.unique)", f"`{unparse(cats) if cats is not None else ''}` is {k}",
            f"levels of undeclared data are defined by `{unparse(cats) if cats is not None else unparse(unord)[:80]}` ({k} order): level order depends on row order / "
            "hashing / the dtype's own order")
        obl(rep, f, lv[0][4], "R4.3", cats is not None, "the data is recoded with exactly that level list", nontrivial=False)
        obl(rep, f, lv[0][4], "R4.3", unparse(ordd) == f"pd.Categorical({x})", "ordered data: the dtype's own category order is respected", unparse(ordd)[:80])
    q = "terms.call.Call.eval_categorical_box"
    try:
        f, st = _attr_stores(prog, q)
        b = f.params[1]
        lv = [y for y in st if y[0] == "self.levels"]
        V = ast.parse(lv[0][1], mode="eval").body if len(lv) == 1 else None
    except (AnalysisError, SyntaxError) as e:
        rep.defer(f"R4.3: {q}: {e}")
        V, f, lv, b = None, prog.fn(q), [], "box"
    ka = kb = "?"
    a_txt = b_txt = ""
    if isinstance(V, ast.IfExp) and unparse(V.test) in (f"{b}.levels is None", f"{b}.levels is not None"):
        derived, given = (V.body, V.orelse) if unparse(V.test).endswith("is None") else (V.orelse, V.body)
        ka, a_txt = order_kind(derived), unparse(derived)
        kb, b_txt = ("declared" if unparse(given) == f"{b}.levels" else order_kind(given)), unparse(given)
    obl(rep, f, lv[0][4] if lv else f.node, "R4.3", ka == "canonical", "box without levels=: canonical order of the observed values", f"`{a_txt}` is {ka}",
        f"`{a_txt}` is of {ka} order")
    obl(rep, f, lv[0][4] if lv else f.node, "R4.3", kb == "declared", "box with levels=: the given order is kept", f"`{b_txt}` is {kb}",
        f"`{b_txt}` re-orders the declared levels")
    cb = prog.fn("categorical.CategoricalBox.__init__")
    g = [i for i in walk_local(cb.node) if isinstance(i, ast.If) and "data.dtype.ordered" in unparse(i.test) and "levels is None" in unparse(i.test)]
    ok = len(g) == 1 and [unparse(s) for s in g[0].body] == ["levels = data.dtype.categories.tolist()"]
    obl(rep, cb, g[0] if g else cb.node, "R4.3", ok, "box over ordered data without levels=: the declared category order becomes the levels")


def _repr_only(node, src):
    """node derives from `src` through representation changes only"""
    n = node
    for _ in range(6):
        if isinstance(n, ast.Name) and n.id == src:
            return True
        if isinstance(n, ast.Attribute) and n.attr in ("values", "array"):
            n = n.value
        elif isinstance(n, ast.Call) and dotted(n.func) in ("np.asarray", "np.array", "np.asanyarray") and len(n.args) >= 1:
            n = n.args[0]
        elif isinstance(n, ast.Call) and isinstance(n.func, ast.Attribute) and n.func.attr in ("to_numpy", "astype", "copy") :
            n = n.func.value
        else:
            return False
    return False


def r4_4(prog, rep):
    for q in ("terms.variable.Variable.eval_numeric", "terms.call.Call.eval_numeric"):
        f = prog.fn(q)
        x = f.params[1]
        st = [s for s in walk_local(f.node) if isinstance(s, ast.Assign) and is_self_attr(s.targets[0], "value")]
        ok = len(st) >= 1 and all(_repr_only(s.value, x) for s in st)
        obl(rep, f, st[0] if st else f.node, "R4.4", ok, "numeric value = the looked-up column / call result through representation changes only",
            str([unparse(s.value) for s in st]), f"numeric value is computed as {[unparse(s.value) for s in st]}: arithmetic or re-ordering on the way into the matrix")
    for q in ("terms.variable.Variable.eval_new_data_numeric", "terms.call.Call.eval_new_data_numeric"):
        f = prog.fn(q)
        x = f.params[0] if getattr(f, "is_staticmethod", False) else f.params[1]
        rets = [n for n in walk_local(f.node) if isinstance(n, ast.Return)]
        ok = len(rets) == 1 and _repr_only(rets[0].value, x)
        obl(rep, f, rets[0] if rets else f.node, "R4.4", ok, "new numeric value = the new column through representation changes only",
            unparse(rets[0].value) if rets else "", f"returns `{unparse(rets[0].value) if rets else None}`")
    f = prog.fn("terms.variable.Variable.set_type")
    st = [s for s in walk_local(f.node) if isinstance(s, ast.Assign) and unparse(s.targets[0]) == "x"]
    ok = len(st) == 1 and unparse(st[0].value) == f"{f.params[1]}[self.name]"
    obl(rep, f, st[0] if st else f.node, "R4.4", ok, "a variable's data is the frame column of its own name")
    imd = [s for s in walk_local(f.node) if isinstance(s, ast.Assign) and is_self_attr(s.targets[0], "_intermediate_data")]
    obl(rep, f, imd[0] if imd else f.node, "R4.4", len(imd) == 1 and unparse(imd[0].value) == "x", "and is remembered unchanged for set_data")
    sd = prog.fn("terms.variable.Variable.set_data")
    args = sorted(unparse(x_) for x_ in calls_in(sd.node) if unparse(x_.func) in ("self.eval_numeric", "self.eval_categoric"))
    obl(rep, sd, sd.node, "R4.4", args == ["self.eval_categoric(self._intermediate_data, spans_intercept)", "self.eval_numeric(self._intermediate_data)"],
        "set_data evaluates exactly the remembered data", str(args))
    nl = prog.fn("terms.variable.Variable.labels")
    ok = "labels = [self.name]" in unparse(nl.node)
    obl(rep, nl, nl.node, "R4.4", ok, "a numeric variable's column is labelled with the variable's name")


def r4_6(prog, rep):
    from . import C17

    sub = rep.sub()
    C17.r17_2(prog, sub)
    for it in sub.items:
        it = dict(it)
        it["rule"] = "R4.6"
        rep.items.append(it)
        rep.counts["R4.6"] = rep.counts.get("R4.6", 0) + 1


from ..core import guard_rules  # noqa: E402

guard_rules(globals())

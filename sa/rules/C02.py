"""C02 - term algebra: structural clauses (R2.1 .. R2.5 of DESIGN.md)."""
import ast

from ..core import (
    AnalysisError,
    obl,
    unparse,
    short,
    dotted,
    is_str_const,
    is_self_attr,
    walk_local,
    calls_in,
    block_raises,
)
from ..cfg import cfg_of, RETURN, FALLOFF
from ..dispatch import Dispatch, OPS, UNIVERSE
from ..scanmodel import extract_scan_token

EXPLANATION = (
    "Structural clauses of the term algebra, decided on the source of terms.py / resolver.py / "
    "call_resolver.py / variable.py / call.py: R2.1 identity protocol of every class compared or "
    "hashed for term identity (__eq__ implies __hash__; hash() has one argument; fields hashed are "
    "compared or constant; __eq__ never dereferences a foreign operand); R2.2 dispatch completeness: "
    "a type-level abstract interpretation of all 7 operator overloads over the closed universe of 6 "
    "classes yields, per (operator, left, right), supported / unsupported (NotImplemented with no "
    "reflected method, implicit None, missing attribute); the triples the property quantifies over "
    "must be supported; R2.3 the resolver maps every operator the grammar can put in a Binary/Unary "
    "node onto the Python operator of the algebra, operands in order, or raises; literals 0/1 and "
    "unary minus; R2.4 every sub-result of the resolver is used exactly once (the overloads mutate "
    "and return self); R2.5 container invariants (duplicate-free components and term lists, "
    "model_description always returns a Model); R2.6 expansion semantics: every overload is summarised by abstract "
    "interpretation in a term-set domain (generators over the operands' terms and factors) and compared with the "
    "documented Wilkinson-Rogers / lme4 expansion for every supported operand shape."
    " R2.7 the resolver hands the value of a parenthesised sub-expression to the enclosing operator untouched (C01's R1.10; a temporary holding it is used exactly once)."
)
ASSUMPTIONS = [
    "Python: a class defining __eq__ without __hash__ is unhashable; binary operators try __op__ then the reflected method; no reflected methods exist in the package",
    "the six term-algebra classes do not inherit from each other (checked)",
    "required triples are those of the property statement (see REQUIRED in this file)",
]

IDENTITY = [
    "terms.terms.Intercept",
    "terms.terms.NegatedIntercept",
    "terms.terms.Term",
    "terms.terms.GroupSpecificTerm",
    "terms.variable.Variable",
    "terms.call.Call",
    "terms.call_resolver.LazyOperator",
    "terms.call_resolver.LazyVariable",
    "terms.call_resolver.LazyValue",
    "terms.call_resolver.LazyCall",
    "contrasts.ExpandedFactor",
    "contrasts.Subterm",
]

ALG = ["Intercept", "NegatedIntercept", "Term", "GroupSpecificTerm", "Model"]
REQUIRED = []
for L in ALG:
    for R in ALG:
        REQUIRED.append(("+", L, R, "all"))
for L in ["Intercept", "Term", "Model"]:
    for R in ["Intercept", "Term", "GroupSpecificTerm", "Model"]:
        REQUIRED.append(("-", L, R, "all"))
for op in (":", "*", "/"):
    for L in ["Term", "Model"]:
        for R in ["Term", "Model"]:
            REQUIRED.append((op, L, R, "all"))
for L in ["Term", "Model"]:
    REQUIRED.append(("**", L, "Term", "some"))  # right operand: one-component integer Term (a value condition)
for L in ["Intercept", "Term", "Model"]:
    for R in ["Term", "Model"]:
        REQUIRED.append(("|", L, R, "all"))
for R in ["Intercept", "Term", "GroupSpecificTerm", "Model"]:
    REQUIRED.append(("~", "Response", R, "all"))

# Documented expansion (Wilkinson-Rogers / lme4 set semantics) of every supported operand shape, written in the
# normal form of sa/algebra.py: set of (path condition, resulting term set).  SELF/OTHER are the operands, CT(X) the
# common terms of a sum X, ALL(X) common and group-specific terms, CT*(SELF) the effect terms after the implicit
# intercept was settled (R5.5), comps(t) the factors of term t, allcomps(X) all factors of X.  Each entry was
# checked by hand against the property statement: + union, - difference, a:b pairwise interaction, a*b = a + b + a:b,
# a/b = a + (all factors of a):b, (...)**n all interactions up to order n, (e|g) one group-specific term per term of
# e (plus the implicit intercept) and per term of g.
REF_EXPANSION = {
    ('+', 'Intercept', 'Intercept'): [('-', 'I')],
    ('+', 'Intercept', 'NegatedIntercept'): [('-', '{}')],
    ('+', 'Intercept', 'Term'): [('-', '{I; OTHER}')],
    ('+', 'Intercept', 'GroupSpecificTerm'): [('-', '{I; OTHER}')],
    ('+', 'Intercept', 'Model'): [('-', '{I; e | e in ALL(OTHER)}')],
    ('+', 'NegatedIntercept', 'Intercept'): [('-', '{}')],
    ('+', 'NegatedIntercept', 'NegatedIntercept'): [('-', 'N')],
    ('+', 'NegatedIntercept', 'Term'): [('-', '{N; OTHER}')],
    ('+', 'NegatedIntercept', 'GroupSpecificTerm'): [('-', '{N; OTHER}')],
    ('+', 'NegatedIntercept', 'Model'): [('-', '{N; e | e in ALL(OTHER)}')],
    ('+', 'Term', 'Intercept'): [('-', '{I; SELF}')],
    ('+', 'Term', 'NegatedIntercept'): [('-', '{N; SELF}')],
    ('+', 'Term', 'Term'): [('SELF != OTHER', '{OTHER; SELF}'), ('SELF == OTHER', 'SELF')],
    ('+', 'Term', 'GroupSpecificTerm'): [('-', '{OTHER; SELF}')],
    ('+', 'Term', 'Model'): [('-', '{SELF; e | e in ALL(OTHER)}')],
    ('+', 'GroupSpecificTerm', 'Intercept'): [('-', '{I; SELF}')],
    ('+', 'GroupSpecificTerm', 'NegatedIntercept'): [('-', '{N; SELF}')],
    ('+', 'GroupSpecificTerm', 'Term'): [('-', '{OTHER; SELF}')],
    ('+', 'GroupSpecificTerm', 'GroupSpecificTerm'): [('SELF != OTHER', '{OTHER; SELF}'), ('SELF == OTHER', 'SELF')],
    ('+', 'GroupSpecificTerm', 'Model'): [('-', '{SELF; e | e in ALL(OTHER)}')],
    ('+', 'Model', 'Intercept'): [('-', '{I; e | e in ALL(SELF)}')],
    ('+', 'Model', 'NegatedIntercept'): [('-', '{e | e in ALL(SELF)} minus {I}')],
    ('+', 'Model', 'Term'): [('-', '{OTHER; e | e in ALL(SELF)}')],
    ('+', 'Model', 'GroupSpecificTerm'): [('-', '{OTHER; e | e in ALL(SELF)}')],
    ('+', 'Model', 'Model'): [('-', '{e | e in ALL(OTHER); e | e in ALL(SELF)}')],
    ('-', 'Intercept', 'Intercept'): [('-', '{}')],
    ('-', 'Intercept', 'Term'): [('-', 'I')],
    ('-', 'Intercept', 'GroupSpecificTerm'): [('-', 'I')],
    ('-', 'Intercept', 'Model'): [('I in OTHER', '{}'), ('I not in OTHER', 'I')],
    ('-', 'Term', 'Intercept'): [('-', '{N; SELF}')],
    ('-', 'Term', 'Term'): [('SELF != OTHER', 'SELF'), ('SELF == OTHER', '{}')],
    ('-', 'Term', 'GroupSpecificTerm'): [('-', 'SELF')],
    ('-', 'Term', 'Model'): [('SELF in OTHER', '{}'), ('SELF not in OTHER', 'SELF')],
    ('-', 'Model', 'Intercept'): [('OTHER in SELF', '{e | e in ALL(SELF)} minus {I}'), ('OTHER not in SELF', 'SELF')],
    ('-', 'Model', 'Term'): [('OTHER in SELF', '{e | e in ALL(SELF)} minus {OTHER}'), ('OTHER not in SELF', 'SELF')],
    ('-', 'Model', 'GroupSpecificTerm'): [('OTHER in SELF', '{e | e in ALL(SELF)} minus {OTHER}'), ('OTHER not in SELF', 'SELF')],
    ('-', 'Model', 'Model'): [('-', '{e | e in ALL(SELF)} minus {e | e in ALL(OTHER)}')],
    (':', 'Term', 'Term'): [('SELF != OTHER', 'TERM(comps(SELF) ++ comps(OTHER))'), ('SELF != OTHER & OTHER is a number', 'raise TypeError'), ('SELF == OTHER', 'SELF')],
    (':', 'Term', 'Model'): [('-', '{TERM(comps(SELF) ++ comps(p1)) | p1 in CT(OTHER)}')],
    (':', 'Model', 'Term'): [('-', '{TERM(comps(p0) ++ comps(OTHER)) | p0 in CT(SELF)}')],
    (':', 'Model', 'Model'): [('-', '{TERM(comps(p0) ++ comps(p1)) | p0 in CT(SELF), p1 in CT(OTHER)}')],
    ('*', 'Term', 'Term'): [('SELF != OTHER', '{OTHER; SELF; TERM(comps(SELF) ++ comps(OTHER))}'), ('SELF != OTHER & OTHER is a number', 'raise TypeError'), ('SELF == OTHER', 'SELF')],
    ('*', 'Term', 'Model'): [('-', '{SELF; TERM(comps(SELF) ++ comps(p1)) | p1 in CT(OTHER); e | e in CT(OTHER)}')],
    ('*', 'Model', 'Term'): [('-', '{OTHER; TERM(comps(p0) ++ comps(OTHER)) | p0 in CT(SELF); e | e in CT(SELF)}'), ('OTHER is a number', 'raise TypeError')],
    ('*', 'Model', 'Model'): [('SELF != OTHER', '{TERM(comps(p0) ++ comps(p1)) | p0 in CT(SELF), p1 in CT(OTHER); e | e in CT(OTHER); e | e in CT(SELF)}'), ('SELF != OTHER & OTHER has one term', '{TERM(comps(p0) ++ comps(p1)) | p0 in CT(SELF), p1 in CT(OTHER); e | e in CT(OTHER); e | e in CT(SELF)}'), ('SELF == OTHER', 'SELF')],
    ('/', 'Term', 'Term'): [('SELF != OTHER', '{SELF; TERM(comps(SELF) ++ comps(OTHER))}'), ('SELF != OTHER & OTHER is a number', 'raise TypeError'), ('SELF == OTHER', 'SELF')],
    ('/', 'Term', 'Model'): [('-', '{SELF; TERM(comps(SELF) ++ comps(p1)) | p1 in CT(OTHER)}')],
    ('/', 'Model', 'Term'): [('-', '{TERM(allcomps(SELF) ++ comps(OTHER)); e | e in ALL(SELF)}')],
    ('/', 'Model', 'Model'): [('-', '{TERM(allcomps(SELF) ++ c) | c in CC(OTHER); e | e in ALL(SELF)}')],
    ('**', 'Term', 'Term'): [('n is a positive integer', 'SELF'), ('n is not a positive integer', 'NotImplemented')],
    # an exponent that is not a positive integer is refused (today by reading the local `comb` that no statement bound: an
    # UnboundLocalError - any exception will do, an accepted formula that ignores its exponent will not)
    ('**', 'Model', 'Term'): [('OTHER is a single component & n is a positive integer', '{TERM(comps(each of combo)) | combo in combinations(CT(SELF), k), k in range(2, n + 1); e | e in ALL(SELF)}'),
                              ('OTHER is a single component & n is not a positive integer', 'raise *')],
    ('|', 'Intercept', 'Term'): [('-', 'GST(I, OTHER)')],
    ('|', 'Intercept', 'Model'): [('-', '{GST(I, p1) | p1 in CT(OTHER)}')],
    ('|', 'Term', 'Term'): [('-', '{GST(I, OTHER); GST(SELF, OTHER)}')],
    ('|', 'Term', 'Model'): [('-', '{GST(I, p1) | p1 in CT(OTHER); GST(SELF, p1) | p1 in CT(OTHER)}')],
    ('|', 'Model', 'Term'): [('-', '{GST(p0, OTHER) | p0 in CT*(SELF)}'), ('SELF has one term', '(first(CT(SELF))) | (OTHER)')],
    ('|', 'Model', 'Model'): [('-', '{GST(p0, p1) | p0 in CT*(SELF), p1 in CT(OTHER)}'), ('SELF has one term', '(first(CT(SELF))) | (OTHER)')],
    ('~', 'Response', 'Intercept'): [('-', '{I} with response')],
    ('~', 'Response', 'Term'): [('-', '{OTHER} with response')],
    ('~', 'Response', 'GroupSpecificTerm'): [('-', '{OTHER} with response')],
    ('~', 'Response', 'Model'): [('-', '{e | e in ALL(OTHER)} with response')],
}

RESOLVER_OPS = {
    "+": ast.Add,
    "-": ast.Sub,
    "**": ast.Pow,
    ":": ast.MatMult,
    "*": ast.Mult,
    "/": ast.Div,
    "|": ast.BitOr,
}


def run(prog, rep, tier):
    r2_1(prog, rep)
    r2_1e(prog, rep)
    r2_2(prog, rep, tier)
    r2_3(prog, rep)
    r2_4(prog, rep)
    r2_5(prog, rep)
    r2_6(prog, rep)
    r2_7(prog, rep)
    rep.floor("R2.6", len(REF_EXPANSION))
    rep.floor("R2.7", 2)
    rep.floor("R2.1", 40)
    rep.floor("R2.2", len(REQUIRED))
    rep.floor("R2.3", 12)
    rep.floor("R2.4", 8)
    rep.floor("R2.5", 5)


# ------------------------------------------------------------------------------------------
def _self_fields(node, name="self"):
    out = set()
    for n in ast.walk(node):
        if isinstance(n, ast.Attribute) and isinstance(n.value, ast.Name) and n.value.id == name:
            out.add(n.attr)
    return out


def _constant_fields(cls):
    """fields assigned only constants in __init__ and never written elsewhere"""
    init = cls.methods.get("__init__")
    consts = {}
    if init is None:
        return set()
    for n in walk_local(init.node):
        if isinstance(n, ast.Assign):
            for t in n.targets:
                if is_self_attr(t):
                    consts.setdefault(t.attr, []).append(isinstance(n.value, ast.Constant))
    out = {k for k, v in consts.items() if all(v)}
    for mname, m in cls.methods.items():
        if mname == "__init__":
            continue
        for n in ast.walk(m.node):
            if isinstance(n, ast.Attribute) and isinstance(n.ctx, ast.Store) and isinstance(n.value, ast.Name) and n.value.id == "self":
                out.discard(n.attr)
    return out


def r2_1(prog, rep):
    # (a) __eq__ implies __hash__
    for q in IDENTITY:
        cls = prog.cls(q)
        has_eq = "__eq__" in cls.methods
        has_hash = "__hash__" in cls.methods
        rep.check(has_hash or not has_eq, "R2.1", cls.where, cls.qual,
                  f"{cls.name}: defines __eq__ and __hash__ (instances are hashed for term identity)",
                  "", f"{cls.name} defines __eq__ without __hash__: Python sets __hash__ = None and every "
                  "set()/dict/hash() over such an object raises TypeError")
        if not has_eq:
            rep.info("R2.1", cls.where, cls.qual, f"{cls.name} has no __eq__", "identity comparison")
    # other classes with __eq__ but no __hash__: informational (never hashed by the package)
    for q, cls in sorted(prog.classes.items()):
        if q[len("formulae."):] in IDENTITY:
            continue
        if "__eq__" in cls.methods and "__hash__" not in cls.methods:
            rep.info("R2.1", cls.where, cls.qual, f"{cls.name} defines __eq__ without __hash__",
                     "not an identity class: AST nodes, Token, Response, Model, Environment are never hashed")
    # (b) hash() arity, everywhere in the package
    nhash = 0
    for q, f in sorted(prog.functions.items()):
        for c in calls_in(f.node):
            if dotted(c.func) == "hash":
                nhash += 1
                ok = len(c.args) == 1 and not c.keywords and not isinstance(c.args[0], ast.Starred)
                obl(rep, f, c, "R2.1", ok, f"`{short(c)}`: built-in hash takes exactly one argument",
                    "", f"`{short(c)}` passes {len(c.args)} arguments to hash(): TypeError whenever the object is hashed")
    if nhash < 8:
        raise AnalysisError(f"R2.1b: only {nhash} hash() calls found (expected >= 8)")
    # (c) fields hashed are compared (or constant)
    for q in IDENTITY:
        cls = prog.cls(q)
        h, e = cls.methods.get("__hash__"), cls.methods.get("__eq__")
        if h is None or e is None:
            continue
        hf = _self_fields(h.node) - {"__class__"}
        ef = _self_fields(e.node) - {"__class__"}
        consts = _constant_fields(cls)
        extra = sorted(hf - ef - consts)
        obl(rep, h, h.node, "R2.1", not extra,
            f"{cls.name}.__hash__ reads only fields that __eq__ compares (or constants): {sorted(hf)}",
            f"eq compares {sorted(ef)}; constant fields {sorted(consts & hf)}",
            f"{cls.name}.__hash__ reads {extra} which __eq__ ignores: equal objects can hash differently")
        # and the hash covers at least one compared field unless all instances are equal
        if ef:
            obl(rep, h, h.node, "R2.1", bool(hf), f"{cls.name}.__hash__ depends on the object's identity fields", nontrivial=False)
    # (d) __eq__ never dereferences a foreign operand
    for q in IDENTITY:
        cls = prog.cls(q)
        e = cls.methods.get("__eq__")
        if e is None:
            continue
        other = e.params[1]
        reads = [n for n in ast.walk(e.node) if isinstance(n, ast.Attribute) and isinstance(n.value, ast.Name) and n.value.id == other]
        c = cfg_of(e)
        guards = []
        for i in walk_local(e.node):
            if isinstance(i, ast.If):
                t = i.test
                if isinstance(t, ast.UnaryOp) and isinstance(t.op, ast.Not) and _is_isinstance_of(t.operand, other) and _returns_false_or_ni(i.body):
                    guards.append(i)
        ok_all = True
        for r in reads:
            ok = False
            # (i) earlier conjunct of an `and`
            for b in ast.walk(e.node):
                if isinstance(b, ast.BoolOp) and isinstance(b.op, ast.And):
                    for idx, v in enumerate(b.values):
                        if any(x is r for x in ast.walk(v)):
                            if any(_is_isinstance_of(p, other) for p in b.values[:idx]):
                                ok = True
            # (ii) dominated by the fall-through of a guard
            if not ok:
                for g in guards:
                    try:
                        rn = c.node_of(r)
                    except AnalysisError:
                        continue
                    gn = c.node_of(g)
                    if c.dominates(gn, rn) and rn in c.false_region(gn) and rn not in c.true_region(gn):
                        ok = True
            ok_all = ok_all and ok
            if not ok:
                obl(rep, e, r, "R2.1", False, f"{cls.name}.__eq__ reads `{unparse(r)}` only after an isinstance test",
                    "", f"{cls.name}.__eq__ reads `{unparse(r)}` without an isinstance guard: comparing with an object "
                    "of another class raises AttributeError instead of returning False")
        if ok_all:
            obl(rep, e, e.node, "R2.1", True,
                f"{cls.name}.__eq__ returns False for a foreign class before touching its attributes "
                f"({len(reads)} read(s) of `{other}.*` guarded)")
        obl(rep, e, e.node, "R2.1", not cfg_of(e).falls_off(), f"{cls.name}.__eq__ returns on every path", nontrivial=False)


def r2_1e(prog, rep):
    from . import shared

    shared.eq_compares_fields(prog, rep, "R2.1", IDENTITY)
    # an identity field that is looked up in a table (`self.symbol = self.SYMBOLS[op.__name__]`) identifies the object only if
    # the table is injective: two keys with one value make two different objects compare (and hash) equal
    n = 0
    for q in IDENTITY:
        cls = prog.cls(q)
        init, eq = cls.methods.get("__init__"), cls.methods.get("__eq__")
        if init is None or eq is None:
            continue
        ef = _self_fields(eq.node)
        for st in walk_local(init.node):
            if not (isinstance(st, ast.Assign) and len(st.targets) == 1 and is_self_attr(st.targets[0]) and st.targets[0].attr in ef):
                continue
            v = st.value
            if not (isinstance(v, ast.Subscript) and isinstance(v.value, (ast.Attribute, ast.Name))):
                continue
            tname = v.value.attr if isinstance(v.value, ast.Attribute) else v.value.id
            table = cls.class_attrs.get(tname)
            if table is None:
                vals = cls.module.globals.get(tname) if hasattr(cls, "module") else None
                table = vals[0] if vals and len(vals) == 1 else None
            if not isinstance(table, ast.Dict):
                continue
            n += 1
            # keys are names of functions of the `operator` module: a unary and a binary operator may share a symbol, because the
            # operands are compared as well and their number differs
            UNARY = {"pos", "neg", "invert", "not_", "abs", "inv", "index", "truth"}
            def arity(k):
                return 1 if isinstance(k, ast.Constant) and k.value in UNARY else 2
            texts = [(unparse(x), arity(k)) for k, x in zip(table.keys, table.values)]
            dup = sorted({t[0] for t in texts if texts.count(t) > 1})
            keys = [unparse(k) for k, x in zip(table.keys, table.values) if unparse(x) in dup]
            obl(rep, init, st, "R2.1", not dup, f"{cls.name}.{st.targets[0].attr} is looked up in the injective table {tname}",
                f"{len(texts)} entries", f"the table {tname} maps {keys} to the same value {dup}: two different "
                f"{cls.name} objects get the same `{st.targets[0].attr}`, compare equal and count as one term")
    rep.extra["identity_tables_checked"] = n


def _is_isinstance_of(node, name):
    return (
        isinstance(node, ast.Call)
        and dotted(node.func) == "isinstance"
        and len(node.args) == 2
        and isinstance(node.args[0], ast.Name)
        and node.args[0].id == name
    )


def _returns_false_or_ni(body):
    return (
        len(body) == 1
        and isinstance(body[0], ast.Return)
        and (
            (isinstance(body[0].value, ast.Constant) and body[0].value.value is False)
            or (isinstance(body[0].value, ast.Name) and body[0].value.id == "NotImplemented")
        )
    )


# ------------------------------------------------------------------------------------------
def r2_2(prog, rep, tier):
    d = Dispatch(prog)
    mod = prog.mod("terms.terms")
    # no inheritance between the algebra classes (exact isinstance decisions)
    for n in UNIVERSE:
        c = mod.classes[n]
        obl_ok = not c.bases or c.bases == ["object"]
        rep.check(obl_ok, "R2.2", c.where, c.qual, f"{n} has no base class inside the algebra", "",
                  f"{n} inherits from {c.bases}: isinstance decisions of the dispatch extractor are no longer exact")
    # no reflected methods
    for n in UNIVERSE:
        c = mod.classes[n]
        refl = [m for m in c.methods if m.startswith("__r") and m.endswith("__") and m not in ("__repr__",)]
        if refl:
            raise AnalysisError(f"{n} defines reflected operator(s) {refl}: dispatch extractor does not model them")
    table = {}
    for sym, m in OPS.items():
        for L in UNIVERSE:
            for R in UNIVERSE:
                o = d.binop(m, L, R)
                table[(sym, L, R)] = o
    rep.extra["dispatch_table"] = {
        f"{L} {sym} {R}": ("supported" if o.supported else "unsupported")
        + (" -> " + ",".join(sorted(o.results)) if o.results else "")
        + (" [may reject]" if o.rejects else "")
        for (sym, L, R), o in sorted(table.items())
    }
    for sym, L, R, mode in REQUIRED:
        if sym == "~":
            o = d.binop("__add__", "Response", R)
            construct = f"Response ~ {R}"
            fnq = "formulae.terms.terms.Response.__add__"
        else:
            o = table[(sym, L, R)]
            construct = f"{L} {sym} {R}"
            fnq = f"formulae.terms.terms.{L}.{OPS[sym]}"
        c = mod.classes[L if sym != "~" else "Response"]
        m = c.methods.get(OPS.get(sym, "__add__"))
        where = f"{mod.relpath}:{m.node.lineno}" if m else c.where
        if mode == "all":
            ok = o.supported and bool(o.results or o.rejects)
        else:
            hard = [p for p in o.problems if p[0] in ("attribute", "no-method")]
            ok = bool(o.results) and not hard
        why_bad = "; ".join(sorted({p[1] for p in o.problems}))[:400] or "no path returns a term-algebra object"
        rep.check(ok, "R2.2", where, fnq, construct,
                  "supported: " + (",".join(sorted(o.results)) or "rejects deliberately"), why_bad)
    # informational: unsupported triples outside the required table
    req = {(s, L, R) for s, L, R, _ in REQUIRED}
    n_info = 0
    for (sym, L, R), o in sorted(table.items()):
        if (sym, L, R) not in req and not o.supported and L in ALG and R in ALG and n_info < 40:
            n_info += 1
            rep.info("R2.2", mod.relpath + ":1", f"formulae.terms.terms.{L}.{OPS[sym]}", f"{L} {sym} {R}",
                     "outside the required table: rejected with TypeError")


# ------------------------------------------------------------------------------------------
def _accept_of(node, param, field):
    """node is `<param>.<field>.accept(self)`"""
    return (
        isinstance(node, ast.Call)
        and isinstance(node.func, ast.Attribute)
        and node.func.attr == "accept"
        and unparse(node.func.value) == f"{param}.{field}"
        and len(node.args) == 1
        and unparse(node.args[0]) == "self"
    )


OPERATOR_FUNCS = {"add": ast.Add, "sub": ast.Sub, "mul": ast.Mult, "truediv": ast.Div, "pow": ast.Pow, "matmul": ast.MatMult, "or_": ast.BitOr,
                  "floordiv": ast.FloorDiv, "mod": ast.Mod, "and_": ast.BitAnd, "xor": ast.BitXor}


from .shared import const_table as _const_table_sh, specialise as _specialise_sh  # noqa: E402


def _const_table(prog, f, name):
    return _const_table_sh(prog, f, ast.Name(id=name, ctx=ast.Load()))


def _specialise(prog, f, var, value):
    return _specialise_sh(prog, f, var, value, operator_calls=True)


def _quoted_name_is_text(prog, rep, rule):
    """a back-quoted name is a NAME: Resolver.visitQuotedNameExpr builds Term(Variable(<the lexeme without its back-quotes>)) - the
    text itself, on every path.  The algebra tells names from numbers by type (`isinstance(name, (int, float))` guards the
    interactions), so a quoted name converted to a number would be refused by `:`, `*`, `/` or counted as a power."""
    f = prog.fn("resolver.Resolver.visitQuotedNameExpr")
    p = f.params[1]
    rets = [n for n in walk_local(f.node) if isinstance(n, ast.Return)]
    want = f"{p}.expression.lexeme[1:-1]"
    ok = len(rets) == 1 and isinstance(rets[0].value, ast.Call) and unparse(rets[0].value.func) == "Term" and len(rets[0].value.args) == 1 \
        and isinstance(rets[0].value.args[0], ast.Call) and unparse(rets[0].value.args[0].func) == "Variable" and rets[0].value.args[0].args
    shown = unparse(rets[0].value) if rets else "no return"
    if ok:
        a = rets[0].value.args[0].args[0]
        hops = 0
        while isinstance(a, ast.Name) and hops < 4:
            stores = [n for n in ast.walk(f.node) if isinstance(n, ast.Name) and n.id == a.id and isinstance(n.ctx, ast.Store)]
            ds = [s_ for s_ in walk_local(f.node) if isinstance(s_, ast.Assign) and len(s_.targets) == 1 and unparse(s_.targets[0]) == a.id]
            if len(stores) != 1 or len(ds) != 1:
                shown = f"`{a.id}` is bound {len(stores)} times"
                a = None
                break
            a = ds[0].value
            hops += 1
        ok = a is not None and unparse(a) == want
        if a is not None and not ok:
            shown = unparse(a)
    obl(rep, f, f.node, rule, bool(ok), "a back-quoted name resolves to Term(Variable(<its text>)): never converted", want,
        f"the name handed to Variable is not the quoted text itself ({shown}): the operators treat non-string names as numbers")


def r2_3(prog, rep):
    _quoted_name_is_text(prog, rep, "R2.3")
    sm, _ = extract_scan_token(prog)
    kind2lex = {k: lx for lx, (k, _) in sm.table.items()}
    f = prog.fn("resolver.Resolver.visitBinaryExpr")
    p = f.params[1]
    # variable holding the operator kind
    from . import shared as _shk
    kvar = _shk.ensure_kind_variable(f, p)
    if kvar is None:
        raise AnalysisError("Resolver.visitBinaryExpr: `otype = expr.operator.kind` not found")
    known_kinds = set()
    for n in ast.walk(f.node):
        if isinstance(n, ast.Compare) and isinstance(n.left, ast.Name) and n.left.id == kvar:
            for c in n.comparators:
                if is_str_const(c):
                    known_kinds.add(c.value)
                elif isinstance(c, (ast.Tuple, ast.List, ast.Set)):
                    known_kinds |= {e.value for e in c.elts if is_str_const(e)}
                elif isinstance(c, ast.Name) and _const_table(prog, f, c.id) is not None:
                    known_kinds |= set(_const_table(prog, f, c.id))
    from .. import grammar as G

    ex = G.extract(prog)
    S = G.summaries(ex)
    bin_kinds, un_kinds = set(), set()
    for name, res in S.items():
        for path, status, val in res:
            if status != "return":
                continue
            stack = [val]
            while stack:
                v = stack.pop()
                if v[0] == "node":
                    if v[1] == "Binary" and v[2]["operator"][0] == "tokv":
                        bin_kinds |= set(v[2]["operator"][2])
                    if v[1] == "Unary" and v[2]["operator"][0] == "tokv":
                        un_kinds |= set(v[2]["operator"][2])
                    stack.extend(v[2].values())
                elif v[0] == "list":
                    stack.extend(v[1])
                elif v[0] == "attr":
                    stack.append(v[1])
    for kind in sorted(bin_kinds):
        lx = kind2lex.get(kind)
        out = _specialise(prog, f, kvar, kind)
        if out[0] == "raise":
            ok = lx not in RESOLVER_OPS and lx != "~"
            obl(rep, f, f.node, "R2.3", ok, f"operator `{lx}` ({kind}) is not a formula operator: reaches the final raise",
                "comparison operators are only legal inside calls", f"formula operator `{lx}` ({kind}) is rejected by the resolver")
            continue
        if out[0] != "return":
            obl(rep, f, f.node, "R2.3", False, f"operator `{lx}` ({kind}) is resolved", "", f"kind {kind} falls off the end of visitBinaryExpr (None)")
            continue
        v = out[1]
        if lx == "~":
            ok = (isinstance(v, ast.BinOp) and isinstance(v.op, ast.Add)
                  and isinstance(v.left, ast.Call) and dotted(v.left.func) == "Response" and len(v.left.args) == 1
                  and _accept_of(v.left.args[0], p, "left") and _accept_of(v.right, p, "right"))
            why = "`~` resolves to Response(left) + right"
        else:
            want = RESOLVER_OPS.get(lx)
            ok = (want is not None and isinstance(v, ast.BinOp) and isinstance(v.op, want)
                  and _accept_of(v.left, p, "left") and _accept_of(v.right, p, "right"))
            why = f"`{lx}` resolves to left {want.__name__ if want else '?'} right, operands in source order"
        obl(rep, f, out[2], "R2.3", ok, f"operator `{lx}` ({kind}) -> `{short(v)}`",
            why, f"formula operator `{lx}` is resolved by `{short(v)}`; expected {why}")
    for kind in sorted(known_kinds - bin_kinds):
        rep.info("R2.3", f.loc(f.node), f.qual, f"branch for kind {kind}", "the parser never builds a Binary node with this kind")
    unk = _specialise(prog, f, kvar, "<no such kind>")
    obl(rep, f, f.node, "R2.3", unk[0] == "raise" and not cfg_of(f).falls_off(),
        "unknown operator kinds end in raise (not None)")
    # unary
    f = prog.fn("resolver.Resolver.visitUnaryExpr")
    p = f.params[1]
    src = {}
    for i in walk_local(f.node):
        if isinstance(i, ast.If) and isinstance(i.test, ast.Compare) and is_str_const(i.test.comparators[0]):
            src[i.test.comparators[0].value] = i
    for kind in sorted(un_kinds):
        lx = kind2lex.get(kind)
        br = src.get(kind)
        if br is None:
            obl(rep, f, f.node, "R2.3", False, f"unary `{lx}` has a branch", "", f"unary kind {kind} not handled")
            continue
        if lx == "+":
            ok = len(br.body) == 1 and isinstance(br.body[0], ast.Return) and _accept_of(br.body[0].value, p, "right")
            obl(rep, f, br, "R2.3", ok, "unary `+` returns its operand unchanged")
        elif lx == "-":
            text = unparse(br)
            rets = [n for n in ast.walk(br) if isinstance(n, ast.Return)]
            pairs = []
            for i in ast.walk(br):
                if isinstance(i, ast.If) and isinstance(i.test, ast.Call) and dotted(i.test.func) == "isinstance":
                    cls_ = unparse(i.test.args[1])
                    r = i.body[0].value if i.body and isinstance(i.body[0], ast.Return) else None
                    pairs.append((cls_, dotted(r.func) if isinstance(r, ast.Call) else None))
            ok = ("Intercept", "NegatedIntercept") in pairs and ("NegatedIntercept", "Intercept") in pairs
            ends_raise = any(isinstance(n, ast.Raise) for n in ast.walk(br))
            obl(rep, f, br, "R2.3", ok and ends_raise, "unary `-` swaps Intercept and NegatedIntercept and rejects anything else",
                str(pairs), f"unary minus maps {pairs}")
    obl(rep, f, f.node, "R2.3", not cfg_of(f).falls_off(), "visitUnaryExpr never returns None")
    # literals
    f = prog.fn("resolver.Resolver.visitLiteralExpr")
    p = f.params[1]
    m = {}
    for i in walk_local(f.node):
        if isinstance(i, ast.If) and isinstance(i.test, ast.Compare) and unparse(i.test.left) == f"{p}.value" \
                and isinstance(i.test.ops[0], ast.Eq) and isinstance(i.test.comparators[0], ast.Constant):
            r = i.body[0].value if i.body and isinstance(i.body[0], ast.Return) else None
            m[i.test.comparators[0].value] = dotted(r.func) if isinstance(r, ast.Call) else None
    obl(rep, f, f.node, "R2.3", m.get(0) == "NegatedIntercept" and m.get(1) == "Intercept",
        "literal 0 -> NegatedIntercept, literal 1 -> Intercept", str(m), f"literal map is {m}")


def r2_4(prog, rep):
    """linear use of sub-results in the resolver"""
    cls = prog.cls("resolver.Resolver")
    for name, m in sorted(cls.methods.items()):
        if not name.startswith("visit"):
            continue
        # no accept result is stored on self, and within one return expression each child is visited once
        stores = [n for n in walk_local(m.node) if isinstance(n, ast.Assign) and any(is_self_attr(t) for t in n.targets)]
        ok = not stores
        for r in [n for n in walk_local(m.node) if isinstance(n, ast.Return) and n.value is not None]:
            acc = [unparse(c.func.value) for c in ast.walk(r.value) if isinstance(c, ast.Call) and isinstance(c.func, ast.Attribute) and c.func.attr == "accept"]
            if len(acc) != len(set(acc)):
                ok = False
        # a local bound to an accept result must not be used twice in a returned expression
        for s in walk_local(m.node):
            if isinstance(s, ast.Assign) and isinstance(s.targets[0], ast.Name) and isinstance(s.value, ast.Call) \
                    and isinstance(s.value.func, ast.Attribute) and s.value.func.attr == "accept":
                var = s.targets[0].id
                for r in [n for n in walk_local(m.node) if isinstance(n, ast.Return) and n.value is not None]:
                    uses = [n for n in ast.walk(r.value) if isinstance(n, ast.Name) and n.id == var]
                    if len(uses) > 1:
                        ok = False
        obl(rep, m, m.node, "R2.4", ok, f"Resolver.{name}: each sub-result is used at most once and none is stored",
            "Model.__add__/__sub__/__or__ mutate and return self: a sub-result referenced twice would alias",
            "a sub-result of the resolver is used twice or stored: in-place operators would corrupt it")
    # overloads that mutate self must return self (not a fresh object plus the mutated operand)
    model = prog.cls("terms.terms.Model")
    for name in ("__add__", "__sub__"):
        m = model.methods[name]
        rets = [n for n in walk_local(m.node) if isinstance(n, ast.Return)]
        muts = [c for c in calls_in(m.node) if isinstance(c.func, ast.Attribute) and c.func.attr in ("remove", "append", "insert")
                and unparse(c.func.value).startswith("self.")]
        bad = [r for r in rets if any(isinstance(n, ast.Name) and n.id == m.params[1] for n in ast.walk(r.value))
               and isinstance(r.value, (ast.Tuple, ast.List))]
        obl(rep, m, m.node, "R2.4", not bad, f"Model.{name} never returns a container that aliases its operand")


def r2_5(prog, rep):
    # Term.__init__ de-duplicates
    f = prog.fn("terms.terms.Term.__init__")
    c = cfg_of(f)
    apps = [x for x in calls_in(f.node) if unparse(x.func) == "self.components.append"]
    ok = False
    for a in apps:
        an = c.node_of(a)
        for i in walk_local(f.node):
            if isinstance(i, ast.If) and isinstance(i.test, ast.Compare) and isinstance(i.test.ops[0], ast.NotIn) \
                    and unparse(i.test.comparators[0]) == "self.components" and unparse(i.test.left) == unparse(a.args[0]):
                n = c.node_of(i)
                if an in c.true_region(n) and an not in c.false_region(n):
                    ok = True
    obl(rep, f, apps[0] if apps else f.node, "R2.5", ok and len(apps) == 1,
        "Term.__init__ appends a component only under `component not in self.components` (repeated factors collapse)",
        "", "components are appended without a membership guard: `a:a` would keep two factors")
    # name derives from the de-duplicated list
    names = [s for s in walk_local(f.node) if isinstance(s, ast.Assign) and is_self_attr(s.targets[0], "name")]
    obl(rep, f, names[0] if names else f.node, "R2.5",
        len(names) == 1 and "self.components" in unparse(names[0].value) and "':'.join" in unparse(names[0].value),
        "Term.name joins the de-duplicated components with ':'")
    # add_term guards
    f = prog.fn("terms.terms.Model.add_term")
    c = cfg_of(f)
    apps = [x for x in calls_in(f.node) if isinstance(x.func, ast.Attribute) and x.func.attr in ("append", "insert")
            and unparse(x.func.value) in ("self.common_terms", "self.group_terms")]
    if len(apps) < 2:
        raise AnalysisError("Model.add_term: expected appends to common_terms and group_terms")
    for a in apps:
        lst = unparse(a.func.value)
        an = c.node_of(a)
        ok = False
        for i in walk_local(f.node):
            if isinstance(i, ast.If) and isinstance(i.test, ast.Compare) and isinstance(i.test.ops[0], ast.NotIn) \
                    and unparse(i.test.comparators[0]) == lst and unparse(i.test.left) == unparse(a.args[-1]):
                n = c.node_of(i)
                if an in c.true_region(n) and an not in c.false_region(n):
                    ok = True
        obl(rep, f, a, "R2.5", ok, f"add_term appends to {lst} only under a membership guard (set union)", "",
            f"`{short(a)}` is not guarded by `term not in {lst}`: duplicates enter the model")
    obl(rep, f, f.node, "R2.5", not c.falls_off() and block_raises(_final_else(f)), "add_term rejects objects that are not terms")
    # Model.__add__(Model) adds through add_term; __sub__ removes under membership
    f = prog.fn("terms.terms.Model.__sub__")
    rems = [x for x in calls_in(f.node) if isinstance(x.func, ast.Attribute) and x.func.attr == "remove"]
    c = cfg_of(f)
    for r in rems:
        lst = unparse(r.func.value)
        rn = c.node_of(r)
        ok = False
        for i in walk_local(f.node):
            if isinstance(i, ast.If) and isinstance(i.test, ast.Compare) and isinstance(i.test.ops[0], ast.In) \
                    and unparse(i.test.comparators[0]) == lst and unparse(i.test.left) == unparse(r.args[0]):
                n = c.node_of(i)
                if rn in c.true_region(n):
                    ok = True
        obl(rep, f, r, "R2.5", ok, f"Model.__sub__: `{short(r)}` only under `in {lst}` (difference never raises)")
    # model_description returns a Model on every path
    f = prog.fn("model_description.model_description")
    rets = [n for n in walk_local(f.node) if isinstance(n, ast.Return)]
    c = cfg_of(f)
    ok = bool(rets) and not c.falls_off()
    for r in rets:
        v = r.value
        if isinstance(v, ast.Call) and dotted(v.func) == "Model":
            continue
        if isinstance(v, ast.Name):
            rn = c.node_of(r)
            good = False
            for i in walk_local(f.node):
                if isinstance(i, ast.If) and _is_isinstance_of(i.test, v.id) and unparse(i.test.args[1]) == "Model":
                    n = c.node_of(i)
                    if rn in c.true_region(n) and rn not in c.false_region(n):
                        good = True
            ok = ok and good
        else:
            ok = False
    obl(rep, f, f.node, "R2.5", ok, "model_description returns a Model on every path (isinstance guard or Model(...))")


def _final_else(f):
    node = None
    for s in f.body:
        if isinstance(s, ast.If):
            node = s
    if node is None:
        return []
    while len(node.orelse) == 1 and isinstance(node.orelse[0], ast.If):
        node = node.orelse[0]
    return node.orelse


# ------------------------------------------------------------------------------------------
def _alpha_gens(text):
    """`{T(x) | x in S; ...}`: bound variables are renamed by order of appearance inside each generator and the generators
    re-sorted, so that two descriptions that differ only in the names of their bound variables compare equal"""
    import re

    def one(chunk):
        names = []
        for m in re.finditer(r"\b([A-Za-z_]\w*) in ", chunk):
            if m.group(1) not in names:
                names.append(m.group(1))
        for i, n in enumerate(names):
            chunk = re.sub(rf"\b{re.escape(n)}\b", f"\u03b2{i}", chunk)
        return chunk

    def block(m):
        return "{" + "; ".join(sorted(one(c) for c in m.group(1).split("; "))) + "}"

    return re.sub(r"\{([^{}]*)\}", block, text)


def r2_7(prog, rep):
    """the algebra of R2.6 is over the values the overloads return: the resolver must hand the value of a parenthesised
    sub-expression to the enclosing operator untouched (the intercept marker of `(0 + x | g)` has to reach `|`).  C01's R1.10."""
    from . import C01
    from ..core import reuse_rule

    class _Ctx:
        pass

    ctx = _Ctx()
    ctx.prog = prog
    reuse_rule(rep, C01.r1_10, "R2.7", ctx)


def r2_6(prog, rep):
    """expansion semantics: abstract interpretation of every overload in the term-set domain vs. the documented algebra"""
    from ..algebra import Summariser

    S = Summariser(prog)
    mod = prog.mod("terms.terms")
    for (sym, L, R), want in sorted(REF_EXPANSION.items()):
        method = OPS.get(sym, "__add__")
        try:
            outs = S.summarise(L, method, R)
            if outs is not None:
                [S.normal(v) for c, v in outs]
        except AnalysisError as e:
            rep.defer(f"R2.6 {L} {sym} {R}: {e}")
            continue
        m = mod.classes[L].methods.get(method)
        where = f"{mod.relpath}:{m.node.lineno}" if m else mod.classes[L].where
        fnq = f"formulae.terms.terms.{L}.{method}"
        construct = f"{L} {sym} {R} expands as documented"
        if outs is None:
            rep.bad("R2.6", where, fnq, construct, f"{L} has no {method}")
            continue
        got = sorted({(" & ".join(c) or "-", _alpha_gens(S.normal(v))) for c, v in outs})
        want = sorted((c, _alpha_gens(v)) for c, v in want)
        # `raise *`: any exception is the documented outcome of that case
        wild = {c for c, v in want if v == "raise *"}
        got = sorted({(c, "raise *" if c in wild and v.startswith("raise ") else v) for c, v in got})
        if got == want:
            rep.ok("R2.6", where, fnq, construct, "; ".join(f"[{c}] {v}" for c, v in got))
        else:
            missing = [x for x in want if x not in got]
            extra = [x for x in got if x not in want]
            rep.bad("R2.6", where, fnq, construct,
                    "the overload builds a different term set than the documented algebra - expected "
                    + "; ".join(f"[{c}] {v}" for c, v in missing) + " - found " + "; ".join(f"[{c}] {v}" for c, v in extra))
    # a hoisted `product(...)` is an iterator: consumed twice, the second expansion is empty
    from . import shared as _sh
    _sh.one_shot_iterators(prog, rep, "R2.6", modules={"formulae.terms.terms"})
    # definitions the summaries rely on: allcomps(X) and ALL(X)
    cc = prog.fn("terms.terms.Model.common_components")
    rets = [n for n in walk_local(cc.node) if isinstance(n, ast.Return)]
    ok = len(rets) == 1 and isinstance(rets[0].value, ast.ListComp)
    if ok:
        import copy as _copy
        lc = _copy.deepcopy(rets[0].value)
        g = lc.generators
        # the outer iterable may be a local generator `(t for t in self.common_terms if isinstance(t, Term))`: read through it
        if g and isinstance(g[0].iter, ast.Name):
            ds = [st_ for st_ in walk_local(cc.node) if isinstance(st_, ast.Assign) and len(st_.targets) == 1 and unparse(st_.targets[0]) == g[0].iter.id]
            if len(ds) == 1 and isinstance(ds[0].value, (ast.GeneratorExp, ast.ListComp)) and len(ds[0].value.generators) == 1 \
                    and isinstance(ds[0].value.generators[0].target, ast.Name) and unparse(ds[0].value.elt) == ds[0].value.generators[0].target.id \
                    and isinstance(g[0].target, ast.Name) and not g[0].ifs:
                inner = ds[0].value.generators[0]
                ren = {inner.target.id: g[0].target.id}
                ifs = _copy.deepcopy(inner.ifs)
                for c_ in ifs:
                    for n_ in ast.walk(c_):
                        if isinstance(n_, ast.Name) and n_.id in ren:
                            n_.id = ren[n_.id]
                g[0].iter, g[0].ifs = inner.iter, ifs
        ok = (len(g) == 2 and unparse(g[0].iter) == "self.common_terms" and [unparse(i) for i in g[0].ifs] in ([f"isinstance({unparse(g[0].target)}, Term)"], [])
              and unparse(g[1].iter) == f"{unparse(g[0].target)}.components" and not g[1].ifs and unparse(lc.elt) == unparse(g[1].target))
    obl(rep, cc, cc.node, "R2.6", ok, "allcomps(X) = the components of every common Term of X, in order, unfiltered", "",
        "Model.common_components does not return all factors of all common terms: a/b no longer is a + (all factors of a):b")
    tm = prog.fn("terms.terms.Model.terms")
    rets = [n for n in walk_local(tm.node) if isinstance(n, ast.Return)]
    obl(rep, tm, tm.node, "R2.6", len(rets) == 1 and unparse(rets[0].value) == "self.common_terms + self.group_terms",
        "ALL(X) = common terms followed by group-specific terms")
    mi = prog.fn("terms.terms.Model.__init__")
    d = {unparse(s_.targets[0]): unparse(s_.value) for s_ in ast.walk(mi.node) if isinstance(s_, ast.Assign)}
    ok = d.get("self.common_terms") == "[term for term in terms if not isinstance(term, GroupSpecificTerm)]" and \
        d.get("self.group_terms") == "[term for term in terms if isinstance(term, GroupSpecificTerm)]"
    obl(rep, mi, mi.node, "R2.6", ok, "Model(*terms) keeps every given term, split into common and group-specific lists")


from ..core import guard_rules  # noqa: E402

guard_rules(globals())

"""C15 - response handling: plumbing and independence clauses (R15.1 .. R15.6)."""
import ast

from ..core import (
    AnalysisError,
    obl,
    unparse,
    short,
    dotted,
    is_self_attr,
    walk_local,
    calls_in,
    block_raises,
    bound_args,
)
from ..cfg import cfg_of
from .. import grammar as G
from ..types import TypeEngine

EXPLANATION = (
    "R15.1 the response is a single term: Response.__init__ stores the term only when it is a Term with exactly one "
    "component, every other path raises, and `~` is resolved as Response(left) + right so the guard cannot be "
    "bypassed. R15.2 typestate and full coding: set_type dominates set_data for every evaluated object, and the "
    "response is always coded with spans_intercept=True (one indicator per level). R15.3 subset notation "
    "plumbing: the IDENT '[' primary ']' production yields Variable(identifier, Literal(level)), rejects "
    "non-string literals and nested brackets; the resolver hands level.value to terms.Variable, which stores it as "
    "`reference`; it is consulted only under `is_response and reference is not None`. R15.4 non-interference: no "
    "function on the common/group evaluation path reads `.response`, and `is_response` is read only by the two "
    "misuse guards and the y[level] branch. R15.5 no response => none. R15.6 prop columns and guards. Not decided: "
    "the point-wise meaning of the response columns."
    " R15.8 built-in helpers win over the caller's names (C11's R11.1 / R11.2)."
    " R15.9 the full coding used for the response is the identity over the caller's level list, labels in the same order (C04's R4.2)."
)
ASSUMPTIONS = [
    "polarity/meaning of np.where(x == reference, 1, 0) is a runtime fact; only the plumbing into it is decided",
]


def run(prog, rep, tier):
    r15_1(prog, rep)
    r15_2(prog, rep)
    r15_3(prog, rep)
    r15_4(prog, rep)
    r15_5(prog, rep)
    r15_6(prog, rep)
    # a categorical response (plain variable or call) gets its level order by the same code as any categorical term:
    # sorted for undeclared data, the declared order otherwise (C04's R4.3, reported here as R15.2)
    from . import C04
    sub = rep.sub()
    C04.r4_3(prog, sub)
    for it in sub.items:
        it = dict(it)
        it["rule"] = "R15.2"
        rep.items.append(it)
        rep.counts["R15.2"] = rep.counts.get("R15.2", 0) + 1
    # prop(y, n) / p(y, n) / y[level] in a response are formulae's own helpers only while built-in names are resolved before
    # anything the caller defines (C11's R11.1 / R11.2, reported here as R15.8)
    from . import C11
    from ..core import reuse_rule
    reuse_rule(rep, C11.r11_2, "R15.8", prog)
    reuse_rule(rep, C11.r11_1, "R15.8", prog)
    # "one indicator column per level in sorted or declared order": the response is coded in full (R15.2), and the full coding is
    # the identity over the caller's level list with the labels in that same order (the full-coding obligations of C04's R4.2)
    from . import C04
    reuse_rule(rep, C04.r4_2, "R15.9", prog, keep=lambda it: it.get("function", "").endswith(".code_with_intercept"))
    rep.floor("R15.9", 2)
    from . import shared
    # "the response must be a single term" counts terms after `+` has merged equal ones: two different subsets y[a] + y[b]
    # must stay two terms, i.e. the identity of terms and variables must not lose the level (C02's R2.1, reported as R15.1)
    shared.eq_compares_fields(prog, rep, "R15.1", ["terms.terms.Term", "terms.variable.Variable", "terms.call.Call"])
    shared.dtype_narrowing(prog, rep, "R15.7", fns={q for q in prog.functions if q.startswith("formulae.transforms.")})
    rep.floor("R15.1", 3)
    rep.floor("R15.2", 5)
    rep.floor("R15.3", 6)
    rep.floor("R15.4", 10)


def r15_1(prog, rep):
    f = prog.fn("terms.terms.Response.__init__")
    c = cfg_of(f)
    t = f.params[1]
    stores = [s for s in walk_local(f.node) if isinstance(s, ast.Assign) and is_self_attr(s.targets[0], "term")]
    ok = len(stores) == 1 and unparse(stores[0].value) == t
    g1 = [i for i in walk_local(f.node) if isinstance(i, ast.If) and unparse(i.test) == f"isinstance({t}, Term)"]
    g2 = [i for i in walk_local(f.node) if isinstance(i, ast.If) and isinstance(i.test, ast.Compare) and unparse(i.test.comparators[0]) == "1"
          and isinstance(i.test.ops[0], ast.Eq)]
    ok = ok and len(g1) == 1 and len(g2) == 1
    if ok:
        sn = c.node_of(stores[0])
        for g in (g1[0], g2[0]):
            gn = c.node_of(g)
            ok = ok and sn in c.true_region(gn) and sn not in c.false_region(gn)
        lhs = unparse(g2[0].test.left)
        defs = {unparse(s.targets[0]): unparse(s.value) for s in walk_local(f.node) if isinstance(s, ast.Assign)}
        ok = ok and defs.get(lhs, lhs) == f"len({t}.components)"
        # every path that does not store raises
        ok = ok and c.must_pass([sn])
    obl(rep, f, stores[0] if stores else f.node, "R15.1", ok,
        "Response stores its term only if it is a Term with exactly one component; every other path raises", "",
        "the single-term guard of the response is missing or can be bypassed")
    ti = prog.fn("terms.terms.Term.__init__")
    apps = [x for x in calls_in(ti.node) if unparse(x.func) == "self.components.append"]
    guard_ok = False
    for a in apps:
        for i in walk_local(ti.node):
            if isinstance(i, ast.If) and unparse(i.test) == f"{unparse(a.args[0])} not in self.components" and any(a is x for x in ast.walk(i)):
                guard_ok = True
    obl(rep, ti, apps[0] if apps else ti.node, "R15.1", guard_ok and len(apps) == 1,
        "the component count tested by Response is taken after de-duplication by equality (name AND level): y[a]:y[b] has two components and is refused",
        "", "components are not de-duplicated by `component not in self.components`: y[a]:y[b] can collapse into one component and pass as a response")
    mark = [s for s in walk_local(f.node) if isinstance(s, ast.Assign) and unparse(s.targets[0]) == "self.term.components[0].is_response"]
    obl(rep, f, mark[0] if mark else f.node, "R15.1", len(mark) == 1 and unparse(mark[0].value) == "True", "the response's component is marked is_response = True")
    rv = prog.fn("resolver.Resolver.visitBinaryExpr")
    srcs = [unparse(n) for n in ast.walk(rv.node) if isinstance(n, ast.Call) and dotted(n.func) == "Response"]
    obl(rep, rv, rv.node, "R15.1", srcs == [f"Response({rv.params[1]}.left.accept(self))"], "`~` always goes through Response(left)", str(srcs))
    ctor = []
    for q, fn in prog.functions.items():
        for x in calls_in(fn.node):
            if dotted(x.func) == "Response":
                ctor.append(q)
    obl(rep, rv, rv.node, "R15.1", ctor == ["formulae.resolver.Resolver.visitBinaryExpr"], "Response is constructed only by the resolver of `~`", str(ctor))


def r15_2(prog, rep):
    me = prog.fn("terms.terms.Model.eval")
    c = cfg_of(me)
    st = [x for x in calls_in(me.node) if unparse(x.func) == "self.set_types"]
    sd = [x for x in calls_in(me.node) if isinstance(x.func, ast.Attribute) and x.func.attr == "set_data"]
    ok = len(st) == 1 and len(sd) >= 2 and all(c.dominates(c.node_of(st[0]), c.node_of(x)) for x in sd)
    obl(rep, me, st[0] if st else me.node, "R15.2", ok, "Model.eval: set_types dominates every set_data")
    sts = prog.fn("terms.terms.Model.set_types")
    loops = [n for n in walk_local(sts.node) if isinstance(n, ast.For)]
    ok = len(loops) == 1 and unparse(loops[0].iter) == "self.terms" and f"{unparse(loops[0].target)}.set_type({sts.params[1]}, {sts.params[2]})" in unparse(loops[0])
    obl(rep, sts, sts.node, "R15.2", ok, "set_types types every term (common and group-specific)")
    rm = prog.fn("matrices.ResponseMatrix.evaluate")
    c = cfg_of(rm)
    a = [x for x in calls_in(rm.node) if unparse(x.func) == "self.term.set_type"]
    b = [x for x in calls_in(rm.node) if unparse(x.func) == "self.term.set_data"]
    ok = len(a) == 1 and len(b) == 1 and c.dominates(c.node_of(a[0]), c.node_of(b[0]))
    obl(rep, rm, rm.node, "R15.2", ok, "ResponseMatrix.evaluate: set_type before set_data")
    rs = prog.fn("terms.terms.Response.set_data")
    calls = [x for x in calls_in(rs.node) if unparse(x.func) == "self.term.set_data"]
    # the argument is bound against Term.set_data's own signature (its single parameter may be renamed together with the keyword)
    tsd = prog.fn("terms.terms.Term.set_data")
    b = bound_args(tsd.node, calls[0], skip_first=True) if len(calls) == 1 else None
    ok = b is not None and len(tsd.params) == 2 and b.get(tsd.params[1]) == "True"
    obl(rep, rs, calls[0] if calls else rs.node, "R15.2", ok, "the response is always coded with spans_intercept=True (one indicator per level)", "",
        "a categorical response would be coded with a reduced (n-1 column) contrast")
    ce = prog.fn("terms.terms.create_extra_term")
    c = cfg_of(ce)
    a = [x for x in calls_in(ce.node) if unparse(x.func) == "extra_term.set_type"]
    obl(rep, ce, ce.node, "R15.2", len(a) == 1 and c.must_pass([c.node_of(a[0])]), "helper terms are typed when they are created (before the set_data loop)")
    # levels / kind / matrix of the response are read after set_data
    d = {unparse(s.targets[0]): unparse(s.value) for s in walk_local(rm.node) if isinstance(s, ast.Assign)}
    ok = d.get("self.design_matrix") == "self.term.term.data" and d.get("self.kind") == "self.term.term.kind" and d.get("self.levels") == "self.term.term.levels"
    obl(rep, rm, rm.node, "R15.2", ok, "the response matrix, kind and levels are those of the evaluated response term")


def r15_3(prog, rep):
    ex = G.extract(prog)
    S = G.summaries(ex)
    fn = ex.productions["primary"]["fn"]
    br = []
    rejects = 0
    for path, status, val in S["primary"]:
        if any(e[0] == "tok" and tuple(e[1]) == ("LEFT_BRACKET",) for e in path.events):
            if status == "return":
                br.append((path, val))
            elif status == "raise":
                rejects += 1
    ok = bool(br)
    for path, val in br:
        good = val[0] == "node" and val[1] == "Variable" and val[2]["name"][0] == "tokv" and val[2]["name"][2] == ("IDENTIFIER",)
        lv = val[2]["level"]
        good = good and (lv[0] == "hole" or (lv[0] == "node" and lv[1] == "Literal"))
        ok = ok and good
    rep.check(ok, "R15.3", fn.where, fn.qual, "IDENT '[' primary ']' yields Variable(identifier, <level literal>)", f"{len(br)} accepting path(s)")
    rep.check(rejects >= 2, "R15.3", fn.where, fn.qual, "non-string literals and nested brackets are rejected (raising paths exist)", f"{rejects} rejecting path(s)")
    pf = prog.fn("parser.Parser.primary")
    g = [unparse(i.test) for i in ast.walk(pf.node) if isinstance(i, ast.If) and block_raises(i.body)]
    ok = "isinstance(level, Literal) and (not isinstance(level.value, str))" in g and "level.level is not None" in g
    obl(rep, pf, pf.node, "R15.3", ok, "guards: literal level must be a string; a bracketed identifier must not itself carry a level", str(g))
    rv = prog.fn("resolver.Resolver.visitVariableExpr")
    p = rv.params[1]
    rets = [n for n in walk_local(rv.node) if isinstance(n, ast.Return)]
    # Term(Variable(<identifier>, level)) - arguments bound against Variable.__init__ (keywords / spelled-out defaults are the same call)
    vinit = prog.fn("terms.variable.Variable.__init__")
    ok = len(rets) == 1 and isinstance(rets[0].value, ast.Call) and unparse(rets[0].value.func) == "Term" and len(rets[0].value.args) == 1 \
        and not rets[0].value.keywords and isinstance(rets[0].value.args[0], ast.Call) and unparse(rets[0].value.args[0].func) == "Variable"
    if ok:
        b = bound_args(vinit.node, rets[0].value.args[0], skip_first=True)
        ok = b == {"name": f"{p}.name.lexeme", "level": "level", "is_response": "False"}
    lv = [s for s in ast.walk(rv.node) if isinstance(s, ast.Assign) and unparse(s.targets[0]) == "level"]
    ok = ok and sorted(unparse(s.value) for s in lv) == sorted([f"{p}.level.value", "None"])
    obl(rep, rv, rv.node, "R15.3", ok, "the resolver hands level.value (or None) as the second argument of terms.Variable")
    vi = prog.fn("terms.variable.Variable.__init__")
    st = [s for s in walk_local(vi.node) if isinstance(s, ast.Assign) and is_self_attr(s.targets[0], "reference")]
    obl(rep, vi, vi.node, "R15.3", len(st) == 1 and unparse(st[0].value) == vi.params[2] and vi.params[1:3] == ["name", "level"], "terms.Variable stores the level as self.reference")
    ec = prog.fn("terms.variable.Variable.eval_categoric")
    uses = [n for n in ast.walk(ec.node) if is_self_attr(n, "reference")]
    guard = [i for i in walk_local(ec.node) if isinstance(i, ast.If) and unparse(i.test) == "self.is_response and self.reference is not None"]
    ok = len(guard) == 1
    if ok:
        inside = [n for n in ast.walk(guard[0].test)] + [n for s in guard[0].body for n in ast.walk(s)]
        ok = all(any(u is n for n in inside) for u in uses) and len(uses) >= 2
    obl(rep, ec, guard[0] if guard else ec.node, "R15.3", ok, "the level is consulted only under `self.is_response and self.reference is not None`", "",
        "y[level] notation influences predictors or is ignored for the response")
    if guard:
        body = [unparse(s) for s in guard[0].body]
        from . import shared as _sh
        ind = None
        if len(guard[0].body) == 1 and isinstance(guard[0].body[0], ast.Assign) and unparse(guard[0].body[0].targets[0]) in ("value", "self.value"):
            ind = _sh.indicator_of(guard[0].body[0].value)
        obl(rep, ec, guard[0], "R15.3", ind is not None and "self.reference" in ind,
            "the y[level] branch builds a single 0/1 indicator column from the comparison with the level", str(body))
    lb = prog.fn("terms.terms.Term.levels")
    src = unparse(lb.node)
    ok = "component.reference is not None" in src or "getattr(component, 'reference', None) is not None" in src
    obl(rep, lb, lb.node, "R15.3", ok, "a y[level] response reports no level list", nontrivial=False)


def r15_4(prog, rep):
    names = ["terms.terms.Model._get_encoding_groups", "terms.terms.Model._get_encoding_bools", "terms.terms.Model.add_extra_terms",
             "terms.terms.Model.eval", "terms.terms.Model.set_types", "terms.terms.create_extra_term", "terms.terms.Term.set_data", "terms.terms.Term.set_type",
             "terms.terms.GroupSpecificTerm.set_data", "terms.terms.GroupSpecificTerm.set_type",
             "matrices.CommonEffectsMatrix.evaluate", "matrices.CommonEffectsMatrix.evaluate_new_data",
             "matrices.GroupEffectsMatrix.evaluate", "matrices.GroupEffectsMatrix.evaluate_new_data"]
    names += [q[len("formulae."):] for q in prog.functions if q.startswith("formulae.contrasts.")]
    for q in names:
        f = prog.fn(q)
        reads = [n for n in ast.walk(f.node) if isinstance(n, ast.Attribute) and n.attr == "response"]
        obl(rep, f, reads[0] if reads else f.node, "R15.4", not reads, f"{q.split('.', 1)[1]} never reads `.response`", "",
            "the predictor side consults the response: common/group matrices would depend on which response is named")
    # is_response readers
    readers = {}
    for q, f in prog.functions.items():
        for n in ast.walk(f.node):
            if isinstance(n, ast.Attribute) and n.attr == "is_response" and isinstance(n.ctx, ast.Load):
                readers.setdefault(q, []).append(n)
    allowed = {"formulae.terms.variable.Variable.eval_categoric", "formulae.terms.call.Call.eval_offset", "formulae.terms.call.Call.eval_proportion"}
    anchor = prog.fn("terms.variable.Variable.eval_categoric")
    extra = sorted(set(readers) - allowed)
    obl(rep, anchor, anchor.node, "R15.4", not extra and allowed <= set(readers),
        "is_response is read only by the y[level] branch and the two misuse guards (offset / prop)", str(sorted(readers)),
        f"is_response is also read by {extra}: predictors can behave differently depending on the response flag")
    writers = {}
    for q, f in prog.functions.items():
        for n in ast.walk(f.node):
            if isinstance(n, ast.Attribute) and n.attr == "is_response" and isinstance(n.ctx, ast.Store):
                writers.setdefault(q, []).append(n)
    ok = set(writers) == {"formulae.terms.terms.Response.__init__", "formulae.terms.variable.Variable.__init__", "formulae.terms.call.Call.__init__"}
    obl(rep, anchor, anchor.node, "R15.4", ok, "is_response is set only at construction and by Response.__init__", str(sorted(writers)))
    # the common matrix is built from common_terms only; the group matrix from group_terms only
    di = prog.fn("matrices.DesignMatrices.__init__")
    srcs = {unparse(x.func): [unparse(a) for a in x.args] for x in calls_in(di.node) if dotted(x.func) in ("ResponseMatrix", "CommonEffectsMatrix", "GroupEffectsMatrix")}
    ok = srcs == {"ResponseMatrix": ["self.model.response"], "CommonEffectsMatrix": ["self.model.common_terms"], "GroupEffectsMatrix": ["self.model.group_terms"]}
    obl(rep, di, di.node, "R15.4", ok, "each matrix is built from its own part of the model", str(srcs))


def r15_5(prog, rep):
    di = prog.fn("matrices.DesignMatrices.__init__")
    c = cfg_of(di)
    init = [s for s in walk_local(di.node) if isinstance(s, ast.Assign) and is_self_attr(s.targets[0], "response")]
    none = [s for s in init if unparse(s.value) == "None"]
    real = [s for s in init if unparse(s.value) != "None"]
    guards = [i for i in walk_local(di.node) if isinstance(i, ast.If) and unparse(i.test) in ("self.model.response", "self.model.response is not None")]
    ok = len(none) == 1 and len(real) == 1 and len(guards) == 1 and c.node_of(real[0]) in c.true_region(c.node_of(guards[0])) \
        and c.node_of(real[0]) not in c.false_region(c.node_of(guards[0]))
    obl(rep, di, real[0] if real else di.node, "R15.5", ok, "design.response starts as None and is assigned only when the model has a response")
    mi = prog.fn("terms.terms.Model.__init__")
    d = mi.node.args.kw_defaults
    obl(rep, mi, mi.node, "R15.5", any(x is not None and unparse(x) == "None" for x in d), "Model(..., response=None): no response unless one is given")
    ar = prog.fn("terms.terms.Model.add_response")
    st = [s for s in walk_local(ar.node) if isinstance(s, ast.Assign) and is_self_attr(s.targets[0], "response")]
    g = [i for i in walk_local(ar.node) if isinstance(i, ast.If) and unparse(i.test) == f"isinstance({ar.params[1]}, Response)"]
    obl(rep, ar, ar.node, "R15.5", len(st) == 1 and len(g) == 1 and any(st[0] is x for x in ast.walk(g[0])), "add_response stores only Response objects")


def r15_6(prog, rep):
    from . import C16

    sub = rep.sub()
    C16.r16_6(prog, sub)
    C16.r16_4(prog, sub)
    for it in sub.items:
        if "prop" in it["construct"].lower() or "Proportion" in it["function"] or "proportion" in it["function"]:
            it = dict(it)
            it["rule"] = "R15.6"
            rep.items.append(it)
            rep.counts["R15.6"] = rep.counts.get("R15.6", 0) + 1


from ..core import guard_rules  # noqa: E402

guard_rules(globals())
